"""Path-sensitive clean-up of enumerated paths (used by paths.enumerate_paths).

A refactoring that routes a result through a temporary -- `r = (a, b, c)` /
`r = None` on the branches, then `if r is None: continue` and `a, b, c = r` --
has the same paths as the direct code, but only if the enumeration knows what
`r` holds.  For every path this pass tracks, for local names, values that were
assigned *on that path* from None, a constant or a tuple display, and

  * drops paths on which a branch outcome contradicts the known value
    (`r is None` taken after `r = (..)`): they are infeasible;
  * forwards a tuple display into `x, y, z = r`, splits the resulting parallel
    assignment into its non-identity components when they are independent, and
    drops the now unused definition of the temporary.

Only facts established on the same path, with no intervening rebinding, are
used, so no feasible path is removed.
"""
from __future__ import annotations

from .core import acopy
import ast
import copy
from typing import Any, Dict, List, Optional, Tuple

from .core import assigned_names, names_in


def _has_call(e: ast.AST) -> bool:
    return any(isinstance(n, (ast.Call, ast.Await, ast.Yield, ast.YieldFrom, ast.NamedExpr)) for n in ast.walk(e))


def _classify(v: Optional[ast.AST], env: Dict[str, Tuple]) -> Optional[Tuple]:
    if v is None:
        return None
    if isinstance(v, ast.Constant):
        return ("none",) if v.value is None else ("const", v.value)
    if isinstance(v, ast.Tuple) and isinstance(v.ctx, ast.Load) and not any(isinstance(e, ast.Starred) for e in v.elts):
        return ("tuple", v, frozenset(names_in(v)))
    if isinstance(v, ast.Name) and v.id in env:
        return env[v.id]
    if isinstance(v, (ast.List, ast.Dict, ast.Set, ast.ListComp, ast.SetComp, ast.DictComp, ast.GeneratorExp, ast.JoinedStr, ast.Lambda)):
        return ("nonnull",)
    return None


def _truth(val: Tuple) -> Optional[bool]:
    if val[0] == "none":
        return False
    if val[0] == "const":
        try:
            return bool(val[1])
        except Exception:  # noqa: BLE001
            return None
    if val[0] == "tuple":
        return len(val[1].elts) > 0
    return None


def _decide(c: ast.AST, env: Dict[str, Tuple]) -> Optional[bool]:
    """truth value of an atomic condition under env, if determined"""
    if isinstance(c, ast.Name) and c.id in env:
        return _truth(env[c.id])
    if isinstance(c, ast.Compare) and len(c.ops) == 1 and isinstance(c.left, ast.Name) and c.left.id in env:
        r = c.comparators[0]
        val = env[c.left.id]
        if isinstance(r, ast.Constant) and r.value is None and isinstance(c.ops[0], (ast.Is, ast.IsNot, ast.Eq, ast.NotEq)):
            if val[0] == "const" and val[1] is None:
                return None
            is_none = val[0] == "none"
            return is_none if isinstance(c.ops[0], (ast.Is, ast.Eq)) else not is_none
        if isinstance(r, ast.Constant) and val[0] == "const" and isinstance(c.ops[0], (ast.Eq, ast.NotEq)) and type(r.value) is type(val[1]):
            eq = r.value == val[1]
            return eq if isinstance(c.ops[0], ast.Eq) else not eq
    return None


def _dereferenced(node: ast.AST) -> set:
    """names that the evaluation of node dereferences (attribute access, call, subscript, arithmetic, ordering comparison):
    if evaluation went on without an exception, they were not None"""
    out = set()
    for n in ast.walk(node):
        if isinstance(n, (ast.FunctionDef, ast.Lambda, ast.ClassDef)):
            continue
        if isinstance(n, ast.Attribute) and isinstance(n.value, ast.Name):
            out.add(n.value.id)
        elif isinstance(n, ast.Subscript) and isinstance(n.value, ast.Name) and isinstance(n.ctx, ast.Load):
            out.add(n.value.id)
        elif isinstance(n, ast.Call) and isinstance(n.func, ast.Name) and n.func.id not in ("print", "isinstance", "str", "repr", "bool", "id", "type", "hash", "getattr", "cast"):
            pass
        elif isinstance(n, ast.BinOp) and isinstance(n.op, (ast.Add, ast.Sub, ast.Mult, ast.FloorDiv, ast.Mod)):
            for side in (n.left, n.right):
                if isinstance(side, ast.Name):
                    out.add(side.id)
        elif isinstance(n, ast.Compare) and any(isinstance(o, (ast.Lt, ast.LtE, ast.Gt, ast.GtE)) for o in n.ops):
            for side in [n.left] + list(n.comparators):
                if isinstance(side, ast.Name):
                    out.add(side.id)
    return out


def _learn_nonnull(env: Dict[str, Tuple], names) -> None:
    for n in names:
        if n not in env:
            env[n] = ("nonnull",)


def _kill(env: Dict[str, Tuple], name: str) -> None:
    env.pop(name, None)
    for k, v in list(env.items()):
        if v[0] == "tuple" and name in v[2]:
            env[k] = ("nonnull",)


def simplify_events(events: List[tuple]) -> Optional[List[tuple]]:
    """None if the path is infeasible, else the (possibly rewritten) events"""
    env: Dict[str, Tuple] = {}
    defs_at: Dict[str, int] = {}  # temp name -> index in `out` of its defining event
    out: List[tuple] = []
    changed = False
    for idx, ev in enumerate(events):
        kind = ev[0]
        if kind == "cond":
            d = _decide(ev[1], env)
            if d is not None and d != ev[2]:
                return None
            # what the outcome tells us: `x` true / `x is not None` -> x is not None; a dereference that did not raise -> not None
            c = ev[1]
            if isinstance(c, ast.Name) and ev[2]:
                _learn_nonnull(env, [c.id])
            if isinstance(c, ast.Compare) and len(c.ops) == 1 and isinstance(c.left, ast.Name) and isinstance(c.comparators[0], ast.Constant) \
                    and c.comparators[0].value is None:
                isnone = ev[2] if isinstance(c.ops[0], (ast.Is, ast.Eq)) else (not ev[2] if isinstance(c.ops[0], (ast.IsNot, ast.NotEq)) else None)
                if isnone is False:
                    _learn_nonnull(env, [c.left.id])
                elif isnone is True and c.left.id not in env:
                    env[c.left.id] = ("none",)
            _learn_nonnull(env, _dereferenced(c))
            out.append(ev)
            continue
        if kind == "loop":
            for n in assigned_names(ev[1]):
                _kill(env, n)
            out.append(ev)
            continue
        if kind == "iter":
            for n in assigned_names(ev[1].target):
                _kill(env, n)
            out.append(ev)
            continue
        if kind in ("except", "with"):
            node = ev[1]
            if kind == "except":
                env.clear()  # control came from an unknown point of the try body
            else:
                for it in node.items:
                    if it.optional_vars is not None:
                        for n in assigned_names(it.optional_vars):
                            _kill(env, n)
            out.append(ev)
            continue
        if kind != "stmt":
            out.append(ev)
            continue
        s = ev[1]
        if isinstance(s, ast.Assign) and len(s.targets) == 1:
            t, v = s.targets[0], s.value
            # forward a known tuple into an unpacking assignment
            if isinstance(t, (ast.Tuple, ast.List)) and isinstance(v, ast.Name) and v.id in env and env[v.id][0] == "tuple" \
                    and all(isinstance(e, ast.Name) for e in t.elts) and len(env[v.id][1].elts) == len(t.elts):
                tup = env[v.id][1]
                di = defs_at.get(v.id)
                between = out[di + 1:] if di is not None else None
                ok = di is not None
                if ok:
                    inter_stmts = [e for e in between if e[0] != "cond"]
                    if any(_has_call(e) for e in tup.elts) and inter_stmts:
                        ok = False
                    for e in inter_stmts:
                        if e[0] != "stmt" or (assigned_names(e[1]) & (env[v.id][2] | {v.id})):
                            ok = False
                    # conditions in between must not evaluate calls either when the tuple has calls (order of effects)
                    if any(_has_call(e) for e in tup.elts) and any(_has_call(e[1]) for e in between if e[0] == "cond"):
                        ok = False
                # the temporary must not be read later on this path
                later_reads = any(v.id in _names_of_event(e) for e in events[idx + 1:])
                if ok and not later_reads:
                    # no other reader between definition and here except decided conditions on the temp itself
                    other = [e for e in between if v.id in _names_of_event(e) and not (e[0] == "cond" and _decide(e[1], {v.id: env[v.id]}) is not None)]
                    if not other:
                        pairs = [(te.id, acopy(ve)) for te, ve in zip(t.elts, tup.elts)]
                        pairs = [(n, e) for n, e in pairs if not (isinstance(e, ast.Name) and e.id == n)]
                        indep = all(n not in names_in(e2) for i, (n, _) in enumerate(pairs) for j, (_, e2) in enumerate(pairs) if j > i)
                        # also an earlier-written target must not be read by a later component (checked above); components reading their own target are fine
                        new_events: List[tuple] = []
                        if indep:
                            for n, e in pairs:
                                a = ast.Assign(targets=[ast.Name(id=n, ctx=ast.Store())], value=e, lineno=s.lineno)
                                ast.copy_location(a, s)
                                ast.fix_missing_locations(a)
                                _adopt(a, s)
                                new_events.append(("stmt", a))
                        else:
                            a = ast.Assign(targets=[acopy(t)], value=acopy(tup), lineno=s.lineno)
                            ast.copy_location(a, s)
                            ast.fix_missing_locations(a)
                            _adopt(a, s)
                            new_events.append(("stmt", a))
                        # drop the definition of the temporary
                        del out[di]
                        defs_at = {k: (i - 1 if i > di else i) for k, i in defs_at.items() if i != di}
                        out.extend(new_events)
                        for te in t.elts:
                            _kill(env, te.id)
                            defs_at.pop(te.id, None)
                        env.pop(v.id, None)
                        changed = True
                        continue
            if isinstance(t, ast.Name):
                val = _classify(v, env)
                _learn_nonnull(env, _dereferenced(v) - {t.id})
                if val is None and isinstance(v, (ast.BinOp, ast.JoinedStr, ast.Compare)) :
                    val = ("nonnull",)  # arithmetic / comparison / f-string results are never None
                _kill(env, t.id)
                if val is not None:
                    env[t.id] = val
                    defs_at[t.id] = len(out)
                else:
                    defs_at.pop(t.id, None)
                out.append(ev)
                continue
        for n in assigned_names(s):
            _kill(env, n)
            defs_at.pop(n, None)
        if not isinstance(s, (ast.FunctionDef, ast.AsyncFunctionDef, ast.ClassDef)):
            _learn_nonnull(env, _dereferenced(s) - assigned_names(s))
        out.append(ev)
    return out if changed else events


def _adopt(new: ast.AST, orig: ast.AST) -> None:
    new._orig = orig  # type: ignore[attr-defined]
    par = getattr(orig, "parent", None)
    for n in ast.walk(new):
        for c in ast.iter_child_nodes(n):
            c.parent = n  # type: ignore[attr-defined]
    new.parent = par  # type: ignore[attr-defined]


def _names_of_event(ev: tuple) -> set:
    if ev[0] in ("stmt", "cond"):
        return names_in(ev[1])
    if ev[0] == "iter":
        return names_in(ev[1].iter)
    if ev[0] == "loop":
        return names_in(ev[1])
    if ev[0] == "with":
        return set().union(*[names_in(i.context_expr) for i in ev[1].items]) if ev[1].items else set()
    return set()
