"""Role binding for helpers.match_on_tokens (shared by C01, C03, C17): the
text accumulator, the current token, the index range -- bound from structure
so that renaming locals does not matter."""
from __future__ import annotations

import ast
from typing import Dict, Optional

from .core import dotted, norm, stmts_local, walk_local


def bind(fn: ast.FunctionDef) -> Dict[str, Optional[str]]:
    ps = [a.arg for a in fn.args.args]
    r: Dict[str, Optional[str]] = {"words": ps[0] if ps else None, "start_index": ps[1] if len(ps) > 1 else None,
                                   "regex": ps[2] if len(ps) > 2 else None, "text": None, "token": None, "indexes": None, "index": None,
                                   "prefix": "prefix" if "prefix" in ps else None, "strings_only": "strings_only" if "strings_only" in ps else None,
                                   "forward": "forward" if "forward" in ps else None}
    calls = [n for n in walk_local(fn) if isinstance(n, ast.Call) and dotted(n.func) in ("re.search", "re.match")]
    if len(calls) == 1 and len(calls[0].args) >= 2 and isinstance(calls[0].args[1], ast.Name):
        r["text"] = calls[0].args[1].id
        if isinstance(calls[0].args[0], ast.Name):
            r["regex"] = calls[0].args[0].id  # the (anchored) pattern actually searched: the parameter itself or a local derived from it
    for s in stmts_local(fn.body):
        if isinstance(s, ast.Assign) and isinstance(s.targets[0], ast.Name) and isinstance(s.value, ast.Subscript) and norm(s.value.value) == r["words"] \
                and isinstance(s.value.slice, ast.Name):
            r["token"], r["index"] = s.targets[0].id, s.value.slice.id
    for n in walk_local(fn):
        if isinstance(n, ast.For) and isinstance(n.target, ast.Name) and n.target.id == r["index"] and isinstance(n.iter, ast.Name):
            r["indexes"] = n.iter.id
    return r
