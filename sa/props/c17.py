"""C17 -- Extracted metadata is text taken from the citation's own extent
(DESIGN 2/C17): provenance of every textual metadata value, extent pairing,
and the defined-common-start rule for copies between citations."""
from __future__ import annotations

import ast
from typing import Dict, List, Optional, Set, Tuple

from ..core import Ctx, Locals, assigned_names, dotted, names_in, norm, stmts_local, walk_local
from ..paths import enumerate_paths, guards_of
from ..typed import Typed, eyecite_class, is_optional

TEXTUAL = {"pin_cite", "year", "plaintiff", "defendant", "antecedent_guess", "extra", "publisher", "month", "day", "volume", "parenthetical",
           "resolved_case_name", "resolved_case_name_short"}
NON_TEXTUAL = {"court", "pin_cite_span_start", "pin_cite_span_end"}
STRIPPERS = {"strip", "rstrip", "lstrip"}


class Prov:
    """SRC = text taken from the tokens next to the citation (or the citation
    token itself); NONE; OTHER."""

    def __init__(self, ctx: Ctx, typed: Typed, mod, fn: ast.FunctionDef, summaries: Dict[str, List[str]]):
        self.ctx, self.typed, self.mod, self.fn, self.summaries = ctx, typed, mod, fn, summaries
        self.params = [a.arg for a in fn.args.args]
        self.match: Set[str] = set()
        self.src: Set[str] = set()
        self.none_ok: Set[str] = set()
        self.other: Dict[str, str] = {}
        self._solve()

    def _is_match_call(self, v: ast.AST) -> bool:
        if not isinstance(v, ast.Call):
            return False
        f = dotted(v.func) or ""
        if f == "match_on_tokens":
            return True
        if f in ("re.search", "re.match", "re.fullmatch", "regex.search", "regex.match") and len(v.args) >= 2:
            return self.kind(v.args[1]) == "SRC"
        return False

    def _solve(self):
        for _ in range(6):
            before = (len(self.match), len(self.src), len(self.none_ok))
            for n in walk_local(self.fn):
                binds = []
                if isinstance(n, ast.Assign):
                    binds = [(t, n.value) for t in n.targets]
                elif isinstance(n, ast.AnnAssign) and n.value is not None:
                    binds = [(n.target, n.value)]
                elif isinstance(n, ast.NamedExpr):
                    binds = [(n.target, n.value)]
                elif isinstance(n, (ast.For, ast.comprehension)):
                    it = n.iter
                    if isinstance(it, ast.Call) and isinstance(it.func, ast.Attribute) and it.func.attr == "finditer":
                        # re.compile(P).finditer(TEXT) / re.finditer(P, TEXT)
                        recv_ = dotted(it.func.value)
                        local_names = {x.id for x in walk_local(self.fn) if isinstance(x, ast.Name) and isinstance(x.ctx, ast.Store)} | {
                            a.arg for a in self.fn.args.args + self.fn.args.kwonlyargs}
                        is_module = recv_ in ("re", "regex") and recv_ not in local_names  # a local called `regex` is a compiled pattern
                        txt = it.args[0] if not is_module and it.args else (it.args[1] if len(it.args) > 1 else None)
                        if txt is not None and self.kind(txt) == "SRC" and isinstance(n.target, ast.Name):
                            self.match.add(n.target.id)
                    continue
                for t, v in binds:
                    if isinstance(t, ast.Name):
                        if self._is_match_call(v):
                            self.match.add(t.id)
                        else:
                            k = self.kind(v)
                            if k == "SRC":
                                self.src.add(t.id)
                            elif k == "NONE":
                                self.none_ok.add(t.id)
                            else:
                                self.other[t.id] = k
                    elif isinstance(t, (ast.Tuple, ast.List)):
                        ks = self.tuple_kinds(v, len(t.elts))
                        for el, k in zip(t.elts, ks):
                            if isinstance(el, ast.Name):
                                if k == "SRC":
                                    self.src.add(el.id)
                                elif k == "NONE":
                                    self.none_ok.add(el.id)
                                elif k == "NUM":
                                    pass
                                else:
                                    self.other[el.id] = k
            if (len(self.match), len(self.src), len(self.none_ok)) == before:
                break

    def _ranges_over_words(self, name: str) -> bool:
        """the name is bound to elements of the `words` token list (loop / comprehension variable over words[..], or words[i])"""
        for n in walk_local(self.fn):
            if isinstance(n, (ast.For, ast.comprehension)) and isinstance(n.target, ast.Name) and n.target.id == name:
                base = n.iter.value if isinstance(n.iter, ast.Subscript) else n.iter
                if isinstance(base, ast.Name) and base.id == "words":
                    return True
            if isinstance(n, ast.Assign) and any(isinstance(t, ast.Name) and t.id == name for t in n.targets) and isinstance(n.value, ast.Subscript) \
                    and isinstance(n.value.value, ast.Name) and n.value.value.id == "words":
                return True
        return False

    def tuple_kinds(self, v: ast.AST, n: int) -> List[str]:
        if isinstance(v, ast.Call) and isinstance(v.func, ast.Attribute) and v.func.attr == "groups" and isinstance(v.func.value, ast.Name) \
                and v.func.value.id in self.match:
            return ["SRC"] * n
        if isinstance(v, ast.Call) and isinstance(v.func, ast.Attribute) and v.func.attr == "span":
            return ["NUM"] * n
        if isinstance(v, ast.Call) and isinstance(v.func, ast.Name) and v.func.id in self.summaries:
            s = self.summaries[v.func.id]
            return s if len(s) == n else ["OTHER:arity"] * n
        if isinstance(v, ast.Tuple) and len(v.elts) == n:
            return [self.kind(e) for e in v.elts]
        return [f"OTHER:unpack({norm(v)[:40]})"] * n

    def kind(self, e: Optional[ast.AST]) -> str:
        if e is None:
            return "NONE"
        if isinstance(e, ast.Constant):
            if e.value is None or e.value == "":
                return "NONE"
            return f"OTHER:constant {e.value!r}"
        if isinstance(e, ast.Name):
            if e.id in self.src:
                return "SRC"
            if e.id in self.other and e.id not in self.src:
                return self.other[e.id]
            if e.id in self.none_ok:
                return "NONE"
            if e.id in self.params:
                a = next(x for x in self.fn.args.args if x.arg == e.id)
                ann = norm(a.annotation) if a.annotation is not None else ""
                if e.id in ("prefix",) or "str" in ann:
                    return "SRC"  # a text parameter: checked at the call sites (prefix = token group)
            return f"OTHER:name {e.id}"
        if isinstance(e, ast.Attribute) and e.attr in ("plain_text", "markup_text"):
            t = eyecite_class(self.typed.type_of(self.mod, e.value))
            if t == "Document":
                return "SRC"  # the input document itself
        if isinstance(e, ast.Subscript):
            if isinstance(e.value, ast.Name) and e.value.id in self.match:
                return "SRC"
            if isinstance(e.slice, ast.Slice):
                return self.kind(e.value)
            # token.groups["page"]: text captured from the citation token itself
            if isinstance(e.value, ast.Attribute) and e.value.attr == "groups":
                t = eyecite_class(self.typed.type_of(self.mod, e.value.value))
                if t and self.ctx.repo.is_subclass(t, "Token"):
                    return "SRC"
            if isinstance(e.value, ast.Name) and e.value.id in ("words",) and not isinstance(e.slice, ast.Slice):
                return "SRC"
            return f"OTHER:subscript {norm(e)[:40]}"
        if isinstance(e, ast.Call):
            f = dotted(e.func) or ""
            if isinstance(e.func, ast.Attribute) and e.func.attr in STRIPPERS:
                return self.kind(e.func.value)
            if isinstance(e.func, ast.Attribute) and e.func.attr == "group" and isinstance(e.func.value, ast.Name) and e.func.value.id in self.match:
                return "SRC"
            if isinstance(e.func, ast.Attribute) and e.func.attr == "join" and isinstance(e.func.value, ast.Constant) and e.func.value.value == "" and e.args:
                a = e.args[0]
                if isinstance(a, (ast.GeneratorExp, ast.ListComp)) and len(a.generators) == 1:
                    g = a.generators[0]
                    v = norm(g.target)
                    itv = g.iter
                    base = itv.value if isinstance(itv, ast.Subscript) else itv
                    if norm(a.elt) in (f"str({v})", v) and isinstance(base, ast.Name) and base.id == "words":
                        return "SRC"
                if isinstance(a, ast.Call) and dotted(a.func) == "map" and len(a.args) == 2 and norm(a.args[0]) == "str":
                    itv = a.args[1]
                    base = itv.value if isinstance(itv, ast.Subscript) else itv
                    if isinstance(base, ast.Name) and base.id == "words":
                        return "SRC"
                return f"OTHER:join {norm(e)[:40]}"
            if f == "str" and len(e.args) == 1:
                if isinstance(e.args[0], ast.Name) and self._ranges_over_words(e.args[0].id):
                    return "SRC"
                return self.kind(e.args[0])
            if f in self.summaries and len(self.summaries[f]) == 1:
                k = self.summaries[f][0]
                if k == "SAME":
                    return self.kind(e.args[0]) if e.args else "NONE"
                return k
            return f"OTHER:call {norm(e)[:40]}"
        if isinstance(e, ast.BoolOp):
            ks = [self.kind(v) for v in e.values]
            bad = [k for k in ks if k.startswith("OTHER")]
            if bad:
                return bad[0]
            return "SRC" if "SRC" in ks else "NONE"
        if isinstance(e, ast.IfExp):
            ks = [self.kind(e.body), self.kind(e.orelse)]
            bad = [k for k in ks if k.startswith("OTHER")]
            if bad:
                return bad[0]
            return "SRC" if "SRC" in ks else "NONE"
        if isinstance(e, ast.NamedExpr):
            return self.kind(e.value)
        return f"OTHER:{type(e).__name__} {norm(e)[:40]}"


def summary_same_or_prefix(ctx: Ctx, typed: Typed, qual: str) -> bool:
    """every return of the function is its (first) parameter, a strip/slice of
    it, or None -- i.e. a substring of the argument."""
    fn = ctx.repo.need_func(qual)
    P = fn.args.args[0].arg
    ok = True
    for r in [n for n in walk_local(fn) if isinstance(n, ast.Return)]:
        v = r.value
        parts = v.values if isinstance(v, ast.BoolOp) else [v]
        for x in parts:
            if x is None or (isinstance(x, ast.Constant) and x.value is None):
                continue
            base = x
            while True:
                if isinstance(base, ast.Subscript) and isinstance(base.slice, ast.Slice):
                    base = base.value
                elif isinstance(base, ast.Call) and isinstance(base.func, ast.Attribute) and base.func.attr in STRIPPERS:
                    base = base.func.value
                else:
                    break
            if not (isinstance(base, ast.Name) and base.id == P):
                ok = False
    if any(P in assigned_names(s) for s in stmts_local(fn.body)):
        ok = False
    return ok


def _contained_names(fn, ctor: ast.Call, v: ast.AST) -> bool:
    """metadata = {key: E for key, found in m.groupdict().items() if found is not None and E in P} where P holds (a local bound once to)
    `<doc>.plain_text[a:b]` and the citation / its token are constructed with exactly those offsets: every value is a substring of the text at the
    citation's own span, whatever E is"""
    if isinstance(v, ast.Name):
        ds = [x.value for x in stmts_local(fn.body) if isinstance(x, ast.Assign) and len(x.targets) == 1 and norm(x.targets[0]) == v.id]
        if len(ds) != 1:
            return False
        v = ds[0]
    if not (isinstance(v, ast.DictComp) and len(v.generators) == 1):
        return False
    E = norm(v.value)
    P = None
    for c in v.generators[0].ifs:
        for a in (c.values if isinstance(c, ast.BoolOp) and isinstance(c.op, ast.And) else [c]):
            if isinstance(a, ast.Compare) and len(a.ops) == 1 and isinstance(a.ops[0], ast.In) and norm(a.left) == E:
                P = a.comparators[0]
    if P is None:
        return False
    if isinstance(P, ast.Name):
        ds = [x.value for x in stmts_local(fn.body) if isinstance(x, ast.Assign) and len(x.targets) == 1 and norm(x.targets[0]) == P.id]
        if len(ds) != 1:
            return False
        P = ds[0]
    if not (isinstance(P, ast.Subscript) and norm(P.value).endswith(".plain_text") and isinstance(P.slice, ast.Slice) and P.slice.lower is not None and P.slice.upper is not None):
        return False
    lo, hi = norm(P.slice.lower), norm(P.slice.upper)
    # the same offsets are the citation's span (directly, or via the token built in the same call)
    texts = {norm(k.value) for c2 in ast.walk(ctor) if isinstance(c2, ast.Call) for k in c2.keywords if k.arg in ("start", "end", "span_start", "span_end", "full_span_start", "full_span_end")}
    return lo in texts and hi in texts


def rule_provenance(ctx: Ctx, typed: Typed):
    repo = ctx.repo
    hm, fm = repo.mod("helpers"), repo.mod("find")
    summaries: Dict[str, List[str]] = {}
    for name in ("clean_pin_cite", "process_parenthetical"):
        ok = summary_same_or_prefix(ctx, typed, f"helpers.{name}")
        ctx.ob("R-C17-1", f"helpers.{name}/returns-substring-of-argument", ok,
               "every return is the argument, a strip()/slice of it, or None", node=repo.need_func(f"helpers.{name}"), mod=hm)
        if ok:
            summaries[name] = ["SAME"]
    # match_on_tokens: the matched text is assembled only from prefix + str(token) of words
    mot = repo.need_func("helpers.match_on_tokens")
    TXT = None
    for r in [n for n in walk_local(mot) if isinstance(n, ast.Return)]:
        pass
    okm, why = True, ""
    calls = [n for n in walk_local(mot) if isinstance(n, ast.Call) and dotted(n.func) in ("re.search", "re.match")]
    if len(calls) != 1 or len(calls[0].args) < 2 or not isinstance(calls[0].args[1], ast.Name):
        okm, why = False, "no single re.search(regex, text)"
    else:
        from ..motroles import bind as bind_mot

        R = bind_mot(mot)
        TXT, TOK = R["text"], R["token"]
        for s in stmts_local(mot.body):
            if isinstance(s, (ast.Assign, ast.AugAssign)) and TXT in assigned_names(s):
                v = s.value
                t = norm(v)
                good = (
                    (isinstance(s, ast.Assign) and t == "prefix")
                    or (isinstance(s, ast.AugAssign) and isinstance(s.op, ast.Add) and t == f"str({TOK})")
                    or (isinstance(s, ast.Assign) and t == f"str({TOK}) + {TXT}")
                    or (isinstance(s, ast.Assign) and isinstance(v, ast.Subscript) and norm(v.value) == TXT and isinstance(v.slice, ast.Slice))
                )
                if not good:
                    okm, why = False, f"text modified by `{norm(s)[:60]}`"
        if TOK is None or R["indexes"] is None:
            okm, why = False, "the current token is not words[<index of the scan range>]"
    ctx.ob("R-C17-1", "helpers.match_on_tokens/text-from-adjacent-tokens", okm,
           "the text matched is prefix + str(words[i]) over a contiguous index range next to the citation, possibly truncated" if okm else why,
           node=mot, mod=hm)
    # the contiguous range starts at start_index and stops at the first stop token
    # extract_pin_cite summary (computed with the same grammar)
    epc = repo.need_func("helpers.extract_pin_cite")
    pv = Prov(ctx, typed, hm, epc, summaries)
    kinds = None
    okk = True
    for r in [n for n in walk_local(epc) if isinstance(n, ast.Return)]:
        if not (isinstance(r.value, ast.Tuple) and len(r.value.elts) == 3):
            okk = False
            continue
        ks = [pv.kind(r.value.elts[0]), "NUM", pv.kind(r.value.elts[2])]
        if any(k.startswith("OTHER") for k in (ks[0], ks[2])):
            okk = False
            ctx.ob("R-C17-1", "helpers.extract_pin_cite/return", False, f"returned pin cite / parenthetical is not text of the match: {ks}", node=r, mod=hm)
        kinds = ["SRC" if "SRC" in (ks[0],) else ks[0], "NUM", ks[2]]
    ctx.ob("R-C17-1", "helpers.extract_pin_cite/summary", okk and kinds is not None,
           "returns (pin cite text | None, end offset, parenthetical text | None) taken from the match after the citation", node=epc, mod=hm)
    if okk and kinds:
        summaries["extract_pin_cite"] = ["SRC", "NUM", "SRC"]
    # every textual metadata store in helpers / find / models
    n_stores = 0
    for qual, mod, fn in repo.all_funcs():
        if mod.name not in ("helpers", "find", "models"):
            continue
        pv = None
        for n in walk_local(fn):
            # X.metadata.F = rhs
            if isinstance(n, ast.Assign):
                for t in n.targets:
                    if isinstance(t, ast.Attribute) and isinstance(t.value, ast.Attribute) and t.value.attr == "metadata":
                        f = t.attr
                        if f in NON_TEXTUAL:
                            continue
                        if qual.endswith(".is_parallel_citation") or qual.endswith(".guess_court"):
                            continue  # R-C17-3 / non-textual
                        pv = pv or Prov(ctx, typed, mod, fn, summaries)
                        val = n.value
                        # `new or <the field's own previous value>`: the previous value was stored under this same rule
                        if isinstance(val, ast.BoolOp) and isinstance(val.op, ast.Or) and norm(val.values[-1]) == norm(t) and len(val.values) >= 2:
                            val = val.values[0] if len(val.values) == 2 else ast.BoolOp(op=ast.Or(), values=val.values[:-1])
                        k = pv.kind(val)
                        n_stores += 1
                        ctx.ob("R-C17-1", f"{qual}/metadata.{f}", not k.startswith("OTHER") and f in TEXTUAL,
                               f"stored value `{norm(n.value)[:60]}` must be text of the match next to the citation (or None): {k}", node=n, mod=mod)
            # Citation(..., metadata={...}) / metadata=m.groupdict()
            if isinstance(n, ast.Call):
                for kw in n.keywords:
                    if kw.arg != "metadata":
                        continue
                    if qual == "helpers.<module>":
                        continue
                    pv = pv or Prov(ctx, typed, mod, fn, summaries)
                    if isinstance(kw.value, ast.Dict):
                        for kk, vv in zip(kw.value.keys, kw.value.values):
                            if kk is None:
                                # {**other, ...}: the splatted mapping is text of the same match only if it is that match's groupdict()
                                okg = isinstance(vv, ast.Call) and isinstance(vv.func, ast.Attribute) and vv.func.attr == "groupdict" \
                                    and isinstance(vv.func.value, ast.Name) and vv.func.value.id in pv.match
                                n_stores += 1
                                ctx.ob("R-C17-1", f"{qual}/metadata[**{norm(vv)[:30]}]", okg,
                                       f"`**{norm(vv)[:40]}` merged into the metadata must be the groupdict of a match over the text next to the citation", node=vv, mod=mod)
                                continue
                            f = kk.value if isinstance(kk, ast.Constant) else norm(kk)
                            if f in NON_TEXTUAL:
                                continue
                            k = pv.kind(vv)
                            n_stores += 1
                            ctx.ob("R-C17-1", f"{qual}/metadata[{f}]", not k.startswith("OTHER") and f in TEXTUAL,
                                   f"metadata value `{norm(vv)[:60]}` must be text next to the citation (or None): {k}", node=vv, mod=mod)
                    elif isinstance(kw.value, ast.Call) and isinstance(kw.value.func, ast.Attribute) and kw.value.func.attr == "groupdict" \
                            and isinstance(kw.value.func.value, ast.Name) and kw.value.func.value.id in pv.match:
                        n_stores += 1
                        ctx.ob("R-C17-1", f"{qual}/metadata=groupdict", True, "all values are groups of a match over the document text after the citation",
                               node=kw.value, mod=mod)
                    elif _contained_names(fn, n, kw.value):
                        n_stores += 1
                        ctx.ob("R-C17-1", f"{qual}/metadata=names-found-in-own-span", True,
                               "each value is kept only under `value in <the plain text at the citation's own span>`: a substring of the citation's extent by its guard",
                               node=kw.value, mod=mod)
                    else:
                        n_stores += 1
                        ctx.ob("R-C17-1", f"{qual}/metadata=?", False, f"metadata built from `{norm(kw.value)[:60]}`", node=kw.value, mod=mod)
    ctx.extra["textual_metadata_stores"] = n_stores
    # census: a textual field written through a form the loop above does not follow (an alias of <x>.metadata, a tuple target) would escape the
    # provenance rule altogether -- e.g. `metadata = citation.metadata; metadata.plaintiff, metadata.defendant = table[citation]`
    for qual, mod, fn in repo.all_funcs():
        if mod.name not in ("helpers", "find", "models", "resolve", "utils"):
            continue
        if qual.endswith(".is_parallel_citation") or qual.endswith(".guess_court"):
            continue
        aliases = {nm for s_ in walk_local(fn) if isinstance(s_, (ast.Assign, ast.AnnAssign)) and s_.value is not None
                   and isinstance(s_.value, ast.Attribute) and s_.value.attr == "metadata" for nm in assigned_names(s_)}
        for n in walk_local(fn):
            tgts = n.targets if isinstance(n, ast.Assign) else [n.target] if isinstance(n, (ast.AugAssign, ast.AnnAssign)) else []
            for t in tgts:
                direct = isinstance(t, ast.Attribute)
                for a in ast.walk(t):
                    if not (isinstance(a, ast.Attribute) and isinstance(a.ctx, ast.Store) and a.attr in TEXTUAL):
                        continue
                    via_alias = isinstance(a.value, ast.Name) and a.value.id in aliases
                    via_md = isinstance(a.value, ast.Attribute) and a.value.attr == "metadata"
                    if via_alias or (via_md and not (direct and a is t and isinstance(n, ast.Assign))):
                        ctx.ob("R-C17-1", f"{qual}/metadata.{a.attr}:unfollowed-store", False,
                               f"`{norm(n)[:70]}` writes a textual metadata field through an alias or a tuple target: the value's origin is not established "
                               "(it must be text of the match next to this citation, or None)", node=n, mod=mod)
    # call sites passing a text prefix to match_on_tokens / extract_pin_cite
    for qual, mod, fn in repo.all_funcs():
        for n in walk_local(fn):
            if isinstance(n, ast.Call) and dotted(n.func) in ("extract_pin_cite", "match_on_tokens"):
                for kw in n.keywords:
                    if kw.arg == "prefix":
                        pv = Prov(ctx, typed, mod, fn, summaries)
                        k = pv.kind(kw.value)
                        ctx.ob("R-C17-1", f"{qual}/prefix-argument", k in ("SRC", "NONE"),
                               f"the prefix prepended to the scanned text must itself be text of the citation token: `{norm(kw.value)}` is {k}", node=n, mod=mod)


def rule_extent_pairing(ctx: Ctx):
    repo = ctx.repo
    hm = repo.mod("helpers")
    specs = [("helpers.add_post_citation", "forward"), ("helpers.add_law_metadata", "forward"), ("helpers.add_journal_metadata", "forward"),
             ("helpers.add_pre_citation", "backward")]
    for qual, direction in specs:
        fn = repo.need_func(qual)
        C = fn.args.args[0].arg
        M = None
        for s in stmts_local(fn.body):
            if isinstance(s, ast.Assign) and isinstance(s.value, ast.Call) and dotted(s.value.func) == "match_on_tokens":
                M = s.targets[0].id
                is_back = any(k.arg == "forward" and isinstance(k.value, ast.Constant) and k.value.value is False for k in s.value.keywords)
                if is_back != (direction == "backward"):
                    ctx.ob("R-C17-2", f"{qual}/direction", False, f"expected a {direction} scan", node=s, mod=hm)
        if M is None:
            ctx.ob("R-C17-2", f"{qual}/match", False, "match_on_tokens call not found", node=fn, mod=hm)
            continue
        ok, n, why = True, 0, ""
        LOCS = Locals(fn)
        for p in enumerate_paths(fn.body):
            stores_meta = False
            ext = False
            for ev in p.events:
                if ev[0] != "stmt" or not isinstance(ev[1], ast.Assign):
                    continue
                s = ev[1]
                t = norm(s.targets[0])
                vx = LOCS.expand(s.value, s, stop={M})
                if t.startswith(f"{C}.metadata.") and M in names_in(vx):
                    stores_meta = True
                if direction == "forward" and t == f"{C}.full_span_end" and norm(vx) in (f"{C}.span()[1] + {M}.end()", f"{C}.span()[-1] + {M}.end()"):
                    ext = True
                if direction == "backward" and t == f"{C}.full_span_start" and norm(vx).startswith(f"{C}.span()[0] - "):
                    ext = True
            if stores_meta:
                n += 1
                if not ext:
                    ok, why = False, "a path stores groups of the match into metadata without extending the full span over the same match"
        ctx.ob("R-C17-2", f"{qual}/extent-covers-match", ok and n > 0,
               (f"on all {n} path(s) that store groups of the {direction} match, the full span is extended over that match "
                f"({'span()[1] + m.end()' if direction == 'forward' else 'span()[0] - len(match)'})") if ok else why, node=fn, mod=hm)
        if direction == "forward":
            # the only later change of full_span_end is a reduction by a non-negative amount
            later = [s for s in stmts_local(fn.body) if isinstance(s, ast.Assign) and norm(s.targets[0]) == f"{C}.full_span_end"
                     and LOCS.text(s.value, s, stop={M}) not in (f"{C}.span()[1] + {M}.end()", f"{C}.span()[-1] + {M}.end()")]
            good = all(norm(s.value).startswith(f"{C}.full_span_end - ") for s in later)
            ctx.ob("R-C17-2", f"{qual}/extent-only-trimmed", good, f"later adjustments only trim the end ({[norm(s)[:50] for s in later]})",
                   node=later[0] if later else fn, mod=hm, nontrivial=bool(later))
    # the same pairing for every other function that stores groups of a token scan into metadata (a scan added later for a short form, say):
    # text taken from beyond the citation's recorded extent is text of whatever follows
    spec_quals = {q_ for q_, _d in specs}
    for qual, mod, fn in repo.all_funcs():
        if mod.name not in ("helpers", "find") or qual in spec_quals:
            continue
        scans = [s for s in stmts_local(fn.body) if isinstance(s, ast.Assign) and isinstance(s.value, ast.Call) and dotted(s.value.func) == "match_on_tokens"
                 and len(s.targets) == 1 and isinstance(s.targets[0], ast.Name)]
        if not scans:
            continue
        LOCS = Locals(fn)
        for sc in scans:
            M = sc.targets[0].id
            bad = None
            n = 0
            for p in enumerate_paths(fn.body):
                evs = [ev for ev in p.events if ev[0] == "stmt"]
                if not any(ev[1] is sc for ev in evs):
                    continue
                after = False
                meta = ext = None
                for ev in evs:
                    s_ = ev[1]
                    if s_ is sc:
                        after = True
                        continue
                    if after and isinstance(s_, ast.Assign) and M in assigned_names(s_):
                        break  # the name now holds another match
                    if not after or not isinstance(s_, ast.Assign) or not isinstance(s_.targets[0], ast.Attribute):
                        continue
                    t = norm(s_.targets[0])
                    uses_m = M in names_in(LOCS.expand(s_.value, s_, stop={M}))
                    if ".metadata." in t and uses_m:
                        meta = s_
                    if t.split(".")[-1] in ("full_span_end", "full_span_start", "span_end") and uses_m:
                        ext = s_
                if meta is not None:
                    n += 1
                    if ext is None:
                        bad = meta
            if n:
                ctx.ob("R-C17-2", f"{qual}/{M}:extent-covers-match", bad is None,
                       f"groups of the token scan `{norm(sc.value)[:60]}` are stored into metadata on {n} path(s); the citation's extent must be extended over the "
                       "same match on each of them, otherwise the value is text from outside the citation", node=bad or sc, mod=mod)
    # party scan: names and start are stored together
    fn = repo.need_func("helpers.add_defendant")
    C = fn.args.args[0].arg
    ok, n = True, 0
    IDX = next((n.target.id for n in walk_local(fn) if isinstance(n, ast.For) and isinstance(n.target, ast.Name) and isinstance(n.iter, ast.Call)
                and dotted(n.iter.func) == "range"), None)
    for p in enumerate_paths(fn.body):
        names = start = False
        positive: set = set()  # names known to be >= 1 (assigned `<loop index> + 1`)
        infeasible = False
        for ev in p.events:
            if ev[0] == "stmt" and isinstance(ev[1], ast.Assign):
                t = norm(ev[1].targets[0])
                if t in (f"{C}.metadata.plaintiff", f"{C}.metadata.defendant"):
                    names = True
                if t == f"{C}.full_span_start":
                    start = True
                v = ev[1].value
                if isinstance(ev[1].targets[0], ast.Name):
                    if isinstance(v, ast.BinOp) and isinstance(v.op, ast.Add) and isinstance(v.right, ast.Constant) and v.right.value == 1 \
                            and isinstance(v.left, ast.Name) and v.left.id == IDX:
                        positive.add(ev[1].targets[0].id)
                    else:
                        positive.discard(ev[1].targets[0].id)
            if ev[0] == "cond" and isinstance(ev[1], ast.Name) and ev[1].id in positive and not ev[2]:
                infeasible = True  # index ranges over range(.., -1, -1): index + 1 >= 1 is truthy
        if infeasible:
            continue
        if names:
            n += 1
            if not start and p.exit != "raise":
                ok = False
    ctx.ob("R-C17-2", "helpers.add_defendant/names-with-start", ok and n > 0,
           f"every path that stores a party name also stores the full-span start computed by the same backward scan ({n} paths)", node=fn, mod=hm)


def rule_extent_writers(ctx: Ctx):
    """the full span is the extent the metadata was read from: it may be set only where metadata is read (the add_* helpers) or at construction"""
    repo = ctx.repo
    # each end of the full span belongs to the scan on that side: the forward scans (which also store year, court, extra, parenthetical from the same
    # match) own the end, the backward scans (party names, antecedent) own the start.  A backward scan that pulls the *end* in leaves what the
    # forward scan stored outside the span
    owners = {"full_span_end": {"helpers.add_post_citation", "helpers.add_law_metadata", "helpers.add_journal_metadata"},
              "full_span_start": {"helpers.add_defendant", "helpers.add_pre_citation"}}
    n = 0
    for qual, mod, fn in repo.all_funcs():
        for x in walk_local(fn):
            if isinstance(x, ast.Attribute) and isinstance(x.ctx, ast.Store) and x.attr in ("full_span_start", "full_span_end"):
                n += 1
                allowed = owners[x.attr]
                ctx.ob("R-C17-2", f"{qual}/writes:{x.attr}", qual in allowed,
                       "the full span is moved after the metadata was read: values already stored (year, extra, parenthetical, parties) may then lie outside it",
                       node=x, mod=mod, nontrivial=qual not in allowed)
    ctx.extra["extent_field_stores"] = n


def rule_parallel_copy(ctx: Ctx, typed: Typed):
    repo = ctx.repo
    mm, fm = repo.mod("models"), repo.mod("find")
    fn = repo.need_func("models.FullCaseCitation.is_parallel_citation")
    S, P = fn.args.args[0].arg, fn.args.args[1].arg
    copies = [s for s in stmts_local(fn.body) if isinstance(s, ast.Assign) and P in names_in(s.value) and norm(s.targets[0]).startswith(S + ".")]
    ctx.ob("R-C17-3", "models.FullCaseCitation.is_parallel_citation/copies", len(copies) >= 2, f"{len(copies)} cross-citation copies located", node=fn, mod=mm,
           nontrivial=False)
    paths = enumerate_paths(fn.body)
    for s in copies:
        guards, n = guards_of(paths, s)
        texts = [(norm(c), o) for c, o in guards]
        eqs = [(c, o) for c, o in guards if isinstance(c, ast.Compare) and len(c.ops) == 1 and isinstance(c.ops[0], ast.Eq) and o]
        same_start = False
        defined = False
        for c, o in eqs:
            a, b = c.left, c.comparators[0]
            ta, tb = norm(a), norm(b)
            if {ta, tb} == {f"{S}.full_span_start", f"{P}.full_span_start"}:
                same_start = True
                # defined: a dominating `is not None` on one side (equality then forces the other)
                if any(t in ((f"{S}.full_span_start is not None", True), (f"{P}.full_span_start is not None", True), (f"{S}.full_span_start is None", False),
                             (f"{P}.full_span_start is None", False), (f"{S}.full_span_start", True), (f"{P}.full_span_start", True)) for t in texts):
                    defined = True
                if not (is_optional(typed.type_of(mm, a)) or is_optional(typed.type_of(mm, b))):
                    defined = True
            if {ta, tb} == {f"{S}.full_span()[0]", f"{P}.full_span()[0]"}:
                same_start = defined = True
        ctx.ob("R-C17-3", f"models.FullCaseCitation.is_parallel_citation/{norm(s.targets[0])}", same_start and defined and n > 0,
               "year and party names may be copied from the preceding citation only under the condition that both start at the same, "
               f"*defined* place (None == None is not a common start); controlling conditions on every path: {texts}", node=s, mod=mm)
    # called once, with the immediately preceding citation, both FullCaseCitation
    sites = []
    for qual, mod, f2 in repo.all_funcs():
        for n in walk_local(f2):
            if isinstance(n, ast.Call) and isinstance(n.func, ast.Attribute) and n.func.attr == "is_parallel_citation":
                sites.append((qual, mod, f2, n))
    ctx.ob("R-C17-3", "is_parallel_citation/call-sites", [s[0] for s in sites] == ["find.get_citations"], f"called from {[s[0] for s in sites]}",
           node=sites[0][3] if sites else fn, mod=fm, nontrivial=False)
    for qual, mod, f2, call in sites:
        arg = call.args[0] if call.args else None
        recv = norm(call.func.value)
        # the argument derives from <list>[-1]
        src = norm(arg) if arg is not None else "?"
        for s in stmts_local(f2.body):
            if isinstance(s, ast.Assign) and arg is not None and norm(s.targets[0]) == norm(arg):
                src = norm(s.value)
        loop = call
        while loop is not None and not isinstance(loop, ast.For):
            loop = getattr(loop, "parent", None)
        st = call
        while not isinstance(st, ast.stmt):
            st = st.parent
        guards, n = guards_of(enumerate_paths(loop.body), st) if loop is not None else ([], 0)
        texts = [norm(c) for c, o in guards if o]
        okg = any(t.startswith(f"isinstance({recv}, FullCaseCitation") for t in texts) and any("[-1], FullCaseCitation" in t for t in texts) and "[-1]" in src
        ctx.ob("R-C17-3", f"{qual}/parallel-candidate", okg,
               f"the candidate is the immediately preceding citation (`{src}`) and both are FullCaseCitation (guards {texts})", node=call, mod=mod)


def rule_metadata_is_passive(ctx: Ctx):
    """R-C17-5: the Metadata dataclasses hold what extraction stored, unchanged.  A __post_init__ / __setattr__ / property setter on a Metadata
    class rewrites values after the provenance rules have seen them stored (e.g. punctuation stripped from an antecedent: 'held--Adarand' becomes
    'heldAdarand', which is not text of the input)."""
    repo = ctx.repo
    mm = repo.mod("models")
    n = 0
    for cname, ci in repo.classes.items():
        for st in ci.node.body:
            if isinstance(st, ast.ClassDef) and st.name == "Metadata":
                n += 1
                hooks = [x.name for x in st.body if isinstance(x, ast.FunctionDef) and x.name in ("__post_init__", "__setattr__", "__init__", "__getattribute__", "__getattr__")]
                hooks += [x.name for x in st.body if isinstance(x, ast.FunctionDef) and any("setter" in norm(d) or norm(d) == "property" for d in x.decorator_list)]
                ctx.ob("R-C17-5", f"models.{cname}.Metadata/passive", not hooks,
                       f"the metadata record defines no hook that can rewrite a stored value ({hooks})", node=st, mod=mm, nontrivial=bool(hooks))
    ctx.ob("R-C17-5", "models/metadata-classes", n >= 5, f"{n} Metadata classes inspected", node=None, mod=mm, nontrivial=False)


def run(ctx: Ctx):
    ctx.level = "other"
    ctx.explanation = (
        "R-C17-1 provenance: every textual metadata value stored by helpers/find (attribute stores and metadata= dictionaries) is generated by "
        "SRC ::= m[g] | m.groups() element | ''.join(str(w) for w in words[a:b]) | token.groups[k] | None, closed under strip/slice/`or None`, "
        "clean_pin_cite and process_parenthetical (both verified to return a substring of their argument), where m is a match over text that "
        "match_on_tokens assembles only from prefix + str(words[i]) of tokens adjacent to the citation; R-C17-2 on every path that stores "
        "groups of a forward (backward) match the full-span end (start) is extended over the same match, and party names are stored together "
        "with the start from the same scan; R-C17-3 the copies in is_parallel_citation are controlled by equality of *defined* full-span "
        "starts and the call site passes the immediately preceding FullCaseCitation.  R-C17-4 width accounting of the backward party scan: on every path through an "
        "iteration the accumulated offset is the exact summed width of a contiguous run of scanned words (left-trimmed like the plaintiff), the "
        "plaintiff and defendant are trims of exactly those runs, and the start is stored from the unchanged sum.  NOT decided: character "
        "ranges produced by regex match positions (add_pre_citation / forward scans: value-level)."
    )
    ctx.trusted = ["the checker", "mypy Optional/receiver types", "regex group values are substrings of the searched text"]
    ctx.assumptions = ["court (a courts-db id) and the numeric span fields are not textual metadata"]
    typed = Typed.get(ctx.repo.root)
    ctx.guard(rule_provenance, ctx, typed)
    ctx.guard(rule_extent_pairing, ctx)
    ctx.guard(rule_extent_writers, ctx)
    ctx.guard(rule_parallel_copy, ctx, typed)
    from .c19 import rule_append_order
    from ..backscan import rule_backscan

    ctx.guard(rule_backscan, ctx, "R-C17-4", False)

    ctx.guard(rule_append_order, ctx, "R-C17-3")
    # the pin cite / parenthetical of short, supra and id. forms lie inside the full span only if the extent added for them starts where the
    # scanned text starts (shared with C02)
    from .c02 import rule_group_anchoring
    from .. import materialize

    ctx.guard(rule_group_anchoring, ctx, materialize.load(ctx.repo.root), "R-C17-5")
    ctx.guard(rule_metadata_is_passive, ctx)
    ctx.floor("R-C17-1", 25)
    ctx.floor("R-C17-2", 5)
    ctx.floor("R-C17-3", 5)
    ctx.floor("R-C17-4", 6)
