"""C11 -- 'skip' and 'wrap' keep well-formed markup well-formed (structural
part).  DESIGN 2/C11."""
from __future__ import annotations

import ast

from ..annot import AnnotateModel, _concat_parts
from ..core import Ctx, assigned_names, dotted, norm, stmts_local, walk_local
from ..paths import enumerate_paths
from .c09 import run_c09, shared_structure


def run_c11(ctx: Ctx, M: AnnotateModel):
    m, f = M.m, M.f
    q = "annotate.annotate_citations"
    if M.bind_errors:
        return
    T, OUT, CUR, S, E, SPAN = M.T, M.OUT, M.CUR, M.S, M.E, M.SPAN
    params = [a.arg for a in f.args.args + f.args.kwonlyargs]
    # the mode parameter: compared with the string constants
    MODE = None
    for n in walk_local(f):
        if isinstance(n, ast.Compare) and isinstance(n.left, ast.Name) and n.left.id in params and len(n.comparators) == 1 \
                and isinstance(n.comparators[0], ast.Constant) and n.comparators[0].value in ("skip", "wrap", "unchecked"):
            MODE = n.left.id
    if MODE is not None:
        reb = [x for x in walk_local(f) if isinstance(x, (ast.Assign, ast.AugAssign, ast.AnnAssign, ast.NamedExpr, ast.For, ast.With)) and MODE in assigned_names(x)]
        ctx.ob("C11-R1", f"{q}/{MODE}:callers-choice", not reb,
               f"the tag-handling mode is the caller's and is never reassigned ({[norm(x)[:50] for x in reb]}): a shortcut that downgrades it (e.g. to "
               "'unchecked' after a whole-batch test) switches the per-span check off for spans that need it", node=reb[0] if reb else f, mod=m)
    ctx.ob("C11-STRUCT", f"{q}/mode-parameter", MODE is not None, "tag-handling mode parameter located", node=f, mod=m, nontrivial=False)
    if MODE is None:
        return
    unchecked_t = f"{MODE} == 'unchecked'"
    wrap_t = f"{MODE} == 'wrap'"
    skip_t = f"{MODE} == 'skip'"

    def mode_of(rec):
        if rec.has(unchecked_t, True):
            return "unchecked"
        if rec.has(wrap_t, True):
            return "wrap"
        if rec.has(skip_t, True):
            return "skip"
        if rec.has(unchecked_t, False) and rec.has(wrap_t, False):
            return "skip"
        if rec.has(unchecked_t, False) and rec.has(skip_t, False):
            return "wrap"
        return "undetermined"

    # R-C11-1 skip: emission dominated by a successful balance test of the emitted text
    n_skip, bad = 0, []
    n_wrap, badw, n_wrapped = 0, [], 0
    for rec in M.paths:
        md = mode_of(rec)
        pieces = [e for e in rec.emits if e["kind"] == "piece"]
        if md == "undetermined" and rec.has(unchecked_t, False):
            # mode known to be checked, span balanced on first test: both modes emit as is
            for pc in pieces:
                n_skip += 1
                if pc["bal"] is not True:
                    bad.append((rec, f"checked mode emits `{SPAN}` without a successful balance test of its current value"))
            continue
        if md == "skip":
            for pc in pieces:
                n_skip += 1
                if pc["bal"] is not True:
                    bad.append((rec, f"skip mode emits `{SPAN}` without a successful balance test of its current value (last test: {pc['bal']})"))
        if md == "wrap":
            n_wrap += 1
            if not pieces or rec.exit not in ("fall", "continue"):
                if rec.exit == "continue" and not pieces and any(c == f"{S} >= {E}" and o for c, o in rec.conds):
                    pass  # fully covered span (overlap rule), not a tag decision
                else:
                    badw.append((rec, f"wrap mode drops the annotation (exit {rec.exit}, pieces {len(pieces)})"))
            for pc in pieces:
                if "wrap" in rec.trace:
                    n_wrapped += 1
                elif pc["bal"] is not True:
                    badw.append((rec, "wrap mode emits an unbalanced span unwrapped"))
    d = f"{n_skip} emission(s) on checked-mode paths, each after `is_balanced(span)` was true for the emitted value"
    if bad:
        d = f"{bad[0][1]}; on path [{bad[0][0].cond_str()[:300]}] ({len(bad)} fail)"
    ctx.ob("C11-R1", f"{q}/skip-emits-only-balanced", not bad and n_skip > 0, d,
           node=bad[0][0].emits[0]["node"] if bad and bad[0][0].emits else M.LOOP, mod=m)
    d = f"{n_wrap} wrap-mode path(s): none drops the annotation, {n_wrapped} pass through the wrap helper"
    if badw:
        d = f"{badw[0][1]}; on path [{badw[0][0].cond_str()[:300]}] ({len(badw)} fail)"
    ctx.ob("C11-R2", f"{q}/wrap-total", not badw and n_wrap > 0 and n_wrapped > 0, d, node=M.LOOP, mod=m)
    # wrap argument order: close before a tag, reopen after it
    call = getattr(M, "last_wrap_call", None)
    ok = False
    why = "wrap call not found"
    if call is not None and M.wrap_fn is not None:
        args = [norm(a) for a in call.args]
        ps = [a.arg for a in M.wrap_fn.args.args]
        order = None
        body = [s for s in M.wrap_fn.body if isinstance(s, ast.Return)]
        if body and isinstance(body[0].value, ast.Call) and len(body[0].value.args) == 3 and isinstance(body[0].value.args[1], ast.Lambda):
            parts = _concat_parts(body[0].value.args[1].body) or []
            order = [norm(p) for p in parts if isinstance(p, ast.Name)]
        ok = len(args) == 3 and len(ps) >= 3 and args[1] == M.AFTER and args[2] == M.BEFORE and order == [ps[1], ps[2]]
        why = f"call {args}, helper parameters {ps}, helper emits {order} around each tag"
    ctx.ob("C11-R2", f"{q}/wrap-argument-order", ok,
           f"the annotation must be closed (after) before each tag and reopened (before) after it: {why}", node=call or M.LOOP, mod=m)
    ctx.ob("C11-R2", "utils.wrap_html_tags/recognises-every-tag", M.wrap_cover[0],
           f"wrap mode closes and reopens the annotation around every tag only if the helper's pattern matches every tag token "
           f"(language inclusion L(</?[A-Za-z_:][^<>]*>) <= L(pattern), decided on the two automata): {M.wrap_cover[1]}", node=M.wrap_fn or f, mod=M.um if M.wrap_fn is not None else m)
    # R-C11-4 the balance oracle fails closed
    name = getattr(M, "balance_test_name", None)
    fn = ctx.repo.func(f"utils.{name}") if name else None
    ctx.ob("C11-R4", "utils.is_balanced_html/located", fn is not None, "balance oracle located", node=f, mod=m, nontrivial=False)
    if fn is None:
        return
    P = fn.args.args[0].arg
    paths = enumerate_paths(fn.body)
    okp, nT, why = True, 0, ""
    for p in paths:
        if p.exit != "return":
            okp, why = False, f"path exits by {p.exit}"
            continue
        rv = p.exit_node.value
        val = rv.value if isinstance(rv, ast.Constant) else None
        in_exc = any(ev[0] == "except" for ev in p.events)
        parsed = any(ev[0] == "stmt" and any(isinstance(n, ast.Call) and (dotted(n.func) or "").endswith("fromstring") for n in ast.walk(ev[1])) for ev in p.events)
        def absent(ch: str) -> bool:
            for ev in p.events:
                if ev[0] == "cond" and isinstance(ev[1], ast.Compare) and len(ev[1].ops) == 1 and isinstance(ev[1].left, ast.Constant) and ev[1].left.value == ch \
                        and norm(ev[1].comparators[0]) == P:
                    if (isinstance(ev[1].ops[0], ast.In) and not ev[2]) or (isinstance(ev[1].ops[0], ast.NotIn) and ev[2]):
                        return True
            return False

        noangle = absent("<") and absent(">")
        if val is True:
            nT += 1
            if in_exc or not (parsed or noangle):
                okp, why = False, "returns True without a completed parse (or from an exception handler)"
        elif val is False:
            pass
        else:
            okp, why = False, f"returns {norm(rv) if rv else None}"
    ctx.ob("C11-R4", f"utils.{fn.name}/fails-closed", okp and nT >= 1,
           "True only from the no-angle-bracket fast path or after the XML parse returned; handlers return False" if okp else why,
           node=fn, mod=M.um)
    # the verdict is the strict parser's: a recovering parser (recover=True, lxml.html, HTMLParser, a custom parser object) accepts malformed
    # input and reports it on the side, so "the parse returned" would no longer mean "well-formed"
    pcalls = [n for n in walk_local(fn) if isinstance(n, ast.Call) and (dotted(n.func) or "").endswith("fromstring")]
    lenient = [n for n in walk_local(fn) if isinstance(n, ast.Call) and ((dotted(n.func) or "").split(".")[-1] in ("XMLParser", "HTMLParser", "XMLPullParser", "HTMLPullParser")
                                                                          or any(k.arg == "recover" for k in n.keywords))]
    strict = bool(pcalls) and all((dotted(c.func) or "") in ("etree.fromstring", "lxml.etree.fromstring") and len(c.args) == 1 and not c.keywords for c in pcalls) and not lenient
    ctx.ob("C11-R4", f"utils.{fn.name}/strict-parser", strict,
           "the span is judged by lxml.etree's default (strict) XML parser: etree.fromstring(<one argument>), no parser object, no recover mode "
           f"(parse calls {[norm(c)[:50] for c in pcalls]}, parser constructions {[norm(c)[:40] for c in lenient]})", node=(lenient or pcalls or [fn])[0], mod=M.um)
    handlers = [h for n in walk_local(fn) if isinstance(n, ast.Try) for h in n.handlers]
    okh = bool(handlers) and all(h.type is not None and (dotted(h.type) or "").endswith("XMLSyntaxError") for h in handlers)
    ctx.ob("C11-R4", f"utils.{fn.name}/handler", okh,
           f"only the parser's syntax error is caught ({[norm(h.type) if h.type else 'bare' for h in handlers]})", node=fn, mod=M.um)
    wrapped = [n for n in walk_local(fn) if isinstance(n, ast.JoinedStr)]
    okw = any(len(j.values) == 3 and isinstance(j.values[0], ast.Constant) and isinstance(j.values[2], ast.Constant)
              and isinstance(j.values[1], ast.FormattedValue) and norm(j.values[1].value) == P
              and j.values[2].value == "</" + j.values[0].value[1:] for j in wrapped)
    reb = [x for x in stmts_local(fn.body) if P in assigned_names(x)]
    ctx.ob("C11-R4", f"utils.{fn.name}/judges-the-span-itself", not reb,
           "the oracle must parse the span text it was given, not a rewritten copy (the parameter is rebound: "
           f"{[norm(x)[:60] for x in reb]})", node=reb[0] if reb else fn, mod=M.um)
    ctx.ob("C11-R4", f"utils.{fn.name}/single-root", okw, "the fragment is parsed inside exactly one enclosing element", node=fn, mod=M.um)


def rule_annotations_consumed_once(ctx: Ctx, M: AnnotateModel):
    """C11-R5: 'wrap' promises every requested annotation in the output.  The annotations parameter is typed Iterable, so it may be a generator:
    whatever consumes it first is the only consumer that sees anything.  The parameter is read exactly once in the function (by the sorted(..) /
    loop that emits), or every read is of a name already rebound to a materialised list/sorted(..)."""
    m, f = M.m, M.f
    if M.bind_errors:
        return
    q = "annotate.annotate_citations"
    it = M.LOOP.iter
    src = None
    if isinstance(it, ast.Name):
        src = it.id
    elif isinstance(it, ast.Call) and it.args and isinstance(it.args[0], ast.Name):
        src = it.args[0].id
    params = [a.arg for a in f.args.args + f.args.kwonlyargs]
    # follow `x = sorted(p)` / `x = list(p)` back to the parameter
    P = src
    for s_ in stmts_local(f.body):
        if isinstance(s_, ast.Assign) and len(s_.targets) == 1 and isinstance(s_.targets[0], ast.Name) and s_.targets[0].id == src \
                and isinstance(s_.value, ast.Call) and isinstance(s_.value.func, ast.Name) and s_.value.func.id in ("sorted", "list", "tuple") \
                and s_.value.args and isinstance(s_.value.args[0], ast.Name) and s_.value.args[0].id in params:
            P = s_.value.args[0].id
            mat = s_
            break
    else:
        mat = None
    ctx.ob("C11-STRUCT", f"{q}/annotations-parameter", P in params, f"the emitting loop iterates the parameter `{P}` (possibly through sorted/list)", node=M.LOOP, mod=m,
           nontrivial=False)
    if P not in params:
        return
    loads = [n for n in walk_local(f) if isinstance(n, ast.Name) and n.id == P and isinstance(n.ctx, ast.Load)]
    if mat is not None and P == src:
        # `annotations = sorted(annotations)`: loads before the materialisation (other than its own argument) see the raw iterable
        early = [n for n in loads if (n.lineno, n.col_offset) < (mat.lineno, mat.col_offset) and n is not mat.value.args[0]]
    elif mat is not None:
        early = [n for n in loads if n is not mat.value.args[0]]
    else:
        early = [n for n in loads if n is not it and not (isinstance(it, ast.Call) and n is it.args[0])]
    ctx.ob("C11-R5", f"{q}/{P}:consumed-once", not early,
           f"`{P}` is typed Iterable and may be a one-shot iterator: it is read once, by the materialising sorted()/loop; an earlier pass over it "
           f"(validation, counting) leaves nothing to annotate ({[norm(n.parent)[:50] if hasattr(n, 'parent') else P for n in early][:3]})",
           node=early[0] if early else (mat or M.LOOP), mod=m)


def run(ctx: Ctx):
    ctx.level = "other"
    ctx.explanation = (
        "Decided structurally: R1 in checked modes an emitted span was judged balanced by the oracle after its last "
        "assignment (an unbalanced one reaches `continue` in skip mode); R2 wrap mode never drops an annotation for tag reasons, "
        "passes unbalanced spans through the additive wrapper with (after, before) so the annotation closes before and reopens "
        "after every tag; R3 text content unchanged = all C09 obligations; R4 the balance oracle returns True only without angle "
        "brackets or after a completed lxml parse of <div>span</div>, catching only XMLSyntaxError -> False.  NOT decided: that "
        "balanced pieces at these offsets keep the whole document well-formed (lxml's judgement on concrete trees), the "
        "10-character tolerance of the style-tag repair."
    )
    ctx.trusted = ["the checker (sa/annot.py, sa/paths.py)", "lxml.etree.fromstring raises XMLSyntaxError on ill-formed input"]
    ctx.assumptions = ["default annotator", "before/after pairs are balanced elements (property's premise)"]
    M = AnnotateModel(ctx)
    shared_structure(ctx, M, "C11-STRUCT")
    run_c11(ctx, M)
    run_c09(ctx, M)
    # where an annotation lands in the markup is decided by the offset translation: a table that maps a plain offset into the middle of a tag puts
    # the annotation there.  The two decided facts about the table (C10-R12 monotone, C10-R13 steps account for both texts and '=' only for equal
    # blocks) are necessary for C11 as well
    # (run_c10_source runs both, together with the other source-text rules: start/end translated with the right bisect sides, the table built from
    # a diff of the very strings the offsets index (C10-R9; a casefolded copy shifts every later span into a tag), the updater built in this call
    # from the two text parameters (C10-R14))
    from .c10 import run_c10_source
    ctx.guard(run_c10_source, ctx, M)
    ctx.guard(rule_annotations_consumed_once, ctx, M)
    ctx.floor("C11-R1", 1)
    ctx.floor("C11-R2", 2)
    ctx.floor("C11-R4", 3)
