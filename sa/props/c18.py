"""C18 -- Year and edition guesses are sound; disambiguation only removes
(DESIGN 2/C18)."""
from __future__ import annotations

import ast
from typing import Dict, List, Optional, Tuple

from .. import materialize, rx
from ..core import Ctx, Locals, filter_semantics, presence_test, assigned_names, dotted, names_in, norm, stmts_local, walk_local
from ..paths import enumerate_paths, guards_of
from ..typed import Typed, eyecite_class


def year_stores(ctx: Ctx, typed: Typed):
    """every `X.year = rhs` where X is a ResourceCitation (numeric year), in the package proper."""
    repo = ctx.repo
    out = []
    for q, m, fn in repo.all_funcs():
        for n in walk_local(fn):
            tg = []
            if isinstance(n, ast.Assign):
                tg = [(t, n.value) for t in n.targets]
            elif isinstance(n, (ast.AugAssign, ast.AnnAssign)) and getattr(n, "value", None) is not None:
                tg = [(n.target, n.value)]
            for t, v in tg:
                for tt in (t.elts if isinstance(t, (ast.Tuple, ast.List)) else [t]):
                    if isinstance(tt, ast.Attribute) and tt.attr == "year":
                        cls = eyecite_class(typed.type_of(m, tt.value))
                        recv = norm(tt.value)
                        if recv.endswith(".metadata") or recv == "m" and False:
                            continue
                        if cls is not None and not repo.is_subclass(cls, "ResourceCitation"):
                            continue
                        out.append((q, m, fn, n, tt, v))
    return out


def _through_local(fn, v):
    """`year = get_year(text)` ... `citation.year = year`: a local all of whose bindings are get_year(..) or None stands for that call"""
    if not isinstance(v, ast.Name):
        return v

    def _parsed(e):
        if isinstance(e, ast.Constant) and e.value is None:
            return True
        if isinstance(e, ast.IfExp):
            return _parsed(e.body) and _parsed(e.orelse)
        return isinstance(e, ast.Call) and dotted(e.func) == "get_year" and len(e.args) == 1
    defs = [d for d in walk_local(fn) if isinstance(d, (ast.Assign, ast.AnnAssign, ast.AugAssign, ast.For, ast.NamedExpr, ast.With)) and v.id in assigned_names(d)]
    if defs and all(isinstance(d, ast.Assign) and len(d.targets) == 1 and isinstance(d.targets[0], ast.Name) and _parsed(d.value) for d in defs) \
            and v.id not in [a.arg for a in fn.args.args]:
        calls = [d.value for d in defs if isinstance(d.value, ast.Call)] + [d.value.body for d in defs if isinstance(d.value, ast.IfExp) and isinstance(d.value.body, ast.Call)]
        if calls:
            return calls[0]
    return v


def rule_year_writers(ctx: Ctx, typed: Typed):
    repo = ctx.repo
    stores = year_stores(ctx, typed)
    ctx.extra["numeric_year_stores"] = len(stores)
    for q, m, fn, st, tgt, v in stores:
        recv = norm(tgt.value)
        ok, why = False, f"right-hand side `{norm(v)[:60]}`"
        v = _through_local(fn, v)
        if isinstance(v, ast.Call) and dotted(v.func) == "get_year" and len(v.args) == 1:
            ok, why = True, f"get_year({norm(v.args[0])[:40]})"
        elif q.endswith(".is_parallel_citation") and isinstance(v, ast.Attribute) and v.attr == "year" and norm(v.value) != recv:
            ok, why = True, "copied from the parallel citation together with its textual year"
        ctx.ob("R-C18-1", f"{q}/{recv}.year", ok,
               f"the numeric year may only be written as get_year(<text>) (range-checked parse) or copied in is_parallel_citation: {why}",
               node=st, mod=m)
    # R-C18-2 pairing with the textual year, per path
    for q, m, fn, st, tgt, v in stores:
        recv = norm(tgt.value)
        src = None
        local = v.id if isinstance(v, ast.Name) else None
        v = _through_local(fn, v)
        if isinstance(v, ast.Call) and dotted(v.func) == "get_year" and v.args:
            src = norm(v.args[0])
        elif isinstance(v, ast.Attribute) and v.attr == "year":
            src = norm(v.value) + ".metadata.year"
        if src is None:
            continue
        paths = enumerate_paths(fn.body)
        bad = None
        n = 0
        for p in paths:
            idx = next((i for i, ev in enumerate(p.events) if ev[0] == "stmt" and ev[1] is st), None)
            if idx is None:
                continue
            n += 1
            paired = False
            for ev in p.events:
                if ev[0] == "stmt" and isinstance(ev[1], ast.Assign):
                    for t in ev[1].targets:
                        if norm(t) == f"{recv}.metadata.year" and norm(ev[1].value) == src:
                            paired = True
                        # the textual year rebuilt from the parsed number (its leading four digits are that number), or dropped with it
                        if local and norm(t) == f"{recv}.metadata.year" and (norm(ev[1].value) == f"str({local})" or (
                                isinstance(ev[1].value, ast.Constant) and ev[1].value.value is None
                                and any(e2[0] == "cond" and norm(e2[1]) == local and not e2[2] for e2 in p.events))):
                            paired = True
            if not paired:
                bad = p
        ctx.ob("R-C18-2", f"{q}/{recv}.year~metadata.year", bad is None and n > 0,
               f"on every path that sets the numeric year from `{src}` the textual year `{recv}.metadata.year` is set from the same text "
               f"({n} path(s))", node=st, mod=m)


def rule_get_year(ctx: Ctx, data):
    repo = ctx.repo
    m = repo.mod("helpers")
    fn = repo.need_func("helpers.get_year")
    P = fn.args.args[0].arg
    paths = enumerate_paths(fn.body)
    YV = None
    in_try = False
    for n in walk_local(fn):
        if isinstance(n, ast.Try):
            for s in n.body:
                if isinstance(s, ast.Assign) and isinstance(s.value, ast.Call) and dotted(s.value.func) == "int" and norm(s.value.args[0]) == P:
                    YV = s.targets[0].id
                    in_try = any(h.type is not None and "ValueError" in norm(h.type) for h in n.handlers)
    ctx.ob("R-C18-3", "helpers.get_year/parse", YV is not None and in_try,
           "the year text is parsed with int() inside try/except ValueError", node=fn, mod=m)
    if YV is None:
        return

    def const(e) -> Optional[str]:
        if isinstance(e, ast.Constant) and isinstance(e.value, int):
            return str(e.value)
        if isinstance(e, ast.Name):
            v = m.toplevel_assign(e.id)
            if v is not None:
                return norm(v)
        return norm(e)

    lower_seen = upper_seen = None
    ok = True
    n_val = 0
    for p in paths:
        if p.exit != "return":
            continue
        rv = p.exit_node.value
        if rv is None or (isinstance(rv, ast.Constant) and rv.value is None):
            continue
        n_val += 1
        if norm(rv) != YV:
            ok = False
        lo = up = None
        for ev in p.events:
            if ev[0] != "cond" or not isinstance(ev[1], ast.Compare) or len(ev[1].ops) != 1:
                continue
            c, o = ev[1], ev[2]
            l, r, op = c.left, c.comparators[0], type(c.ops[0])
            if norm(r) == YV:
                l, r = r, l
                op = {ast.Lt: ast.Gt, ast.Gt: ast.Lt, ast.LtE: ast.GtE, ast.GtE: ast.LtE}.get(op, op)
            if norm(l) != YV:
                continue
            # establish YV >= K  /  YV <= K
            if (op is ast.Lt and not o) or (op is ast.GtE and o):
                lo = const(r)
            if (op is ast.Gt and not o) or (op is ast.LtE and o):
                up = const(r)
        if lo is None or up is None:
            ok = False
        lower_seen, upper_seen = lo or lower_seen, up or upper_seen
    ctx.ob("R-C18-3", "helpers.get_year/range-both-sides", ok and n_val > 0,
           f"every path returning a year has established lower <= year <= upper (lower={lower_seen}, upper={upper_seen}) and returns the parsed integer",
           node=fn, mod=m)
    ctx.ob("R-C18-3", "helpers.get_year/lower-bound-1600", lower_seen == "1600", f"lower bound is {lower_seen}; the property fixes 1600", node=fn, mod=m)
    ctx.ob("R-C18-3", "helpers.get_year/upper-bound-next-year", upper_seen in ("date.today().year + 1", "datetime.now().year + 1", "datetime.date.today().year + 1"),
           f"upper bound is `{upper_seen}`; the property fixes 'next year'", node=fn, mod=m)
    # regex side: the year group is exactly four digits
    consts = data["regex_constants"]
    for name, flags in (("YEAR_REGEX", __import__("re").X), ("DEFENDANT_YEAR_REGEX", 0)):
        pat = consts.get(name)
        okg, why = False, "constant missing"
        if pat is not None:
            tree = rx.parse(pat, flags)
            gid = tree.state.groupdict.get("year")
            sub = _find_group(tree, gid) if gid else None
            if sub is not None:
                items = list(sub)
                okg = (len(items) == 1 and str(items[0][0]) in ("MAX_REPEAT",) and items[0][1][0] == 4 and items[0][1][1] == 4
                       and [str(o) for o, _ in items[0][1][2]] == ["IN"] and [(str(o), str(a)) for o, a in items[0][1][2][0][1]] == [("CATEGORY", "CATEGORY_DIGIT")])
                why = "year group is \\d{4}" if okg else f"year group is {items}"
        ctx.ob("R-C18-3", f"regexes.{name}/year-group", okg,
               f"the captured textual year is exactly four digits, so get_year parses its leading four digits ({why})", mod=repo.mod("regexes"))


def _find_group(tree, gid):
    for op, av in tree:
        n = str(op)
        if n == "SUBPATTERN":
            if av[0] == gid:
                return av[3]
            r = _find_group(av[3], gid)
            if r is not None:
                return r
        elif n in ("MAX_REPEAT", "MIN_REPEAT"):
            r = _find_group(av[2], gid)
            if r is not None:
                return r
        elif n == "BRANCH":
            for b in av[1]:
                r = _find_group(b, gid)
                if r is not None:
                    return r
        elif n in ("ASSERT", "ASSERT_NOT"):
            r = _find_group(av[1], gid)
            if r is not None:
                return r
    return None


def rule_guess_edition(ctx: Ctx, rule="R-C18-4"):
    repo = ctx.repo
    m = repo.mod("models")
    fn = repo.need_func("models.ResourceCitation.guess_edition")
    S = fn.args.args[0].arg
    q = "models.ResourceCitation.guess_edition"
    # who stores edition_guess
    stores = []
    for qq, mm, f2 in repo.all_funcs():
        for n in walk_local(f2):
            if isinstance(n, ast.Attribute) and n.attr == "edition_guess" and isinstance(n.ctx, ast.Store):
                stores.append((qq, mm, n))
    ctx.ob(rule, "edition_guess/single-writer", [x[0] for x in stores] == [q],
           f"the guessed edition is written only by guess_edition (writers: {[x[0] for x in stores]})", node=stores[0][2] if stores else fn, mod=m)
    # candidate list
    E = None
    init = None
    for s in fn.body:
        if isinstance(s, ast.Assign) and isinstance(s.targets[0], ast.Name) and isinstance(s.value, ast.BoolOp) and isinstance(s.value.op, ast.Or):
            vals = [norm(v) for v in s.value.values]
            if vals == [f"{S}.exact_editions", f"{S}.variation_editions"]:
                E, init = s.targets[0].id, s
    ctx.ob(rule, f"{q}/candidates", E is not None,
           "candidates are `self.exact_editions or self.variation_editions` (exact names before variations)", node=init or fn, mod=m)
    if E is None:
        return
    paths = enumerate_paths(fn.body)
    ok_store = ok_narrow = ok_complete = True
    n_store = n_narrow = 0
    why = ""

    def len_fact(c: ast.AST, outcome: bool):
        """(name, 'len>1' | 'len==1' | 'truthy', holds) for a condition about the size of a list variable"""
        pt = presence_test(c, outcome)
        if pt and pt[0].isidentifier() and not (isinstance(c, ast.Compare) and isinstance(c.ops[0], (ast.Is, ast.IsNot))):
            return pt[0], "truthy", pt[1]
        if isinstance(c, ast.Compare) and len(c.ops) == 1:
            l, r, op = c.left, c.comparators[0], c.ops[0]
            flip = {ast.Lt: ast.Gt, ast.Gt: ast.Lt, ast.LtE: ast.GtE, ast.GtE: ast.LtE, ast.Eq: ast.Eq, ast.NotEq: ast.NotEq}
            if isinstance(l, ast.Constant) and type(op) in flip:
                l, r, op = r, l, flip[type(op)]()
            if isinstance(l, ast.Call) and dotted(l.func) == "len" and len(l.args) == 1 and isinstance(l.args[0], ast.Name) and isinstance(r, ast.Constant) \
                    and isinstance(r.value, int):
                nm, k = l.args[0].id, r.value
                if (isinstance(op, ast.Gt) and k == 1) or (isinstance(op, ast.GtE) and k == 2):
                    return nm, "len>1", outcome
                if (isinstance(op, ast.LtE) and k == 1) or (isinstance(op, ast.Lt) and k == 2):
                    return nm, "len>1", not outcome
                if isinstance(op, ast.Eq) and k == 1:
                    return nm, "len==1", outcome
                if isinstance(op, ast.NotEq) and k == 1:
                    return nm, "len==1", not outcome
        return None

    for p in paths:
        val = {E: 0}          # variable -> value id; 0 = exact-or-variation candidates, 1 = year-filtered
        facts = {}            # (value id, kind) -> bool
        year_known = None
        cur = 0               # the value the guess must be taken from (the most narrowed one)
        conds = []
        stored = False
        for ev in p.events:
            if ev[0] == "cond":
                conds.append((norm(ev[1]), ev[2]))
                if norm(ev[1]) == f"{S}.year":
                    year_known = ev[2]
                lf = len_fact(ev[1], ev[2])
                if lf and lf[0] in val:
                    facts[(val[lf[0]], lf[1])] = lf[2]
            elif ev[0] == "stmt":
                s = ev[1]
                if isinstance(s, ast.Assign) and len(s.targets) == 1 and isinstance(s.targets[0], ast.Name) and s is not init:
                    t, v = s.targets[0].id, s.value
                    if isinstance(v, ast.Name) and v.id in val:
                        val[t] = val[v.id]
                    elif isinstance(v, ast.ListComp) and len(v.generators) == 1 and isinstance(v.generators[0].iter, ast.Name) and v.generators[0].iter.id in val:
                        n_narrow += 1
                        src = val[v.generators[0].iter.id]
                        good = (norm(v.elt) == norm(v.generators[0].target) and len(v.generators[0].ifs) == 1
                                and norm(v.generators[0].ifs[0]) == f"{norm(v.elt)}.includes_year({S}.year)")
                        if not good:
                            ok_narrow, why = False, f"candidates narrowed by `{norm(s)[:70]}` (only a filter by includes_year(self.year) may narrow them)"
                        if src != 0 or facts.get((0, "len>1")) is not True or year_known is not True:
                            ok_narrow, why = False, (f"year filter applied without `len(candidates) > 1 and {S}.year` (conditions {conds}): a single candidate "
                                                     "must be accepted whatever the year")
                        val[t] = 1
                        cur = 1
                    elif t in val:
                        if not (isinstance(v, ast.Constant) and v.value is None):
                            ok_narrow, why = False, f"candidates rebound by `{norm(s)[:70]}` (only a filter by includes_year(self.year) may narrow them)"
                        val.pop(t, None)
                for n in ast.walk(s):
                    if isinstance(n, ast.Attribute) and n.attr == "edition_guess" and isinstance(n.ctx, ast.Store):
                        stored = True
                        n_store += 1
                        v = s.value if isinstance(s, ast.Assign) else None
                        base = v.value if isinstance(v, ast.Subscript) and isinstance(v.value, ast.Name) else None
                        idx_ok = isinstance(v, ast.Subscript) and norm(v.slice) in ("0", "-1")
                        if not (base is not None and idx_ok and base.id in val and val[base.id] == cur and facts.get((cur, "len==1")) is True):
                            ok_store, why = False, f"`{norm(s)[:60]}` is not `<candidates>[0]` under `len(<candidates>) == 1` (conditions {conds})"
        if not stored and p.exit in ("fall", "return"):
            declined = facts.get((cur, "len==1")) is False or facts.get((cur, "truthy")) is False or facts.get((0, "truthy")) is False \
                or (cur == 0 and facts.get((0, "len>1")) is True)
            if not declined:
                ok_complete, why = False, f"a path leaves without a guess although it has not established that the candidates are not exactly one (conditions {conds})"
    ctx.ob(rule, f"{q}/guess-is-the-single-candidate", ok_store and n_store > 0,
           "the guess is candidates[0] under len(candidates) == 1 (so it is one of the candidates, exact before variation)" if ok_store else why,
           node=fn, mod=m)
    ctx.ob(rule, f"{q}/year-only-narrows-several", ok_narrow and n_narrow > 0,
           "several candidates are narrowed only by includes_year(self.year), and only when there are several and a year is known" if ok_narrow else why,
           node=fn, mod=m)
    ctx.ob(rule, f"{q}/always-guesses-single", ok_complete,
           "every path that makes no guess has established that there is not exactly one candidate" if ok_complete else why, node=fn, mod=m)


def rule_includes_year(ctx: Ctx):
    """R-C18-6: the year filter keeps an edition iff the year is not in the
    future and lies between the edition's (optional) start and end years."""
    repo = ctx.repo
    m = repo.mod("models")
    fn = repo.need_func("models.Edition.includes_year")
    S, Y = fn.args.args[0].arg, fn.args.args[1].arg
    rets = [r for r in walk_local(fn) if isinstance(r, ast.Return)]
    ok, got = False, []
    if len(rets) == 1 and isinstance(rets[0].value, ast.BoolOp) and isinstance(rets[0].value.op, ast.And):
        got = [norm(v) for v in rets[0].value.values]
        lower = {f"{S}.start is None or {S}.start.year <= {Y}", f"{S}.start is None or {Y} >= {S}.start.year"}
        upper = {f"{S}.end is None or {S}.end.year >= {Y}", f"{S}.end is None or {Y} <= {S}.end.year"}
        ok = len(got) == 3 and any(g in lower for g in got) and any(g in upper for g in got) and any(g.startswith(f"{Y} <= ") and "now().year" in g for g in got)
    ctx.ob("R-C18-6", "models.Edition.includes_year/two-sided-and-none-safe", ok,
           f"an edition publishes in a year iff year <= current year and start.year <= year <= end.year, with a missing start/end meaning unbounded (found {got})",
           node=fn, mod=m)


def rule_merge_dedup(ctx: Ctx, rule="R-C18-7"):
    """two patterns that match the same characters contribute their editions to one token; an edition contributed twice must count once,
    otherwise `len(candidates) == 1` fails for an unambiguous reporter."""
    repo = ctx.repo
    m = repo.mod("models")
    fn = repo.need_func("models.CitationToken.merge")
    S = fn.args.args[0].arg
    for attr in ("exact_editions", "variation_editions"):
        st = [s_ for s_ in stmts_local(fn.body) if isinstance(s_, ast.Assign) and norm(s_.targets[0]) == f"{S}.{attr}"]
        last = st[-1] if st else None  # document order (inlined code shares the line of the call it replaced)
        ok = False
        if last is not None:
            # run through the assignments in order: concatenation -> duplicates possible; dict.fromkeys -> unique; an order-preserving filter
            # of the field by itself (`tuple(e for e in self.f if ..)`) keeps whatever state it had
            unique = False
            for x in st:
                v = x.value
                inner = v.args[0] if isinstance(v, ast.Call) and dotted(v.func) in ("tuple", "list") and v.args else v
                if isinstance(inner, ast.Call) and dotted(inner.func) in ("dict.fromkeys",) and norm(inner.args[0]) == f"{S}.{attr}":
                    unique = True
                elif isinstance(inner, (ast.GeneratorExp, ast.ListComp)) and len(inner.generators) == 1 and norm(inner.generators[0].iter) == f"{S}.{attr}" \
                        and norm(inner.elt) == norm(inner.generators[0].target):
                    pass
                else:
                    unique = False
                last = x if not (isinstance(inner, (ast.GeneratorExp, ast.ListComp))) else last
            concat = any(isinstance(x.value, ast.BinOp) and isinstance(x.value.op, ast.Add) for x in st)
            ok = unique and concat
        ctx.ob(rule, f"models.CitationToken.merge/{attr}:deduplicated", ok,
               f"after concatenating the other token's {attr} the list is de-duplicated order-preservingly (dict.fromkeys): the same edition contributed by two "
               f"patterns counts once (last assignment: `{norm(last)[:70] if last is not None else 'none'}`)", node=last or fn, mod=m)


def rule_guess_after_year(ctx: Ctx, typed: Typed):
    """R-C18-8: guess_edition() filters the candidates by the citation's year and, once it has made a guess, never withdraws it.  It is
    therefore sound only if it runs after the citation's own year has been stored for the last time: on no path may a call that reaches
    guess_edition be followed by a statement that reaches an own-year store (the copy in is_parallel_citation is the inherited year the
    property exempts)."""
    from ..effects import Effects

    repo = ctx.repo
    eff = Effects(repo, typed)
    GE = "models.ResourceCitation.guess_edition"
    if GE not in eff.funcs:
        ctx.ob("R-C18-8", "guess_edition/located", False, "models.ResourceCitation.guess_edition not found", node=None, mod=repo.mod("models"))
        return
    stores = [(q, st) for q, m, fn, st, tgt, v in year_stores(ctx, typed) if not q.endswith(".is_parallel_citation")]
    store_funcs = {q for q, _ in stores}
    store_stmts = {id(st) for _, st in stores}
    reach: Dict[str, set] = {}

    def R(q: str) -> set:
        if q not in reach:
            reach[q] = set(eff.reachable([q]))
        return reach[q]

    scope = [q for q in eff.reachable(["find.get_citations"]) if not q.startswith("test_factories")]
    n_paths = n_calls = 0
    for q in scope:
        fs = eff.funcs[q]
        by_call = {}
        for targets, call, *_ in fs.calls:
            by_call.setdefault(id(call), set()).update(targets)
        if not any(t for ts in by_call.values() for t in ts if GE in R(t) or t == GE):
            continue
        for p in enumerate_paths(fs.node.body):
            n_paths += 1
            ge_at = None
            bad = None
            for ev in p.events:
                node = ev[1] if ev[0] in ("stmt", "cond") else None
                if node is None:
                    continue
                calls = sorted([c for c in ast.walk(node) if isinstance(c, ast.Call) and id(c) in by_call], key=lambda c: (c.lineno, c.col_offset))
                hits_store = ev[0] == "stmt" and id(node) in store_stmts
                for c in calls:
                    ts = by_call[id(c)]
                    n_calls += 1
                    ys = any((R(t) & store_funcs) for t in ts)
                    ge = any(t == GE or GE in R(t) for t in ts)
                    if ys and ge_at is not None and bad is None:
                        bad = (ge_at, c)
                    if ge:
                        ge_at = ge_at or c
                if hits_store and ge_at is not None and bad is None:
                    bad = (ge_at, node)
            if bad is not None:
                ctx.ob("R-C18-8", f"{q}/year-stored-after-guess", False,
                       f"`{norm(bad[0])[:50]}` reaches guess_edition() and `{norm(bad[1])[:50]}`, later on the same path, reaches a store of the citation's own "
                       "year: the guess was made with an earlier (or no) year and is never withdrawn, so it need not be the only candidate publishing in "
                       "the final year", node=bad[1], mod=fs.mod)
                break
    ctx.ob("R-C18-8", "extraction/guess-after-last-year-store", True,
           f"{n_paths} paths of the functions that reach guess_edition() examined ({n_calls} calls classified, own-year stores in {sorted(store_funcs)})",
           node=eff.funcs[GE].node, mod=eff.funcs[GE].mod, nontrivial=False)


def rule_disambiguation(ctx: Ctx):
    repo = ctx.repo
    hm, fm = repo.mod("helpers"), repo.mod("find")
    dr = repo.need_func("helpers.disambiguate_reporters")
    P = dr.args.args[0].arg
    table = filter_semantics(dr, ["isinstance({v}, ResourceCitation)", "{v}.edition_guess"])
    ok = table is not None and all(kept == ((not is_res) or has_guess) for (is_res, has_guess), kept in table.items())
    why = "neither a filtering comprehension nor an append-only filter loop over the parameter" if table is None else \
        f"kept for (is ResourceCitation, has guess) = {sorted(k for k, v_ in table.items() if v_)}"
    ctx.ob("R-C18-5", "helpers.disambiguate_reporters/only-removes", ok,
           f"an order-preserving sub-sequence keeping citations that are not resource citations or have a guessed edition ({why})", node=dr, mod=hm)
    gc = repo.need_func("find.get_citations")
    FLAG = next((a.arg for a in gc.args.args if "ambiguous" in a.arg), None)
    uses = [n for n in walk_local(gc) if isinstance(n, ast.Name) and n.id == FLAG]
    ok2, why2 = False, f"flag parameter {FLAG} has {len(uses)} uses"
    if FLAG and len(uses) == 1 and isinstance(uses[0].parent, ast.If) and uses[0].parent.test is uses[0]:
        iff = uses[0].parent
        body = iff.body
        if iff in gc.body and not iff.orelse and len(body) == 1 and isinstance(body[0], ast.Assign) and isinstance(body[0].value, ast.Call) \
                and dotted(body[0].value.func) == "disambiguate_reporters":
            L = norm(body[0].targets[0])
            i = gc.body.index(iff)
            before = gc.body[:i]
            after = gc.body[i + 1:]
            filt = [s for s in before if isinstance(s, ast.Assign) and isinstance(s.value, ast.Call) and dotted(s.value.func) == "filter_citations" and norm(s.targets[0]) == L]
            last_is_filter = bool(before) and before[-1] in filt
            ret_ok = all(isinstance(s, ast.Return) and norm(s.value) == L for s in after if not isinstance(s, ast.Expr)) and any(isinstance(s, ast.Return) for s in after)
            ok2 = last_is_filter and ret_ok and norm(body[0].value.args[0]) == L
            why2 = f"applied to `{L}` right after filter_citations={last_is_filter}, then returned={ret_ok}"
    ctx.ob("R-C18-5", "find.get_citations/flag-is-last-step", ok2,
           f"remove_ambiguous is consulted exactly once, after filter_citations, immediately before the return, so everything else is independent of it ({why2})",
           node=uses[0] if uses else gc, mod=fm)


def run(ctx: Ctx):
    ctx.level = "other"
    ctx.explanation = (
        "R-C18-1 every store to the numeric year of a resource citation (receiver type from mypy) is get_year(<text>) or the copy in "
        "is_parallel_citation; R-C18-2 on every path it is paired with the textual year set from the same text; R-C18-3 get_year's "
        "non-None returns are dominated by both range tests with lower bound 1600 and upper bound date.today().year + 1, int() under "
        "try/except ValueError, and the `year` groups of YEAR_REGEX / DEFENDANT_YEAR_REGEX are exactly \\d{4}; R-C18-4 guess_edition: "
        "single writer, candidates = exact or variation, narrowing only by includes_year under `len > 1 and year`, guess = candidates[0] "
        "under len == 1, no path declines a single candidate; R-C18-5 disambiguate_reporters is a sub-sequence filter with the stated "
        "predicate and the flag is used once, after filter_citations, right before the return.  NOT decided: that a year string in "
        "every position is found by the regexes; includes_year against the database dates."
    )
    ctx.trusted = ["the checker", "mypy receiver types", "re._parser"]
    ctx.assumptions = ["regex constants are those of eyecite.regexes at import (materialised)"]
    typed = Typed.get(ctx.repo.root)
    data = materialize.load(ctx.repo.root)
    ctx.guard(rule_year_writers, ctx, typed)
    ctx.guard(rule_get_year, ctx, data)
    ctx.guard(rule_guess_edition, ctx)
    ctx.guard(rule_disambiguation, ctx)
    ctx.guard(rule_includes_year, ctx)
    ctx.guard(rule_merge_dedup, ctx)
    ctx.guard(rule_guess_after_year, ctx, typed)
    ctx.floor("R-C18-1", 5)
    ctx.floor("R-C18-2", 5)
    ctx.floor("R-C18-3", 5)
    ctx.floor("R-C18-4", 5)
    ctx.floor("R-C18-5", 2)
