"""C16 -- Citation equality identifies the cited document (DESIGN 2/C16)."""
from __future__ import annotations

import ast

from ..guards import guarded
from ..core import Ctx, assigned_names, dotted, norm, presence_test, stmts_local, walk_local
from ..effects import Effects
from ..hashrules import citation_classes, run_hash_rules, run_resource_rules
from ..paths import enumerate_paths
from ..typed import Typed
from .c18 import rule_guess_edition, rule_merge_dedup


def rule_placeholder_normalisation(ctx: Ctx, only: str = None):
    """The `___` page is turned into None where *every* case citation passes:
    in __post_init__ of a class in the MRO of CaseCitation, and every
    __post_init__ override in the hierarchy chains to super()."""
    repo = ctx.repo
    _ob = ctx.ob

    def ob(rule, *a, **k):
        # `only`: run for another property that needs just the writer/reader agreement on placeholder spellings
        if only is None:
            return _ob(rule, *a, **k)
        if rule == "R-C16-8":
            return _ob(only, *a, **k)
        return None
    m = repo.mod("models")
    sites = []
    for c in citation_classes(repo):
        fn = repo.classes[c].methods.get("__post_init__")
        if fn is None:
            continue
        for n in walk_local(fn):
            if isinstance(n, ast.Assign) and isinstance(n.targets[0], ast.Subscript) and norm(n.targets[0].slice) == "'page'" \
                    and isinstance(n.value, ast.Constant) and n.value.value is None and "groups" in norm(n.targets[0].value):
                sites.append((c, fn, n))
    ob("R-C16-4", "models/placeholder-normalisation:located", len(sites) >= 1,
           f"the store `groups['page'] = None` for placeholder pages is located ({[s[0] for s in sites]})", node=sites[0][2] if sites else None, mod=m,
           nontrivial=False)
    for c, fn, n in sites:
        need = [k for k in citation_classes(repo) if repo.is_subclass(k, "CaseCitation")]
        missing = [k for k in need if c not in repo.mro(k)]
        ob("R-C16-4", f"models.{c}.__post_init__/covers-case-citations", not missing,
               f"every case citation class must pass through the placeholder normalisation (a short-form '585 U.S., at ___' must hash by identity "
               f"too); not covered: {missing}", node=n, mod=m)
        # the test: a page made only of underscores
        guard = n.parent if isinstance(n.parent, ast.If) else None
        okg = guard is not None and "_+" in norm(guard.test) and "page" in norm(guard.test)
        ob("R-C16-4", f"models.{c}.__post_init__/underscore-test", okg,
               "the normalisation is guarded by the all-underscores test on the page group", node=guard or n, mod=m, nontrivial=False)
    # R-C16-8 writer/reader agreement on what a placeholder page is.  The page pattern (writer) says which strings can be a page; __post_init__
    # (reader) turns the placeholder ones into None so that they hash by identity.  Every alternative of the page pattern that contains no
    # alphanumeric character at all is a placeholder spelling, and each character it can consist of must be accepted by the reader's test.
    from .. import materialize, rx
    import re as _re
    pg = materialize.load(repo.root)["regex_constants"].get("PAGE_NUMBER_REGEX")
    for c, fn, n in sites:
        guard = n.parent if isinstance(n.parent, ast.If) else None
        pats = [x.value for x in ast.walk(guard.test) if isinstance(x, ast.Constant) and isinstance(x.value, str) and x.value not in ("page", "")] if guard is not None else []
        if pg is None or not pats:
            ob("R-C16-8", f"models.{c}.__post_init__/placeholder-spellings", False, "page pattern or placeholder test not found", node=guard or n, mod=m)
            continue
        accepted = set()
        for p_ in pats:
            try:
                accepted |= rx.alphabet(p_)
            except Exception:  # noqa: BLE001
                pass
        loose = []
        n_ph = 0
        for b in rx.top_branches(pg):
            a = rx.tree_alphabet(b)
            if a and not any(ch.isalnum() for ch in a):
                n_ph += 1
                if not a <= accepted:
                    loose.append(sorted(a - accepted))
        ob("R-C16-8", f"models.{c}.__post_init__/placeholder-spellings", not loose and n_ph >= 1,
               f"{n_ph} alternative(s) of PAGE_NUMBER_REGEX consist of non-alphanumeric characters only (placeholder pages); the normalisation test {pats} accepts "
               f"{sorted(accepted)}; characters of a placeholder spelling it does not accept: {loose} -- such a page keeps its text, so two different slip "
               "opinions 'N U.S. ----' are equal, hash equal and resolve to one resource", node=guard, mod=m)
    for c in citation_classes(repo):
        fn = repo.classes[c].methods.get("__post_init__")
        if fn is None or c == "CitationBase":
            continue
        chains = any(isinstance(x, ast.Call) and norm(x.func) == "super().__post_init__" for x in walk_local(fn))
        # unconditional: a top-level statement of the method
        top = any(isinstance(s, ast.Expr) and isinstance(s.value, ast.Call) and norm(s.value.func) == "super().__post_init__" for s in fn.body)
        ob("R-C16-4", f"models.{c}.__post_init__/chains-to-super", chains and top,
               "a __post_init__ override must call super().__post_init__() unconditionally, otherwise groups/metadata/placeholder set-up is skipped",
               node=fn, mod=m)


def rule_normalisation_reached(ctx: Ctx):
    """every ResourceCitation built by extraction gets guess_edition() before
    it escapes (corrected_reporter -- and therefore equality -- depends on it)."""
    repo = ctx.repo
    fm = repo.mod("find")
    typed = Typed.get(repo.root)
    eff = Effects(repo, typed)
    target = "models.ResourceCitation.guess_edition"
    for qual in ("find._extract_full_citation", "find._extract_shortform_citation"):
        fn = repo.need_func(qual)
        # the constructed citation variable: assigned from a call and returned
        rets = [r for r in walk_local(fn) if isinstance(r, ast.Return)]
        var = norm(rets[-1].value) if rets else None
        ok, why, n = True, "", 0
        for p in enumerate_paths(fn.body):
            if p.exit != "return":
                continue
            n += 1
            reached = False
            for ev in p.events:
                if ev[0] != "stmt":
                    continue
                for c in ast.walk(ev[1]):
                    if isinstance(c, ast.Call) and isinstance(c.func, ast.Attribute) and norm(c.func.value) == var:
                        meth = c.func.attr
                        if meth == "guess_edition":
                            reached = True
                        else:
                            # every class the variable may hold must reach guess_edition through this method
                            classes = _classes_of(repo, fn, var)
                            okc = bool(classes)
                            for k in classes:
                                found = repo.find_method(k, meth)
                                if not found:
                                    okc = False
                                    continue
                                q0 = f"{repo.classes[found[0]].module.name}.{found[0]}.{meth}"
                                if target not in eff.reachable([q0]):
                                    okc = False
                            reached = reached or okc
            if not reached:
                ok, why = False, "a path returns the citation without a call that reaches guess_edition()"
        ctx.ob("R-C16-5", f"{qual}/guess_edition-reached", ok and n > 0,
               f"`{var}` is normalised (guess_edition reached through add_metadata's super() chain or called directly) on all {n} return path(s)"
               if ok else why, node=fn, mod=fm)
    # R-C16-9: the normalised *text* names the reporter the *hash* uses.  corrected_citation() rewrites the reporter group; what it writes must be
    # corrected_reporter() (or, equivalently, the guessed edition's short name under a test of the guess): a second notion of "official spelling"
    # makes the normalised text re-parse to a citation that hashes differently from the one it came from
    mm = repo.mod("models")
    cc = repo.func("models.ResourceCitation.corrected_citation")
    if cc is not None:
        S_ = cc.args.args[0].arg
        n_rep = 0
        for c_ in [x for x in walk_local(cc) if isinstance(x, ast.Call) and isinstance(x.func, ast.Attribute) and x.func.attr == "replace" and len(x.args) == 2]:
            if "reporter" not in norm(c_.args[0]):
                continue
            n_rep += 1
            new_ = norm(c_.args[1])
            okr = new_ == f"{S_}.corrected_reporter()" or (new_ == f"{S_}.edition_guess.short_name" and guarded(cc, c_, {f"{S_}.edition_guess"}))
            ctx.ob("R-C16-9", "models.ResourceCitation.corrected_citation/reporter-written", okr,
                   f"the reporter group is replaced by `{new_[:60]}`; it must be {S_}.corrected_reporter() or the guessed edition's short name under a test of "
                   "the guess -- the value equality and hash are computed from", node=c_, mod=mm)
        ctx.ob("R-C16-9", "models.ResourceCitation.corrected_citation/reporter-replacements", n_rep >= 1, f"{n_rep} replacement(s) of the reporter group inspected", node=cc, mod=mm,
               nontrivial=False)
    # R-C16-10: the same for the page.  The hash reads groups["page"] as matched; corrected_citation() writes corrected_page().  That may differ
    # from the matched page only for the reporters the module singles out (REPORTERS_THAT_NEED_PAGE_CORRECTION: bracket spellings of slip-opinion
    # pages); any other rewrite (stripping zeros, say) makes the normalised text of an ordinary citation re-parse to a different citation
    cp = repo.func("models.ResourceCitation.corrected_page")
    if cp is not None:
        PG = next((norm(x.targets[0]) for x in stmts_local(cp.body) if isinstance(x, ast.Assign) and "groups" in norm(x.value) and "'page'" in norm(x.value)
                   and isinstance(x.targets[0], ast.Name)), None)
        badp, n_ret = [], 0
        for p_ in enumerate_paths(cp.body):
            if p_.exit != "return":
                continue
            rv = p_.exit_node.value
            if rv is None or (isinstance(rv, ast.Constant) and rv.value is None):
                continue
            n_ret += 1
            if PG is not None and norm(rv) == PG and not any(ev[0] == "stmt" and isinstance(ev[1], (ast.Assign, ast.AugAssign)) and PG in assigned_names(ev[1])
                                                             and norm(ev[1].value) != norm(rv) and "groups" not in norm(ev[1].value) for ev in p_.events):
                continue
            special = any(ev[0] == "cond" and ev[2] and "REPORTERS_THAT_NEED_PAGE_CORRECTION" in norm(ev[1]) for ev in p_.events)
            if not special:
                badp.append(p_.exit_node)
        ctx.ob("R-C16-10", "models.ResourceCitation.corrected_page/rewrites-only-designated-reporters", not badp and n_ret >= 2 and PG is not None,
               f"every path returns the matched page itself unless the reporter is one of REPORTERS_THAT_NEED_PAGE_CORRECTION ({len(badp)} path(s) rewrite it "
               f"unconditionally: {[norm(b)[:50] for b in badp][:2]})", node=badp[0] if badp else cp, mod=mm)
    # corrected_reporter prefers the guessed edition
    cr = repo.need_func("models.ResourceCitation.corrected_reporter")
    S = cr.args.args[0].arg
    okc, n_ret = True, 0
    for p in enumerate_paths(cr.body):
        if p.exit != "return":
            okc = False
            continue
        n_ret += 1
        present = None
        for ev in p.events:
            if ev[0] == "cond":
                pt = presence_test(ev[1], ev[2])
                if pt and pt[0] == f"{S}.edition_guess":
                    present = pt[1]
        rv = norm(p.exit_node.value) if p.exit_node.value is not None else None
        if present is True:
            okc = okc and rv == f"{S}.edition_guess.short_name"
        elif present is False:
            okc = okc and rv == f"{S}.groups['reporter']"
        else:
            okc = False
    okc = okc and n_ret >= 2
    ctx.ob("R-C16-5", "models.ResourceCitation.corrected_reporter/prefers-guess", okc,
           "the normalised reporter is the guessed edition's name when there is a guess, else the reporter as written", node=cr, mod=mm)
    subs = [c for c in repo.subclasses("ResourceCitation") if c != "ResourceCitation" and any(
        k in repo.classes[c].methods for k in ("corrected_reporter", "guess_edition"))]
    ctx.ob("R-C16-5", "models/normalisation-not-overridden", not subs,
           f"no subclass overrides corrected_reporter/guess_edition ({subs})", node=cr, mod=mm, nontrivial=False)


def _classes_of(repo, fn, var):
    out = set()
    for s in stmts_local(fn.body):
        if isinstance(s, ast.Assign) and norm(s.targets[0]) == var and isinstance(s.value, ast.Call):
            f = s.value.func
            if isinstance(f, ast.Name) and f.id in repo.classes:
                out.add(f.id)
            elif isinstance(f, ast.Name):
                # a local holding one of several classes
                for s2 in stmts_local(fn.body):
                    if isinstance(s2, ast.Assign) and norm(s2.targets[0]) == f.id and isinstance(s2.value, ast.Name) and s2.value.id in repo.classes:
                        out.add(s2.value.id)
    return sorted(out)


def rule_edition_table(ctx: Ctx, rule: str = "R-C16-7"):
    """R-C16-7: the generated extractor table says, per spelling, exactly what reporters-db says.  Two citations that differ only in the
    reporter spelling are equal iff both spellings lead to the same single candidate edition; a spelling that picks up an edition the
    database does not list for it (or loses one) changes which citations are equal.  Decided on data: the candidate editions attached to
    each filter string by tokenizers._populate_reporter_extractors (materialised table) against reporters_db.REPORTERS (edition identity =
    name + start + end)."""
    import collections

    from .. import materialize

    data = materialize.load(ctx.repo.root)
    tm = ctx.repo.mod("tokenizers")
    dbmap = data.get("db_edition_map")
    if not dbmap:
        ctx.ob(rule, "reporters-db/edition-map", False, "reporters-db edition map not materialised", node=None, mod=tm)
        return
    var = collections.defaultdict(set)
    exact = collections.defaultdict(set)
    for s_, kind, ed, st, en, _src in dbmap:
        (exact if kind == "edition" else var)[s_].add((ed, st, en))
    gv = collections.defaultdict(set)
    ge = collections.defaultdict(set)
    n_ext = 0
    for e in data["extractors"]:
        if not e["ctor"].startswith("CitationToken"):
            continue
        eds = e["exact"] + e["variation"]
        if not any(x[1] == "reporters" for x in eds):
            continue
        n_ext += 1
        for s_ in e["strings"]:
            for x in e["variation"]:
                if x[1] == "reporters":
                    gv[s_].add((x[0], x[3], x[4]))
            for x in e["exact"]:
                if x[1] == "reporters":
                    ge[s_].add((x[0], x[3], x[4]))
    keys = set(var) | set(exact) | set(gv) | set(ge)
    bad = sorted(s_ for s_ in keys if gv[s_] != var[s_] or ge[s_] != exact[s_])
    detail = ""
    if bad:
        s0 = bad[0]
        detail = (f"; e.g. {s0!r}: generated variation candidates {sorted(map(str, gv[s0]))} vs database {sorted(map(str, var[s0]))}, exact "
                  f"{sorted(map(str, ge[s0]))} vs {sorted(map(str, exact[s0]))}")
    # ... and as often: guess_edition() counts candidates, so an edition listed twice by one extractor (two templates that expand to the same
    # pattern) is "ambiguous" and its citations stop being equal to the canonical spelling's
    dbc_e, dbc_v = collections.defaultdict(collections.Counter), collections.defaultdict(collections.Counter)
    for s_, kind, ed, st, en, _src in dbmap:
        (dbc_e if kind == "edition" else dbc_v)[s_][(ed, st, en)] += 1
    dup = []
    for e in data["extractors"]:
        if not e["ctor"].startswith("CitationToken") or not e["strings"]:
            continue
        for kind, db in (("exact", dbc_e), ("variation", dbc_v)):
            g = collections.Counter((x[0], x[3], x[4]) for x in e[kind] if x[1] == "reporters")
            for k_, c_ in g.items():
                if c_ > max(db[s_][k_] for s_ in e["strings"]):
                    dup.append((e["strings"][0], kind, k_[0], c_))
    ctx.ob(rule, "extractors/no-edition-listed-more-often-than-in-reporters-db", not dup,
           f"no extractor carries an edition more often than reporters-db has (reporter, edition) rows for its spelling; {len(dup)} do{': ' + str(dup[:3]) if dup else ''}",
           node=None, mod=tm)
    ctx.ob(rule, "extractors/candidate-editions-agree-with-reporters-db", not bad and len(keys) > 3000 and n_ext > 4000,
           f"for each of the {len(keys)} reporter spellings, the exact-name and variation candidate editions of the extractors that carry it are exactly the "
           f"editions reporters-db gives for that spelling ({len(bad)} spellings disagree{detail})", node=None, mod=tm)


def run(ctx: Ctx):
    ctx.level = "other"
    ctx.explanation = (
        "Decided: H1 one equality, derived from __hash__() (every citation dataclass eq=False, no other comparison dunder); H0 hash/eq "
        "undecorated and stateless; H2 read-sets (case citations: exactly groups[volume,page,reporter] + guessed edition; no value hash "
        "reads metadata/token/index/spans/year); H3 class tag in every value hash; H4 identity hash for id./unknown citations and on the "
        "placeholder side of CaseCitation.__hash__; R-C16-4 the placeholder normalisation sits in a __post_init__ every case citation passes "
        "(super() chains unconditional); R-C16-5 every extracted resource citation reaches guess_edition() before it escapes, "
        "corrected_reporter prefers the guess, a single candidate is guessed whatever the year (guess_edition rules shared with C18); H6 "
        "canonical sha256 serialisation; Resource equality = hash of the wrapped citation.  NOT decided: that each reporters-db variation "
        "is extracted with its edition as the only candidate (database x pattern behaviour); the re-parse/fixed-point clause."
    )
    ctx.trusted = ["the checker", "dataclass semantics of eq=False / unsafe_hash", "no sha256 / hash(int) collisions"]
    ctx.assumptions = ["citation classes are those of eyecite/models.py"]
    ctx.guard(run_hash_rules, ctx, "R-C16")
    ctx.guard(run_resource_rules, ctx, "R-C16-RES")
    ctx.guard(rule_placeholder_normalisation, ctx)
    ctx.guard(rule_normalisation_reached, ctx)
    ctx.guard(rule_guess_edition, ctx, "R-C16-5b")
    ctx.guard(rule_merge_dedup, ctx, "R-C16-5c")
    ctx.guard(rule_edition_table, ctx)
    ctx.floor("R-C16-H1", 10)
    ctx.floor("R-C16-H2", 3)
    ctx.floor("R-C16-H4", 4)
    ctx.floor("R-C16-4", 4)
    ctx.floor("R-C16-5", 3)
