"""C12 -- The token stream partitions the text (DESIGN 2/C12).

Tokenizer.tokenize is a cursor loop.  Invariants at the head of every
iteration:
  P1  concat(ALL) == text[:cursor]
  P2  LAST is None, or ALL[-1] is LAST and cursor == LAST.end and
      concat(ALL[:-1]) == text[:LAST.start]
  P3  IDX == [(i, t) for i, t in enumerate(ALL) if t is a special token]
  P4  tokens arrive sorted by start, so LAST.start <= token.start
Every acyclic path of the loop body is simulated over the symbolic positions
{c0 (cursor at entry), L.start, L.end, T.start, T.end}; the statement forms
with a transfer function are exactly those the loop uses; anything else that
touches a tracked variable leaves the obligation undischarged.
"""
from __future__ import annotations

import ast
from typing import Dict, List, Optional, Set, Tuple

from ..core import Locals, AnalysisError, Ctx, assigned_names, dotted, effective_body, norm, stmts_local, walk_local
from ..paths import enumerate_paths


class TokModel:
    def __init__(self, ctx: Ctx):
        self.ctx = ctx
        repo = ctx.repo
        self.m = repo.mod("tokenizers")
        self.f = repo.need_func("tokenizers.Tokenizer.tokenize")
        self.errors: List[str] = []
        self._bind()

    def _bind(self):
        f = self.f
        ps = [a.arg for a in f.args.args]
        self.TEXT = ps[1] if len(ps) > 1 else None
        self.ALL = self.IDX = self.LOOP = self.TOK = self.CUR = self.LAST = self.TOKS = None
        rets = [n for n in walk_local(f) if isinstance(n, ast.Return)]
        self.returns = rets
        for r in rets:
            if isinstance(r.value, ast.Tuple) and len(r.value.elts) == 2 and all(isinstance(e, ast.Name) for e in r.value.elts):
                self.ALL, self.IDX = r.value.elts[0].id, r.value.elts[1].id
        if self.ALL is None:
            self.errors.append("no `return <all tokens>, <special tokens>`")
            return
        loops = [s for s in f.body if isinstance(s, ast.For)]
        if len(loops) != 1 or not isinstance(loops[0].target, ast.Name) or not isinstance(loops[0].iter, ast.Name):
            self.errors.append(f"expected exactly one top-level `for token in tokens` loop, found {len(loops)}")
            return
        self.LOOP = loops[0]
        self.TOK = self.LOOP.target.id
        self.TOKS = self.LOOP.iter.id
        for n in walk_local(self.LOOP):
            if (isinstance(n, ast.Subscript) and isinstance(n.value, ast.Name) and n.value.id == self.TEXT and isinstance(n.slice, ast.Slice)
                    and isinstance(n.slice.lower, ast.Name) and n.slice.upper is not None and norm(n.slice.upper) == f"{self.TOK}.start"):
                self.CUR = n.slice.lower.id
        if self.CUR is None:
            self.errors.append("no gap slice text[cursor:token.start] in the loop")
            return
        for s in stmts_local(self.LOOP.body):
            if isinstance(s, ast.Assign) and len(s.targets) == 1 and isinstance(s.targets[0], ast.Name) and isinstance(s.value, ast.Name) \
                    and s.value.id == self.TOK and s.targets[0].id != self.TOK:
                self.LAST = s.targets[0].id
        if self.LAST is None:
            self.errors.append("no `last = token` assignment in the loop")

    # ---- symbolic simulation ------------------------------------------------
    def is_append_text(self, c: ast.AST) -> Optional[Tuple[ast.AST, ast.AST]]:
        if isinstance(c, ast.Call) and isinstance(c.func, ast.Attribute) and c.func.attr == "append_text" and len(c.args) == 2:
            return c.args[0], c.args[1]
        return None

    def list_call(self, c: ast.AST):
        if isinstance(c, ast.Call) and isinstance(c.func, ast.Attribute) and isinstance(c.func.value, ast.Name) and c.func.value.id in (self.ALL, self.IDX):
            return c.func.value.id, c.func.attr, c.args
        return None

    def pos(self, e: ast.AST, cur_sym: str) -> Optional[str]:
        t = norm(e)
        if t == self.CUR:
            return cur_sym
        if t == f"{self.TOK}.start":
            return "T.start"
        if t == f"{self.TOK}.end":
            return "T.end"
        if t == f"{self.LAST}.start":
            return "L.start"
        if t == f"{self.LAST}.end":
            return "L.end"
        if t == "0":
            return "0"
        return None

    def simulate(self, p, sorted_ok: bool):
        ALL, IDX, CUR, LAST, TOK, TEXT = self.ALL, self.IDX, self.CUR, self.LAST, self.TOK, self.TEXT
        le: Set[Tuple[str, str]] = set()
        if sorted_ok:
            le.add(("L.start", "T.start"))
        le.add(("L.start", "L.end"))
        le.add(("T.start", "T.end"))

        def holds(a, b):
            if a == b:
                return True
            reach = {a}
            ch = True
            while ch:
                ch = False
                for x, y in le:
                    if x in reach and y not in reach:
                        reach.add(y); ch = True
            return b in reach

        def eq(a, b):
            return holds(a, b) and holds(b, a)

        st = {
            "cov": "c0", "cur": "c0", "lastnn": None, "top": "L?", "all_mut": False, "idx_pending": None,
            "pops_all": 0, "pops_idx": 0, "last_set": False, "problems": [], "conds": [], "appended_tok": False,
        }
        pr = st["problems"]
        for ev in p.events:
            if ev[0] == "cond":
                c, o = ev[1], ev[2]
                st["conds"].append(f"{norm(c)[:40]}={'T' if o else 'F'}")
                if isinstance(c, ast.Name) and c.id == LAST:
                    st["lastnn"] = bool(o)
                    if o:
                        le.add(("c0", "L.end")); le.add(("L.end", "c0"))
                elif isinstance(c, ast.Compare) and len(c.ops) == 1 and norm(c.left) in (f"{LAST} is not None",):
                    pass
                elif isinstance(c, ast.Compare) and len(c.ops) == 1:
                    a = self.pos(c.left, st["cur"])
                    b = self.pos(c.comparators[0], st["cur"])
                    op = type(c.ops[0])
                    if a and b:
                        tbl = {ast.Lt: "<", ast.LtE: "<=", ast.Gt: ">", ast.GtE: ">=", ast.Eq: "==", ast.NotEq: "!="}
                        s = tbl.get(op)
                        if s:
                            if not o:
                                s = {"<": ">=", "<=": ">", ">": "<=", ">=": "<", "==": "!=", "!=": "=="}[s]
                            if s in ("<", "<="):
                                le.add((a, b))
                            elif s in (">", ">="):
                                le.add((b, a))
                            elif s == "==":
                                le.add((a, b)); le.add((b, a))
                    if norm(c) in (f"{LAST} is not None",) and o:
                        st["lastnn"] = True
                continue
            if ev[0] == "loop":
                if ev[2] == "enter":
                    an = assigned_names(ev[1])
                    if {ALL, IDX, CUR, LAST} & an or any(self.list_call(n) or self.is_append_text(n) for n in ast.walk(ev[1])):
                        pr.append(f"nested loop at line {ev[1].lineno} touches tokenizer state")
                continue
            if ev[0] != "stmt":
                continue
            s = ev[1]
            handled = False
            for n in ast.walk(s):
                at = self.is_append_text(n)
                if at:
                    handled = True
                    lst, sl = at
                    if norm(lst) != ALL:
                        pr.append(f"append_text into `{norm(lst)}`")
                        continue
                    if not (isinstance(sl, ast.Subscript) and norm(sl.value) == TEXT and isinstance(sl.slice, ast.Slice) and sl.slice.step is None
                            and sl.slice.lower is not None and sl.slice.upper is not None):
                        pr.append(f"append_text of `{norm(sl)[:40]}`, not a slice text[a:b]")
                        continue
                    a = self.pos(sl.slice.lower, st["cur"])
                    b = self.pos(sl.slice.upper, st["cur"])
                    if a is None or b is None:
                        pr.append(f"gap bounds `{norm(sl)}` not understood")
                        continue
                    if not eq(a, st["cov"]):
                        pr.append(f"gap `{norm(sl)}` starts at {a} but the tokens emitted so far cover text[:{st['cov']}]")
                    if not holds(a, b):
                        pr.append(f"gap `{norm(sl)}`: cannot show {a} <= {b}")
                    st["cov"] = b
                    st["all_mut"] = True
                    st["top"] = "text"
                lc = self.list_call(n)
                if lc:
                    handled = True
                    which, meth, args = lc
                    if meth == "pop" and (not args or norm(args[0]) == "-1"):
                        if st["lastnn"] is not True:
                            pr.append(f"`{norm(n)}` without knowing that a previous special token exists")
                        if which == ALL:
                            if st["top"] != "L?":
                                pr.append(f"`{norm(n)}` pops something other than the previous special token")
                            st["pops_all"] += 1
                            st["cov"] = "L.start" if eq(st["cov"], "L.end") else "?"
                            st["top"] = "?"
                            st["all_mut"] = True
                        else:
                            st["pops_idx"] += 1
                    elif meth == "append" and which == IDX and len(args) == 1:
                        a0 = args[0]
                        if isinstance(a0, ast.Tuple) and len(a0.elts) == 2 and norm(a0.elts[0]) == f"len({ALL})" and norm(a0.elts[1]) == TOK:
                            st["idx_pending"] = True
                        else:
                            pr.append(f"index entry `{norm(a0)[:40]}` is not (len({ALL}), {TOK})")
                    elif meth == "append" and which == ALL and len(args) == 1 and norm(args[0]) == TOK:
                        if st["idx_pending"] is not True:
                            pr.append(f"`{norm(n)}` is not immediately preceded by the matching index entry")
                        st["idx_pending"] = "done"
                        if not eq(st["cov"], "T.start"):
                            pr.append(f"token appended while the emitted tokens cover text[:{st['cov']}], which is not known to equal {TOK}.start "
                                      f"(text[{st['cov']}:{TOK}.start] would be lost or duplicated)")
                        st["cov"] = "T.end"
                        st["top"] = "T"
                        st["all_mut"] = True
                        st["appended_tok"] = True
                    else:
                        pr.append(f"unsupported list operation `{norm(n)[:50]}`")
            if isinstance(s, (ast.Assign, ast.AugAssign, ast.AnnAssign)):
                an = assigned_names(s)
                v = getattr(s, "value", None)
                if CUR in an:
                    handled = True
                    sym = self.pos(v, st["cur"]) if isinstance(s, ast.Assign) and v is not None else None
                    if sym in ("L.start", "L.end") and st["lastnn"] is not True:
                        pr.append(f"`{norm(s)}` dereferences the previous token without a None test")
                    st["cur"] = sym or "?"
                if LAST in an:
                    handled = True
                    if isinstance(s, ast.Assign) and isinstance(v, ast.Name) and v.id == TOK and st["top"] == "T":
                        st["last_set"] = True
                    else:
                        pr.append(f"`{norm(s)}`: the previous-token variable must be set to the token just appended")
                if {ALL, IDX, TEXT, TOK} & an:
                    pr.append(f"`{norm(s)[:50]}` rebinds tokenizer state inside the loop")
        # end of iteration
        if p.exit in ("fall", "continue"):
            if st["all_mut"]:
                if not eq(st["cov"], st["cur"]):
                    pr.append(f"P1 broken at the end of the iteration: tokens cover text[:{st['cov']}] but the cursor is {st['cur']}")
                if not (st["last_set"] and st["top"] == "T" and st["cur"] == "T.end"):
                    pr.append("P2 broken: after changing the token list the previous-token variable must be the appended token and the cursor its end")
            else:
                if st["cur"] != "c0":
                    pr.append(f"cursor moved to {st['cur']} on a path that emits nothing")
                if st["last_set"]:
                    pr.append("previous-token variable changed on a path that emits nothing")
            if st["pops_all"] != st["pops_idx"]:
                pr.append(f"P3 broken: {st['pops_all']} pop(s) of the token list vs {st['pops_idx']} of the index list")
            if st["idx_pending"] is True:
                pr.append("P3 broken: index entry without the token")
        elif p.exit == "break":
            pr.append("loop left by break")
        return st


def run_c12(ctx: Ctx):
    M = TokModel(ctx)
    m, f = M.m, M.f
    q = "tokenizers.Tokenizer.tokenize"
    ctx.ob("C12-STRUCT", f"{q}/roles", not M.errors, f"roles bind: {M.errors or 'ok'} (ALL={M.ALL}, IDX={M.IDX}, CUR={M.CUR}, LAST={M.LAST}, TOK={M.TOK})", node=f, mod=m)
    if M.errors:
        return
    ALL, IDX, CUR, LAST, TOK, TEXT, TOKS = M.ALL, M.IDX, M.CUR, M.LAST, M.TOK, M.TEXT, M.TOKS
    pre = f.body[: f.body.index(M.LOOP)]
    post = f.body[f.body.index(M.LOOP) + 1:]

    def init_of(name):
        d = [s for s in pre if isinstance(s, (ast.Assign, ast.AnnAssign)) and name in assigned_names(s)]
        return d

    for name, want in ((ALL, ("[]",)), (IDX, ("[]",)), (CUR, ("0",)), (LAST, ("None",))):
        d = init_of(name)
        ctx.ob("C12-INIT", f"{q}/{name}:init", len(d) == 1 and d[0].value is not None and norm(d[0].value) in want,
               f"`{name}` starts as {want[0]}", node=d[0] if d else f, mod=m, nontrivial=False)
    # the two result lists are bound once (their initialisation) and the function has one exit, after the loop: a result that does not come
    # out of the loop (a remembered one, a shortcut) is not covered by the invariant
    for name in (ALL, IDX):
        binds = [s_ for s_ in stmts_local(f.body) if isinstance(s_, (ast.Assign, ast.AnnAssign, ast.AugAssign, ast.For, ast.With)) and name in assigned_names(s_)]
        ctx.ob("C12-INIT", f"{q}/{name}:bound-once", len(binds) == 1,
               f"`{name}` is bound only by its initialisation ({len(binds)} bindings: {[norm(b_)[:40] for b_ in binds[:3]]})", node=binds[1] if len(binds) > 1 else f, mod=m,
               nontrivial=False)
    early = [r_ for r_ in walk_local(f) if isinstance(r_, ast.Return) and r_ not in post]
    ctx.ob("C12-EXIT", f"{q}/single-exit-after-the-loop", not early,
           f"every result is the one the loop built: no return before or inside the loop ({[norm(r_)[:50] for r_ in early[:2]]})", node=early[0] if early else f, mod=m,
           nontrivial=bool(early))
    # P4: sorted by start
    d = init_of(TOKS)
    sorted_ok = False
    if len(d) == 1 and isinstance(d[0].value, ast.Call) and dotted(d[0].value.func) == "sorted":
        c = d[0].value
        key = next((k.value for k in c.keywords if k.arg == "key"), None)
        rev = next((k.value for k in c.keywords if k.arg == "reverse"), None)
        if isinstance(key, ast.Lambda) and rev is None:
            a = key.args.args[0].arg
            b = key.body
            first = b.elts[0] if isinstance(b, ast.Tuple) and b.elts else b
            sorted_ok = norm(first) == f"{a}.start"
    src_ok = False
    if len(d) == 1 and isinstance(d[0].value, ast.Call) and d[0].value.args:
        a0 = d[0].value.args[0]
        src_ok = isinstance(a0, ast.Call) and isinstance(a0.func, ast.Attribute) and a0.func.attr == "extract_tokens" and [norm(x) for x in a0.args] == [TEXT] \
            and not any(TEXT in assigned_names(x) for x in stmts_local(f.body))
    ctx.ob("C12-SRC", f"{q}/{TOKS}:extracted-from-the-text-itself", src_ok,
           f"token offsets and token text refer to the string passed to extract_tokens; gaps are sliced from `{TEXT}`: both must be the same, unmodified string "
           f"(`{norm(d[0].value.args[0])[:70] if d and isinstance(d[0].value, ast.Call) and d[0].value.args else '?'}`)", node=d[0] if d else f, mod=m)
    ctx.ob("C12-P4", f"{q}/{TOKS}:sorted-by-start", sorted_ok,
           "candidate tokens are processed in order of increasing start (sorted(.., key=lambda m: (m.start, ...)))", node=d[0] if d else f, mod=m)
    # loop body paths
    paths = enumerate_paths(M.LOOP.body)
    ctx.extra["loop_body_paths"] = len(paths)
    n_emit = 0
    bad = []
    for p in paths:
        st = M.simulate(p, sorted_ok)
        n_emit += int(st["appended_tok"])
        if st["problems"]:
            bad.append((st, p))
    detail = f"{len(paths)} path(s) through the loop body preserve P1-P3 ({n_emit} of them append the token)"
    node = M.LOOP
    if bad:
        st, p = bad[0]
        detail = f"{st['problems'][0]}; on path [{'; '.join(st['conds'])[:300]}] ({len(bad)} of {len(paths)} paths fail)"
    ctx.ob("C12-INV", f"{q}/loop-invariant", not bad and n_emit > 0, detail, node=node, mod=m)
    for st, p in bad[1:6]:
        for pb in st["problems"][:2]:
            ctx.ob("C12-INV", f"{q}/loop-invariant:more", False, f"{pb}; on path [{'; '.join(st['conds'])[:200]}]", node=node, mod=m, nontrivial=False)
    # tail
    ok, why = bool(post), "nothing after the loop"
    for p in enumerate_paths(post):
        appended = short = False
        for ev in p.events:
            if ev[0] == "cond" and norm(ev[1]) in (f"{CUR} < len({TEXT})", f"len({TEXT}) > {CUR}") and not ev[2]:
                short = True
            if ev[0] == "stmt":
                for n in ast.walk(ev[1]):
                    at = M.is_append_text(n)
                    if at and norm(at[0]) == ALL and norm(at[1]) == f"{TEXT}[{CUR}:]":
                        appended = True
                    elif at or M.list_call(n):
                        ok, why = False, f"unexpected `{norm(n)[:50]}` after the loop"
        if p.exit != "return" or not (appended or short):
            ok, why = False, f"text after the last token is not appended on some path (exit {p.exit})"
        elif norm(p.exit_node.value) != f"({ALL}, {IDX})":
            ok, why = False, f"returns {norm(p.exit_node.value)}"
    ctx.ob("C12-TAIL", f"{q}/tail", ok, "text[cursor:] is appended unless the cursor is at the end; (all, special) returned" if ok else why,
           node=post[0] if post else f, mod=m)
    # R-C12-3: no overrides of tokenize / append_text; extract_tokens yields get_token results
    repo = ctx.repo
    subs = [c for c in repo.subclasses("Tokenizer") if c != "Tokenizer"]
    ctx.extra["tokenizer_classes"] = ["Tokenizer"] + subs
    for c in subs:
        for meth in ("tokenize", "append_text"):
            ctx.ob("C12-R3", f"tokenizers.{c}.{meth}/not-overridden", meth not in repo.classes[c].methods,
                   "the partition proof is about Tokenizer.tokenize/append_text; a subclass override is outside it",
                   node=repo.classes[c].node, mod=m, nontrivial=False)
    for c in ["Tokenizer"] + subs:
        fn = repo.classes[c].methods.get("extract_tokens")
        if fn is None:
            continue
        ys = [n for n in walk_local(fn) if isinstance(n, (ast.Yield, ast.YieldFrom))]
        ok = bool(ys) and all(isinstance(y, ast.Yield) and isinstance(y.value, ast.Call) and isinstance(y.value.func, ast.Attribute)
                              and y.value.func.attr == "get_token" for y in ys)
        ctx.ob("C12-R3", f"tokenizers.{c}.extract_tokens/yields-get_token", ok,
               "every candidate token is built by TokenExtractor.get_token from a regex match", node=fn, mod=m)
    # R-C12-4 append_text identity
    at = repo.need_func("tokenizers.Tokenizer.append_text")
    ctx.ob("C12-R4", "tokenizers.Tokenizer.append_text/identity", *_append_text_identity(at), node=at, mod=m)
    # R-C12-5 merge does not move tokens
    mm = repo.mod("models")
    for c in repo.subclasses("Token"):
        fn = repo.classes[c].methods.get("merge")
        if fn is None:
            continue
        bad_st = [n for n in walk_local(fn) if isinstance(n, ast.Attribute) and isinstance(n.ctx, ast.Store) and n.attr in ("start", "end", "data")]
        ctx.ob("C12-R5", f"models.{c}.merge/offsets-untouched", not bad_st,
               "merging must not change a token's text or offsets (P2 assumes the previous token is unchanged)", node=bad_st[0] if bad_st else fn, mod=mm)
    # R-C12-6 token text and offsets come from the same group with the same shift
    from_match_rules(ctx, "C12-R6")


def _append_text_identity(fn: ast.FunctionDef):
    ps = [a.arg for a in fn.args.args]
    if len(ps) != 2:
        return False, f"expected (tokens, text), got {ps}"
    TOKS, TXT = ps
    body = effective_body(fn)
    if len(body) != 2 or not isinstance(body[0], ast.For):
        return False, "expected `for part in text.split(sep): ...` followed by one pop()"
    loop = body[0]
    it = loop.iter
    if not (isinstance(it, ast.Call) and isinstance(it.func, ast.Attribute) and it.func.attr == "split" and norm(it.func.value) == TXT
            and len(it.args) == 1 and isinstance(it.args[0], ast.Constant) and isinstance(it.args[0].value, str) and it.args[0].value):
        return False, f"loop iterates `{norm(it)}`, not text.split(<non-empty constant>)"
    sep = it.args[0].value
    part = norm(loop.target)
    # every path of the body appends exactly part + sep
    for p in enumerate_paths(loop.body):
        if p.exit != "fall":
            return False, f"loop body exits by {p.exit}"
        emitted = []
        part_empty = None
        for ev in p.events:
            if ev[0] == "cond" and norm(ev[1]) == part:
                part_empty = not ev[2]
            if ev[0] == "stmt":
                for n in ast.walk(ev[1]):
                    if isinstance(n, ast.Call) and isinstance(n.func, ast.Attribute) and norm(n.func.value) == TOKS:
                        if n.func.attr == "extend" and len(n.args) == 1 and isinstance(n.args[0], (ast.Tuple, ast.List)):
                            emitted += [norm(e) for e in n.args[0].elts]
                        elif n.func.attr == "append" and len(n.args) == 1:
                            emitted.append(norm(n.args[0]))
                        else:
                            return False, f"unsupported `{norm(n)[:40]}`"
        want_full = [part, repr(sep)]
        if emitted == want_full:
            continue
        if part_empty and emitted == [repr(sep)]:
            continue
        return False, f"an iteration appends {emitted}, expected [{part}, {sep!r}] (or [{sep!r}] when the part is empty)"
    last = body[1]
    if not (isinstance(last, ast.Expr) and isinstance(last.value, ast.Call) and norm(last.value.func) == f"{TOKS}.pop" and
            (not last.value.args or norm(last.value.args[0]) == "-1")):
        return False, "the trailing separator is not removed by exactly one pop()"
    return True, f"appends part+{sep!r} for each part of text.split({sep!r}) and pops the one extra separator: concatenation of what is appended == text"


def from_match_rules(ctx: Ctx, rule: str):
    """Token.from_match (and every override): data = m[k], (start, end) =
    m.span(k), both shifted by the same `offset` parameter; get_token passes
    its offset through; the Hyperscan re-match on a slice is rebased by the
    slice origin."""
    repo = ctx.repo
    mm = repo.mod("models")
    n = 0
    for c in repo.subclasses("Token"):
        fn = repo.classes[c].methods.get("from_match")
        if fn is None:
            continue
        n += 1
        ok, why = _from_match_ok(fn)
        ctx.ob(rule, f"models.{c}.from_match", ok, why, node=fn, mod=mm)
    ctx.need(n >= 1, "no from_match found in the Token hierarchy")
    te = repo.classes.get("TokenExtractor")
    ctx.need(te is not None and "get_token" in te.methods, "TokenExtractor.get_token not found")
    gt = te.methods["get_token"]
    ps = [a.arg for a in gt.args.args]
    rets = [r for r in walk_local(gt) if isinstance(r, ast.Return)]
    ok = len(rets) == 1 and isinstance(rets[0].value, ast.Call) and norm(rets[0].value.func) == f"{ps[0]}.constructor" and \
        [norm(a) for a in rets[0].value.args] == [ps[1], f"{ps[0]}.extra", ps[2]]
    ctx.ob(rule, "models.TokenExtractor.get_token/passes-offset", ok,
           "get_token forwards the match, the extractor's extra fields and the caller's offset to the constructor", node=gt, mod=mm)
    # every token built with an explicit offset: the offset is the origin of the string the match was made on
    tm = repo.mod("tokenizers")
    n_off = 0
    for q, mod, fn in repo.all_funcs():
        for c in [x for x in walk_local(fn) if isinstance(x, ast.Call) and isinstance(x.func, ast.Attribute) and x.func.attr in ("get_token", "from_match")]:
            if c.func.attr == "get_token":
                off = next((k.value for k in c.keywords if k.arg == "offset"), c.args[1] if len(c.args) > 1 else None)
            else:
                off = next((k.value for k in c.keywords if k.arg == "offset"), c.args[2] if len(c.args) > 2 else None)
            if off is None or (isinstance(off, ast.Constant) and off.value == 0):
                continue
            if q.endswith(".get_token") or q.endswith(".from_match"):
                continue  # the forwarding definitions themselves (checked above)
            n_off += 1
            mvar = c.args[0] if c.args else None
            okk, why = False, "match variable / offset not understood"
            if isinstance(mvar, ast.Name):
                srcs = []
                for s_ in stmts_local(fn.body):
                    if isinstance(s_, ast.Assign) and any(isinstance(t, ast.Name) and t.id == mvar.id for t in s_.targets) and isinstance(s_.value, ast.Call):
                        srcs.append(s_.value)
                    if isinstance(s_, ast.For) and isinstance(s_.target, ast.Name) and s_.target.id == mvar.id and isinstance(s_.iter, ast.Call):
                        srcs.append(s_.iter)
                for n_ in walk_local(fn):
                    if isinstance(n_, ast.comprehension) and isinstance(n_.target, ast.Name) and n_.target.id == mvar.id and isinstance(n_.iter, ast.Call):
                        srcs.append(n_.iter)
                if len(srcs) == 1 and srcs[0].args:
                    call = srcs[0]
                    sl = call.args[1] if dotted(call.func) in ("re.match", "re.search", "re.fullmatch", "re.finditer") and len(call.args) > 1 else call.args[0]
                    sl = Locals(fn).expand(sl, c, depth=1) if isinstance(sl, ast.Name) else sl
                    if isinstance(sl, ast.Subscript) and isinstance(sl.slice, ast.Slice) and sl.slice.lower is not None:
                        okk = norm(sl.slice.lower) == norm(off)
                        why = f"the match is made on `{norm(sl)}` and rebased with offset `{norm(off)}`"
                    else:
                        why = f"the match is made on `{norm(sl)[:40]}`, which is not a slice text[{norm(off)}:..] of the document"
            ctx.ob(rule, f"{q}/rebase", okk,
                   "a match on a slice text[a:b] must be turned into a token with offset a, and only such a match may carry an offset: " + why, node=c, mod=mod)
    ctx.ob(rule, "tokenizers/offset-token-sites", n_off >= 1, f"{n_off} token construction(s) with an explicit offset located", node=None, mod=tm, nontrivial=False)


def _from_match_ok(fn: ast.FunctionDef):
    ps = [a.arg for a in fn.args.args]  # cls, m, extra, offset
    if len(ps) < 4:
        return False, f"expected (cls, m, extra, offset), got {ps}"
    CLS, M_, EXTRA, OFF = ps[:4]
    span = None
    for s in stmts_local(fn.body):
        if isinstance(s, ast.Assign) and isinstance(s.targets[0], ast.Tuple) and len(s.targets[0].elts) == 2 and isinstance(s.value, ast.Call) \
                and norm(s.value.func) == f"{M_}.span" and len(s.value.args) == 1:
            span = (norm(s.targets[0].elts[0]), norm(s.targets[0].elts[1]), norm(s.value.args[0]))
    if span is None:
        return False, "no `start, end = m.span(k)`"
    a, b, k = span
    rets = [r for r in walk_local(fn) if isinstance(r, ast.Return)]
    if len(rets) != 1 or not (isinstance(rets[0].value, ast.Call) and norm(rets[0].value.func) == CLS):
        return False, "does not return cls(...)"
    args = [norm(x) for x in rets[0].value.args]
    want_data = (f"{M_}[{k}]", f"{M_}.group({k})")
    shifted = lambda v: (f"{v} + {OFF}", f"{OFF} + {v}")  # noqa: E731
    if len(args) < 3 or args[0] not in want_data or args[1] not in shifted(a) or args[2] not in shifted(b):
        return False, f"token built as cls({', '.join(args[:3])}); expected cls(m[{k}], {a} + {OFF}, {b} + {OFF}, ...)"
    for s in stmts_local(fn.body):
        if isinstance(s, (ast.Assign, ast.AugAssign)) and ({a, b, OFF} & assigned_names(s)) and not (isinstance(s, ast.Assign) and isinstance(s.targets[0], ast.Tuple)):
            return False, f"`{norm(s)[:50]}` changes an offset after it was read from the match"
    return True, f"text m[{k}] and offsets m.span({k}) shifted by the same `{OFF}`"


def run(ctx: Ctx):
    ctx.level = "other"
    ctx.explanation = (
        "Tokenizer.tokenize is a cursor loop; invariants P1-P4 (see module docstring) are checked on every acyclic path of the "
        "loop body over symbolic positions {c0, L.start, L.end, T.start, T.end} with difference constraints taken from branch "
        "conditions, P2 and P4.  A token may be appended only when the emitted tokens are known to cover text[:token.start]; a gap "
        "may be appended only from the covered position; pops of the two lists are paired and move coverage back to L.start.  Plus: "
        "tail, no subclass override of tokenize/append_text, extract_tokens yields only get_token results, append_text is the "
        "split/re-join identity (checked structurally), merge leaves offsets alone, from_match takes text and offsets from the same "
        "group with the same shift (and the Hyperscan slice re-match is rebased by the slice origin)."
    )
    ctx.trusted = ["the checker (sa/props/c12.py, sa/paths.py)", "str.split(sep) + re-join by sep is the identity", "sorted() is a stable sort by the key"]
    ctx.assumptions = [
        "regex group 1 participates in every extractor match (decided under C02 for the generated patterns)",
        "the three shipped tokenizers (custom subclasses overriding tokenize are outside the claim)",
    ]
    run_c12(ctx)
    ctx.floor("C12-INV", 1)
    ctx.floor("C12-R3", 5)
    ctx.floor("C12-R6", 3)
