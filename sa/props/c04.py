"""C04 -- Extraction, resolution and annotation never raise on any string
(exception *discipline*, DESIGN 2/C04).  Every site of the risk classes T1-T9
in the functions reachable from the three entry points is enumerated and must
be discharged by one of the listed idioms."""
from __future__ import annotations

import ast
import re as _re
from typing import Any, Dict, List, Optional, Set, Tuple

from .. import materialize, rx
from ..core import presence_test, Locals, AnalysisError, Ctx, assigned_names, dotted, effective_body, names_in, norm, stmts_local, walk_local
from ..effects import Effects
from ..guards import guarded, paths_of
from ..paths import enumerate_paths
from ..typed import Typed, eyecite_class, is_optional

ENTRIES = ["find.get_citations", "resolve.resolve_citations", "annotate.annotate_citations"]
MATCH_FUNCS = {"re.match", "re.search", "re.fullmatch", "regex.match", "regex.search", "regex.fullmatch"}


def is_deref(node: ast.AST) -> Optional[str]:
    """how the value of `node` is dereferenced by its parent (None if it is not)."""
    par = getattr(node, "parent", None)
    if isinstance(par, ast.Attribute) and par.value is node:
        return f".{par.attr}"
    if isinstance(par, ast.Subscript) and par.value is node:
        return "[...]"
    if isinstance(par, ast.Call) and node in par.args and dotted(par.func) in ("len", "int", "float", "sorted", "list", "tuple", "set", "sum", "min", "max", "iter", "next"):
        return f"{dotted(par.func)}()"
    if isinstance(par, ast.BinOp) and isinstance(par.op, (ast.Add, ast.Mod, ast.Sub, ast.Mult)):
        return "arithmetic / concatenation"
    if isinstance(par, ast.Compare) and node in par.comparators and any(isinstance(o, (ast.In, ast.NotIn)) for o in par.ops):
        return "membership test in it"
    if isinstance(par, ast.Compare) and any(isinstance(o, (ast.Lt, ast.Gt, ast.LtE, ast.GtE)) for o in par.ops):
        return "ordering comparison"
    if isinstance(par, (ast.For, ast.comprehension)) and par.iter is node:
        return "iteration"
    if isinstance(par, ast.Starred):
        return "unpacking"
    if isinstance(par, ast.Assign) and par.value is node and isinstance(par.targets[0], (ast.Tuple, ast.List)):
        return "tuple unpacking"
    if isinstance(par, ast.JoinedStr) or isinstance(par, ast.FormattedValue):
        return None
    return None


def dedupe_group_names(pattern: str) -> Tuple[str, Dict[str, List[str]]]:
    """stdlib re rejects repeated group names (the `regex` module allows them):
    alpha-rename the 2nd.. occurrences; returns copies per original name."""
    seen: Dict[str, int] = {}
    copies: Dict[str, List[str]] = {}

    def repl(mo):
        name = mo.group(1)
        seen[name] = seen.get(name, 0) + 1
        new = name if seen[name] == 1 else f"{name}__{seen[name]}"
        copies.setdefault(name, []).append(new)
        return f"(?P<{new}>"

    return _re.sub(r"\(\?P<([A-Za-z_][A-Za-z0-9_]*)>", repl, pattern), copies


def _len_of_set_over(test: ast.AST, base: str, fn=None) -> bool:
    """`len(set(<projection> for .. in base)) == 1` (or the set-comprehension spelling)"""
    if isinstance(test, ast.Compare) and len(test.ops) == 1 and isinstance(test.ops[0], ast.Eq) and isinstance(test.left, ast.Constant):
        import copy as _c
        test = ast.copy_location(ast.Compare(left=test.comparators[0], ops=[ast.Eq()], comparators=[test.left]), test)
    if not (isinstance(test, ast.Compare) and len(test.ops) == 1 and isinstance(test.ops[0], ast.Eq) and isinstance(test.comparators[0], ast.Constant)
            and test.comparators[0].value == 1 and isinstance(test.left, ast.Call) and dotted(test.left.func) == "len" and len(test.left.args) == 1):
        return False
    a = test.left.args[0]
    if isinstance(a, ast.Name) and fn is not None:
        a = Locals(fn).expand(a, test, depth=1)
    if isinstance(a, ast.Call) and dotted(a.func) == "set" and a.args:
        a = a.args[0]
    if isinstance(a, (ast.SetComp, ast.GeneratorExp, ast.ListComp)) and len(a.generators) == 1 and not a.generators[0].ifs:
        return norm(a.generators[0].iter) == base
    return False


class Regexes:
    """pattern constants of eyecite.regexes (materialised) with group info."""

    def __init__(self, data):
        self.consts = data["regex_constants"]
        self._cache: Dict[Tuple[str, str], Dict[str, Any]] = {}

    def info(self, pattern: str, wrap: str, flags: int) -> Dict[str, Any]:
        key = (pattern, wrap, flags)
        if key not in self._cache:
            pat, copies = dedupe_group_names(pattern)
            if wrap == "forward":
                pat = rf"^(?:{pat})"
            elif wrap == "backward":
                pat = rf"(?:{pat})$"
            gi = rx.group_info(pat, flags)
            must_names = set()
            for name, cs in copies.items():
                ids = [gi["names"][c] for c in cs if c in gi["names"]]
                if any(i in gi["must"] for i in ids):
                    must_names.add(name)
            gi["must_names"] = must_names
            gi["all_names"] = set(copies)
            self._cache[key] = gi
        return self._cache[key]


class C04:
    def __init__(self, ctx: Ctx):
        self.ctx = ctx
        self.repo = ctx.repo
        self.typed = Typed.get(ctx.repo.root)
        self.eff = Effects(ctx.repo, self.typed)
        self.data = materialize.load(ctx.repo.root)
        self.rxs = Regexes(self.data)
        reach = self.eff.reachable(ENTRIES)
        dunders = [q for q in self.eff.funcs if q.split(".")[-1] in ("__hash__", "__eq__", "__post_init__", "__init__") and q.startswith(("models.", "annotate."))]
        # the cleaning steps only run for markup_text / clean_steps, which is outside this property's quantifier (plain text); their
        # robustness clauses belong to C20
        self.scope = sorted(q for q in set(reach) | set(self.eff.reachable(dunders)) if not q.startswith("clean."))
        ctx.extra["functions_in_scope"] = len(self.scope)
        ctx.need(len(reach) >= 70, f"call graph from the three entry points is implausibly small ({len(reach)})")

    def funcs(self):
        for q in self.scope:
            fs = self.eff.funcs[q]
            yield q, fs.mod, fs.node

    # ---- T1 ---------------------------------------------------------------------
    def t1_raises(self):
        ctx = self.ctx
        n = 0
        for q, mod, fn in self.funcs():
            for r in [x for x in walk_local(fn) if isinstance(x, ast.Raise)]:
                n += 1
                why = None
                # (c) re-raise inside an except handler
                cur = r
                in_handler = False
                while cur is not fn:
                    cur = cur.parent
                    if isinstance(cur, ast.ExceptHandler):
                        in_handler = True
                if in_handler:
                    why = "re-raise inside an except handler (library fault translated)"
                # (a) guarded by configuration parameters only
                if why is None:
                    g = r.parent
                    tests = []
                    cur = r
                    while cur is not fn:
                        par = cur.parent
                        if isinstance(par, ast.If):
                            tests.append(par.test)
                        cur = par
                    cfg = self._config_names(q, fn)
                    if tests and "self" in cfg and self._self_config_test(mod, fn, tests[0]):
                        why = f"guarded by configuration only (`{norm(tests[0])[:50]}`)"
                    elif tests and all(names_in(t) <= cfg | {"callable", "cleaners_lookup", "self"} for t in tests[:1]) and self._reads_only_config(tests[0], cfg):
                        why = f"guarded by configuration only (`{norm(tests[0])[:50]}`)"
                # (b) unreachable by table agreement
                if why is None and q == "find._extract_full_citation":
                    ok, detail = self.source_table_agreement()
                    if ok:
                        why = f"unreachable: {detail}"
                ctx.ob("T1", f"{q}/raise", why is not None,
                       why or f"explicit `{norm(r)[:60]}` is reachable from an entry point on input-dependent conditions", node=r, mod=mod)
        ctx.extra["T1_raises"] = n

    def _config_names(self, q: str, fn: ast.FunctionDef) -> Set[str]:
        table = {
            "annotate.annotate_citations": {"unbalanced_tags"},
            "clean.clean_text": {"steps"},
            "models.Document.__post_init__": {"self"},
            # the property quantifies over the plain text; markup input and cleaning steps are configuration outside it
            "find.get_citations": {"markup_text", "clean_steps", "tokenizer", "remove_ambiguous"},
        }
        cfg = set(table.get(q, set()))
        # locals computed from configuration only are configuration (`steps = list(clean_steps)`)
        import builtins as _b

        for _ in range(4):
            grew = False
            for s_ in stmts_local(fn.body):
                if isinstance(s_, (ast.Assign, ast.AnnAssign)) and getattr(s_, "value", None) is not None:
                    tg = assigned_names(s_)
                    if tg and not tg <= cfg and all(n_ in cfg or hasattr(_b, n_) for n_ in names_in(s_.value)):
                        others = [x for x in stmts_local(fn.body) if x is not s_ and isinstance(x, (ast.Assign, ast.AnnAssign, ast.AugAssign, ast.For)) and tg & assigned_names(x)
                                  and not (isinstance(x, ast.AnnAssign) and x.value is None)
                                  and not (getattr(x, "value", None) is not None and all(n_ in cfg or hasattr(_b, n_) for n_ in names_in(x.value)))]
                        if not others and "self" not in cfg:
                            cfg |= tg
                            grew = True
            if not grew:
                break
        # a loop variable ranging over a configuration parameter is configuration too
        for n in walk_local(fn):
            if isinstance(n, ast.For) and isinstance(n.target, ast.Name) and isinstance(n.iter, ast.Name) and n.iter.id in cfg:
                cfg.add(n.target.id)
        return cfg

    CONFIG_ATTRS = {"clean_steps", "markup_text"}

    def _self_config_test(self, mod, fn: ast.FunctionDef, test: ast.AST) -> bool:
        """a test in a method that reads nothing but the object's configuration attributes (cleaning steps, markup input), locals computed from
        them alone, names bound inside the test itself, module-level names and builtins -- and that does consult the cleaning steps"""
        import builtins as _b

        def cfg_expr(e, derived):
            bound = {t.id for x in ast.walk(e) if isinstance(x, ast.comprehension) for t in ast.walk(x.target) if isinstance(t, ast.Name)}
            for x in ast.walk(e):
                if isinstance(x, ast.Attribute) and isinstance(x.value, ast.Name) and x.value.id == "self":
                    if x.attr not in self.CONFIG_ATTRS:
                        return False
                elif isinstance(x, ast.Name) and x.id != "self":
                    if not (x.id in derived or x.id in bound or hasattr(_b, x.id) or x.id in mod.imports or mod.toplevel_assign(x.id) is not None):
                        return False
            return True

        derived: Set[str] = set()
        for _ in range(3):
            for s_ in stmts_local(fn.body):
                if isinstance(s_, ast.Assign) and len(s_.targets) == 1 and isinstance(s_.targets[0], ast.Name) and s_.targets[0].id not in derived:
                    nm = s_.targets[0].id
                    defs = [x for x in stmts_local(fn.body) if isinstance(x, (ast.Assign, ast.AugAssign, ast.AnnAssign, ast.For)) and nm in assigned_names(x)]
                    if all(isinstance(x, ast.Assign) and cfg_expr(x.value, derived) for x in defs):
                        derived.add(nm)
        consults = any((isinstance(x, ast.Attribute) and x.attr == "clean_steps") or (isinstance(x, ast.Name) and x.id in derived) for x in ast.walk(test))
        return consults and cfg_expr(test, derived)

    def _reads_only_config(self, test: ast.AST, cfg: Set[str]) -> bool:
        t = norm(test)
        if "self" in cfg:
            return "clean_steps" in t  # markup input without the html step: a configuration error
        return bool(names_in(test) & cfg)

    def source_table_agreement(self) -> Tuple[bool, str]:
        """writer: source= tags given to Reporter(...) in tokenizers; reader: the
        membership chain in find._extract_full_citation; plus the materialised
        table (every citation extractor has >= 1 edition, all sources known)."""
        tm = self.repo.mod("tokenizers")
        writers = set()
        for n in ast.walk(tm.tree):
            if isinstance(n, ast.Call) and dotted(n.func) == "Reporter":
                for k in n.keywords:
                    if k.arg == "source" and isinstance(k.value, ast.Constant):
                        writers.add(k.value.value)
        fn = self.repo.need_func("find._extract_full_citation")
        readers = set()
        for n in walk_local(fn):
            if isinstance(n, ast.Compare) and len(n.ops) == 1 and isinstance(n.ops[0], ast.In) and isinstance(n.left, ast.Constant):
                readers.add(n.left.value)
        bad = []
        for e in self.data["extractors"]:
            if e["ctor"].startswith("CitationToken"):
                eds = e["exact"] + e["variation"]
                if not eds:
                    bad.append(("no editions", e["i"]))
                srcs = {x[1] for x in (e["exact"] or e["variation"])}
                if not srcs <= readers:
                    bad.append((sorted(srcs - readers), e["i"]))
        ok = bool(writers) and writers <= readers and not bad
        return ok, f"source tags written {sorted(writers)} are all handled {sorted(readers)}; every citation extractor has >=1 edition with a known source ({len(bad)} exceptions)"

    # ---- T2 / T3 ----------------------------------------------------------------
    def match_vars(self, fn: ast.FunctionDef) -> Dict[str, Dict[str, Any]]:
        """local name -> how the match was produced"""
        out: Dict[str, Dict[str, Any]] = {}
        for s in stmts_local(fn.body):
            if not (isinstance(s, ast.Assign) and len(s.targets) == 1 and isinstance(s.targets[0], ast.Name) and isinstance(s.value, ast.Call)):
                continue
            c = s.value
            f = dotted(c.func) or ""
            name = s.targets[0].id
            if f == "match_on_tokens":
                pat = c.args[2] if len(c.args) > 2 else None
                fwd = not any(k.arg == "forward" and isinstance(k.value, ast.Constant) and k.value.value is False for k in c.keywords)
                out[name] = {"kind": "tokens", "pattern": pat, "wrap": "forward" if fwd else "backward", "flags": _re.X, "node": s}
            elif f in MATCH_FUNCS and c.args:
                fl = 0
                for k in c.keywords:
                    if k.arg == "flags":
                        fl = _re.X if "X" in norm(k.value) else 0
                out[name] = {"kind": "re", "pattern": c.args[0], "wrap": "", "flags": fl, "node": s}
            elif isinstance(c.func, ast.Attribute) and c.func.attr in ("match", "search", "fullmatch") and "regex" in norm(c.func.value):
                out[name] = {"kind": "compiled", "pattern": None, "wrap": "", "flags": 0, "node": s}
        return out

    def pattern_text(self, mod, expr: Optional[ast.AST]) -> Optional[str]:
        if expr is None:
            return None
        if isinstance(expr, ast.Constant) and isinstance(expr.value, str):
            return expr.value
        if isinstance(expr, ast.Name):
            return self.rxs.consts.get(expr.id)
        return None

    def t2_t3(self):
        ctx = self.ctx
        n2 = n3 = 0
        for q, mod, fn in self.funcs():
            mv = self.match_vars(fn)
            # a function returning a possibly-None match (match_on_tokens) is covered at its callers
            for name, info in mv.items():
                for n in walk_local(fn):
                    if not (isinstance(n, ast.Name) and n.id == name and isinstance(n.ctx, ast.Load)):
                        continue
                    if _comp_bound(n, name):
                        continue
                    how = is_deref(n)
                    par = n.parent
                    passed = isinstance(par, ast.Call) and (n in par.args or any(k.value is n for k in par.keywords)) and dotted(par.func) not in ("bool", "isinstance", "print")
                    if how is None and not passed:
                        continue
                    if isinstance(par, ast.Return):
                        continue
                    n2 += 1
                    ok = guarded(fn, n, {name})
                    ctx.ob("T2", f"{q}/match:{name}", ok,
                           f"`{norm(par)[:60]}` uses a regex match result ({how or 'passed to a callee that dereferences it'}) that may be None; "
                           "every such use must be dominated by a truthiness / `is not None` test", node=n, mod=mod)
            # T3: optional groups
            aliases: Dict[str, Tuple[str, Any]] = {}
            for s in stmts_local(fn.body):
                if isinstance(s, ast.Assign) and len(s.targets) == 1 and isinstance(s.targets[0], ast.Name) and isinstance(s.value, ast.Subscript) \
                        and isinstance(s.value.value, ast.Name) and s.value.value.id in mv and isinstance(s.value.slice, ast.Constant):
                    aliases[s.targets[0].id] = (s.value.value.id, s.value.slice.value)
            for n in walk_local(fn):
                grp = None
                var = None
                texts: Set[str] = set()
                if isinstance(n, ast.Subscript) and isinstance(n.value, ast.Name) and n.value.id in mv and isinstance(n.slice, ast.Constant) and isinstance(n.ctx, ast.Load) \
                        and not _comp_bound(n.value, n.value.id):
                    var, grp = n.value.id, n.slice.value
                    texts = {norm(n)}
                elif isinstance(n, ast.Name) and n.id in aliases and isinstance(n.ctx, ast.Load):
                    var, grp = aliases[n.id]
                    texts = {n.id}
                if var is None:
                    continue
                how = is_deref(n)
                par = n.parent
                callee_unsafe = None
                if how is None and isinstance(par, ast.Call) and n in par.args and isinstance(par.func, ast.Name):
                    callee = self._callee(mod, par.func.id)
                    if callee is not None:
                        idx = par.args.index(n)
                        if not self._param_none_safe(callee, idx):
                            callee_unsafe = par.func.id
                if how is None and callee_unsafe is None:
                    continue
                n3 += 1
                info = mv[var]
                pat = self.pattern_text(mod, info["pattern"])
                must = None
                if pat is not None:
                    gi = self.rxs.info(pat, info["wrap"], info["flags"])
                    if isinstance(grp, int):
                        must = grp in gi["must"] or grp == 0
                    else:
                        must = grp in gi["must_names"]
                        if grp not in gi["all_names"]:
                            ctx.ob("T7", f"{q}/group:{grp}", False, f"group {grp!r} is not defined by the pattern this match comes from", node=n, mod=mod)
                ok = bool(must) or guarded(fn, n, texts | {f"{var}[{grp!r}]"})
                ctx.ob("T3", f"{q}/group:{var}[{grp!r}]", ok,
                       f"`{norm(par)[:60]}` dereferences a regex group ({how or 'passed to ' + str(callee_unsafe) + ', which dereferences it'}); the group "
                       f"{'participates in every match' if must else 'may be None (it does not participate in every match)' if must is not None else 'comes from a pattern that cannot be linked'}"
                       f"{'' if ok else ' and no truthiness test dominates the use'}", node=n, mod=mod)
        ctx.extra["T2_uses"] = n2
        ctx.extra["T3_group_derefs"] = n3

    def _callee(self, mod, name: str) -> Optional[ast.FunctionDef]:
        f = self.repo.func(f"{mod.name}.{name}")
        if f is not None:
            return f
        origin = mod.imports.get(name)
        if origin and origin.startswith("eyecite."):
            parts = origin.split(".")
            return self.repo.func(f"{parts[-2]}.{parts[-1]}")
        return None

    def _param_none_safe(self, fn: ast.FunctionDef, idx: int) -> bool:
        ps = [a.arg for a in fn.args.args]
        if idx >= len(ps):
            return False
        p = ps[idx]
        for n in walk_local(fn):
            if isinstance(n, ast.Name) and n.id == p and isinstance(n.ctx, ast.Load):
                how = is_deref(n)
                par = n.parent
                risky = how is not None or (isinstance(par, ast.Call) and n in par.args and dotted(par.func) in ("int", "float", "len", "re.match", "re.search", "re.sub", "enumerate"))
                if risky and not guarded(fn, n, {p}):
                    return False
        return True

    # ---- T3b values that may be None because their producer may return None -------------
    def _may_return_none(self, fn: ast.FunctionDef) -> bool:
        if fn.returns is not None and ("Optional" in norm(fn.returns) or "None" in norm(fn.returns).split("[")[0] or "| None" in norm(fn.returns)):
            return True
        rets = [r for r in walk_local(fn) if isinstance(r, ast.Return)]
        has_none = any(r.value is None or (isinstance(r.value, ast.Constant) and r.value.value is None) for r in rets)
        has_val = any(r.value is not None and not (isinstance(r.value, ast.Constant) and r.value.value is None) for r in rets)
        return has_none and has_val

    def t3b_optional_results(self):
        ctx = self.ctx
        n = 0
        for q, mod, fn in self.funcs():
            carriers: Dict[str, str] = {}
            for s_ in stmts_local(fn.body):
                if isinstance(s_, ast.Assign) and len(s_.targets) == 1 and isinstance(s_.targets[0], (ast.Name, ast.Attribute)) and isinstance(s_.value, ast.Call) \
                        and isinstance(s_.value.func, ast.Name):
                    callee = self._callee(mod, s_.value.func.id)
                    if callee is not None and self._may_return_none(callee):
                        carriers[norm(s_.targets[0])] = s_.value.func.id
                if isinstance(s_, ast.Assign) and len(s_.targets) == 1 and isinstance(s_.targets[0], (ast.Name, ast.Attribute)) and isinstance(s_.value, ast.BoolOp) \
                        and isinstance(s_.value.op, ast.Or) and isinstance(s_.value.values[-1], ast.Constant) and s_.value.values[-1].value is None:
                    carriers[norm(s_.targets[0])] = "`.. or None`"
            if not carriers:
                continue
            for x in walk_local(fn):
                if not isinstance(x, (ast.Name, ast.Attribute)) or not isinstance(getattr(x, "ctx", None), ast.Load):
                    continue
                t = norm(x)
                if t not in carriers:
                    continue
                how = is_deref(x)
                par = x.parent
                if how is None and isinstance(par, ast.Call) and x in par.args and isinstance(par.func, ast.Name):
                    callee = self._callee(mod, par.func.id)
                    if callee is not None and not self._param_none_safe(callee, par.args.index(x)):
                        how = f"passed to {par.func.id}(), which dereferences it"
                if how is None:
                    continue
                n += 1
                ok = guarded(fn, x, {t})
                ctx.ob("T3b", f"{q}/maybe-None:{t}", ok,
                       f"`{norm(par)[:60]}`: `{t}` was assigned from {carriers[t]}, which may be None, and is dereferenced ({how}) without a dominating "
                       "None / truthiness / isinstance test", node=x, mod=mod)
        ctx.extra["T3b_optional_result_derefs"] = n

    # ---- T4 the nullable page group --------------------------------------------------
    def t4_nullable_groups(self):
        ctx = self.ctx
        # which keys are set to None by the code itself
        nullable = set()
        for q, mod, fn in self.repo.all_funcs():
            for n in walk_local(fn):
                if isinstance(n, ast.Assign) and isinstance(n.targets[0], ast.Subscript) and "groups" in norm(n.targets[0].value) \
                        and isinstance(n.targets[0].slice, ast.Constant) and isinstance(n.value, ast.Constant) and n.value.value is None:
                    nullable.add(n.targets[0].slice.value)
        ctx.extra["nullable_group_keys"] = sorted(nullable)
        ctx.need(nullable, "no `groups[<key>] = None` store found (anchor of the placeholder-page rule)")
        n_reads = 0
        for q, mod, fn in self.repo.all_funcs():
            for n in walk_local(fn):
                key = None
                expr = None
                if isinstance(n, ast.Subscript) and isinstance(n.ctx, ast.Load) and isinstance(n.slice, ast.Constant) and n.slice.value in nullable \
                        and norm(n.value).endswith("groups"):
                    key, expr = n.slice.value, n
                elif isinstance(n, ast.Call) and isinstance(n.func, ast.Attribute) and n.func.attr == "get" and norm(n.func.value).endswith("groups") \
                        and n.args and isinstance(n.args[0], ast.Constant) and n.args[0].value in nullable:
                    key, expr = n.args[0].value, n
                if expr is None:
                    continue
                n_reads += 1
                how = is_deref(expr)
                par = expr.parent
                passed_risky = isinstance(par, ast.Call) and expr in par.args and dotted(par.func) in ("int", "float", "len")
                ok, why = True, "value is only compared / stored / passed on"
                if how is not None or passed_risky:
                    texts = {norm(expr)}
                    # `.get(k, "")` does NOT protect: the default is used only when the key is absent, and the key is present with value None
                    ok = guarded(fn, expr, texts | {norm(expr).replace('"', "'")}) or self._isdigit_guard(fn, expr)
                    why = f"dereferenced ({how or dotted(par.func) + '()'})" + ("" if ok else
                          " with no None test dominating it; a `.get(key, default)` default does not apply because the key is present with value None")
                # replace(None, ..) style: passed as an argument to str methods
                if isinstance(par, ast.Call) and expr in par.args and isinstance(par.func, ast.Attribute) and par.func.attr in ("replace", "startswith", "endswith", "join", "split"):
                    ok = guarded(fn, expr, {norm(expr)}) or self._corrected_page_guard(fn, expr)
                    why = f"passed to str.{par.func.attr}()" + ("" if ok else " without a None test")
                ctx.ob("T4", f"{q}/groups[{key!r}]", ok, f"`{norm(par)[:70]}`: {why}", node=expr, mod=mod)
        ctx.extra["T4_reads"] = n_reads

    def _isdigit_guard(self, fn, expr) -> bool:
        """int(groups['page']) after `(groups.get('page') or '').isdigit()` returned truthy on the path."""
        for p in paths_of(fn):
            hit = False
            seen = False
            for ev in p.events:
                node = ev[1]
                if ev[0] == "cond" and ".isdigit()" in norm(node) and "page" in norm(node) and " or " in norm(node) and ev[2]:
                    seen = True
                if ev[0] in ("stmt", "cond") and any(n is expr for n in ast.walk(node)):
                    hit = True
                    if not seen:
                        return False
            if hit:
                continue
        return any(any(n is expr for n in ast.walk(ev[1])) for p in paths_of(fn) for ev in p.events if ev[0] in ("stmt", "cond"))

    def _corrected_page_guard(self, fn, expr) -> bool:
        """the value passed is compared with a `corrected_page()` result that is truthy: corrected_page() returns None iff the page is None."""
        cp = self.repo.func("models.ResourceCitation.corrected_page")
        if cp is None:
            return False
        # summary, path-based: every path of corrected_page() that returns something other than None has established that the page
        # group is not None (so a truthy result implies a non-None page)
        S_ = cp.args.args[0].arg
        page_vars = {norm(x.targets[0]) for x in stmts_local(cp.body) if isinstance(x, ast.Assign) and len(x.targets) == 1
                     and norm(x.value) in (f"{S_}.groups.get('page')", f"{S_}.groups['page']")}
        page_texts = page_vars | {f"{S_}.groups.get('page')", f"{S_}.groups['page']"}
        summary, n_val = True, 0
        for p in enumerate_paths(cp.body):
            if p.exit != "return":
                if p.exit == "fall":
                    continue  # implicit None
                summary = False
                continue
            rv = p.exit_node.value
            if rv is None or (isinstance(rv, ast.Constant) and rv.value is None):
                continue
            n_val += 1
            known = False
            for ev in p.events:
                if ev[0] == "cond":
                    pt = presence_test(ev[1], ev[2])
                    if pt and pt[0] in page_texts and pt[1]:
                        known = True
            if not known:
                summary = False
        if not summary or n_val == 0:
            return False
        # dominated by truthiness of a local assigned from self.corrected_page()
        locs = [norm(s.targets[0]) for s in stmts_local(fn.body) if isinstance(s, ast.Assign) and isinstance(s.value, ast.Call) and norm(s.value.func).endswith("corrected_page")]
        return any(guarded(fn, expr, {l}) for l in locs)

    # ---- T5 conversions ----------------------------------------------------------------
    def t5_conversions(self):
        ctx = self.ctx
        n = 0
        for q, mod, fn in self.funcs():
            uses_regex_module = "regex" in mod.imports.get("re", "re")
            mv = self.match_vars(fn)
            for c in [x for x in walk_local(fn) if isinstance(x, ast.Call) and dotted(x.func) in ("int", "float") and x.args]:
                arg = c.args[0]
                t = self.typed.type_of(mod, arg) or ""
                if t in ("builtins.int", "int", "builtins.float", "builtins.bool"):
                    continue
                n += 1
                ok, why = False, ""
                # (i) inside try/except ValueError
                cur = c
                while cur is not fn:
                    par = cur.parent
                    if isinstance(par, ast.Try) and cur in par.body and any(h.type is None or "ValueError" in norm(h.type) or norm(h.type) == "Exception" for h in par.handlers):
                        ok, why = True, "inside try/except ValueError"
                    cur = par
                # (ii) a must-participating \d+ group of a stdlib-re match
                if not ok and isinstance(arg, ast.Subscript) and isinstance(arg.value, ast.Name) and arg.value.id in mv and isinstance(arg.slice, ast.Constant):
                    info = mv[arg.value.id]
                    pat = self.pattern_text(mod, info["pattern"])
                    if pat is not None and not uses_regex_module:
                        gi = self.rxs.info(pat, info["wrap"], info["flags"])
                        g = arg.slice.value
                        gid = g if isinstance(g, int) else gi["names"].get(g)
                        bound = _group_digit_bound(pat, gid, info["flags"])
                        if gid in gi["must"] and bound is not None and bound <= 4300 and guarded(fn, arg.value, {arg.value.id}):
                            ok, why = True, (f"group {g!r} is \\d{{..{bound}}} of a stdlib `re` match: same Unicode digit table as int(), always participates, and "
                                             "short enough for int()'s digit limit")
                        elif gid in gi["must"] and _group_is_digits(pat, gid, info["flags"]):
                            why = "the group is an unbounded \\d+: int() raises ValueError beyond sys.get_int_max_str_digits() (4300) digits"
                    elif uses_regex_module:
                        why = "the match comes from the third-party `regex` module, whose \\d follows a newer Unicode table than int() accepts"
                # an isdigit() check is NOT enough: the digit run may exceed int()'s limit of 4300 digits
                if not ok and not why and self._isdigit_guard(fn, arg):
                    why = "an isdigit() check does not bound the length: int() raises ValueError beyond 4300 digits (sys.get_int_max_str_digits())"
                ctx.ob("T5", f"{q}/{dotted(c.func)}({norm(arg)[:30]})", ok,
                       f"`{norm(c)[:50]}` can raise ValueError/TypeError on hostile text unless it is inside try/except ValueError, or its argument is a "
                       f"must-participating stdlib \\d{{1,n}} group with n <= 4300: {why or 'none of these'}", node=c, mod=mod)
        ctx.extra["T5_conversions"] = n

    # ---- T6 constant-index subscripts ---------------------------------------------------
    def t6_indexing(self):
        ctx = self.ctx
        n = 0
        for q, mod, fn in self.funcs():
            mv = self.match_vars(fn)
            for s in [x for x in walk_local(fn) if isinstance(x, ast.Subscript) and isinstance(x.ctx, ast.Load)]:
                idx = s.slice
                if not (isinstance(idx, ast.Constant) and isinstance(idx.value, int)) and not (
                        isinstance(idx, ast.UnaryOp) and isinstance(idx.op, ast.USub) and isinstance(idx.operand, ast.Constant)):
                    continue
                base = s.value
                if isinstance(base, ast.Name) and base.id in mv:
                    continue  # match group access (T3)
                t = self.typed.type_of(mod, base) or ""
                tb = t.replace("builtins.", "")
                if not (tb.startswith(("list[", "tuple[", "typing.Sequence[", "Sequence[")) or tb == "str" or isinstance(base, ast.Call) and dotted(base.func) in ("list", "sorted")):
                    continue
                if tb.startswith("tuple[") and "..." not in tb:
                    continue  # fixed-size tuple: index checked by the type checker
                n += 1
                bt = norm(base)
                ok = guarded(fn, s, {bt}) or _established_nonempty(fn, s, bt) or self._index_exception(q, fn, s, bt)
                ctx.ob("T6", f"{q}/{norm(s)[:40]}", ok,
                       f"constant index into `{bt[:40]}` (type {tb[:40]}): IndexError on an empty sequence unless a length / emptiness test dominates it",
                       node=s, mod=mod)
        ctx.extra["T6_subscripts"] = n

    def t6b_loop_indices(self):
        """an index that a while-loop moves must be bounded by the loop condition itself"""
        ctx = self.ctx
        n = 0
        for q, mod, fn in self.funcs():
            for w in [x for x in walk_local(fn) if isinstance(x, ast.While)]:
                moved = {norm(a.target): a for a in stmts_local(w.body) if isinstance(a, ast.AugAssign) and isinstance(a.op, (ast.Add, ast.Sub))}
                for sub in [x for x in ast.walk(w.test) if isinstance(x, ast.Subscript) and norm(x.slice) in moved]:
                    idx = norm(sub.slice)
                    base = norm(sub.value)
                    n += 1
                    conj = [norm(v) for v in (w.test.values if isinstance(w.test, ast.BoolOp) and isinstance(w.test.op, ast.And) else [w.test])]
                    up = isinstance(moved[idx].op, ast.Add)
                    bound = any(c in (f"{idx} < len({base})", f"len({base}) > {idx}") for c in conj) if up else any(
                        c in (f"{idx} >= 0", f"{idx} > 0", f"0 <= {idx}", f"{idx} > -1", f"0 < {idx}", f"-1 < {idx}") for c in conj)
                    ctx.ob("T6", f"{q}/while:{base}[{idx}]", bound,
                           f"`while ..{base}[{idx}]..` {'increments' if up else 'decrements'} `{idx}` in its body; the condition must bound it "
                           f"({'`' + idx + ' < len(' + base + ')`' if up else '`' + idx + ' >= 0`'}) or the subscript runs off the sequence (IndexError at the end of the text)",
                           node=w, mod=mod)
        ctx.extra["T6b_loop_indices"] = n

    def _index_exception(self, q: str, fn, s: ast.Subscript, bt: str) -> bool:
        # one line of reason per recorded invariant
        rets = [r for r in walk_local(fn) if isinstance(r, ast.Return) and isinstance(r.value, ast.Name)]
        if q == "helpers.filter_citations" and any(r.value.id == bt for r in rets) and bt not in [a.arg for a in fn.args.args]:
            return True  # the output list: seeded with one element and only popped when followed by an append (C03 R-C03-2)
        is_sorted_copy = any(isinstance(x, ast.Assign) and norm(x.targets[0]) == bt and isinstance(x.value, ast.Call) and dotted(x.value.func) == "sorted"
                             for x in stmts_local(fn.body))
        if q == "helpers.filter_citations" and is_sorted_copy:
            # sorted copy of the span-de-duplicated input, which was tested non-empty first (de-duplication keeps >= 1 element)
            first = effective_body(fn)[0]
            p0 = fn.args.args[0].arg
            return isinstance(first, ast.If) and norm(first.test) == f"not {p0}" and isinstance(first.body[0], ast.Return)
        if q == "resolve._resolve_shortcase_citation":
            # selected under len(set(<resource projection of the list>)) == 1, which implies the list is non-empty (C07 R-C07-1)
            base = bt.split("[")[0]
            cur = s
            while cur is not fn:
                par = cur.parent
                if isinstance(par, ast.If) and cur in par.body and _len_of_set_over(par.test, base, fn):
                    return True
                cur = par
            from ..paths import guards_of, stmt_of
            gs, _n = guards_of(paths_of(fn), stmt_of(s))
            return any(o_ and _len_of_set_over(c_, base, fn) for c_, o_ in gs)
        if q == "tokenizers.token_is_from_nominative_reporter":
            # every citation extractor has >= 1 edition, so if exact is empty variation is not: `variation[0]` on the else side of an
            # exact-editions test, or `(exact or variation)[0]` through a local
            both = bt.endswith(".variation_editions")
            if isinstance(s.value, ast.Name):
                ds = [x.value for x in stmts_local(fn.body) if isinstance(x, ast.Assign) and norm(x.targets[0]) == bt]
                both = bool(ds) and ((len(ds) == 1 and isinstance(ds[0], ast.BoolOp) and isinstance(ds[0].op, ast.Or) and len(ds[0].values) == 2
                                      and norm(ds[0].values[0]).endswith(".exact_editions") and norm(ds[0].values[1]).endswith(".variation_editions"))
                                     or (len(ds) == 2 and {norm(d).split(".")[-1] for d in ds} == {"exact_editions", "variation_editions"}))
            if both:
                ok, _ = self.source_table_agreement()
                return ok
            return False
        if q.startswith("resolve.") and "[last_resolution]" in bt:
            return guarded(fn, s, {"last_resolution"})  # key exists with a non-empty list once a resolution was made (C06 O3)
        return False

    # ---- T7 literal group keys against the generated patterns ---------------------------
    def t7_group_keys(self):
        ctx = self.ctx
        exts = self.data["extractors"]
        infos = {}

        def names_of(e):
            k = e["regex"]
            if k not in infos:
                infos[k] = set(rx.group_info(e["regex"], e["flags"])["names"])
            return infos[k]

        def check(construct, node, mod, key, selector, what):
            missing = [e["i"] for e in exts if selector(e) and key not in names_of(e)]
            total = sum(1 for e in exts if selector(e))
            ctx.ob("T7", construct, not missing and total > 0,
                   f"groups[{key!r}] is read without .get(): the key must be a named group of every pattern that can produce this token ({what}: "
                   f"{total} patterns, {len(missing)} lack it)", node=node, mod=mod)

        is_cit = lambda e: e["ctor"].startswith("CitationToken")  # noqa: E731
        is_case = lambda e: is_cit(e) and any(x[1] == "reporters" for x in (e["exact"] or e["variation"]))  # noqa: E731
        for q, mod, fn in self.funcs():
            for n in walk_local(fn):
                if not (isinstance(n, ast.Subscript) and isinstance(n.ctx, ast.Load) and isinstance(n.slice, ast.Constant) and isinstance(n.slice.value, str)
                        and norm(n.value).endswith(".groups")):
                    continue
                key = n.slice.value
                base_t = norm(n.value)
                if self._isdigit_guard(fn, n) or guarded(fn, n, {f"{base_t}.get({key!r})"}) or guarded(fn, n, {f"{key!r} in {base_t}"}):
                    continue  # presence of the key is established on every path to this read
                recv = n.value.value
                cls = eyecite_class(self.typed.type_of(mod, recv)) if isinstance(n.value, ast.Attribute) else None
                if q == "find._extract_shortform_citation":
                    check(f"{q}/groups[{key!r}]", n, mod, key, lambda e: is_cit(e) and e["short"], "short-form extractors")
                elif q in ("models.CaseCitation.__hash__",):
                    check(f"{q}/groups[{key!r}]", n, mod, key, is_case, "case-reporter extractors")
                elif q in ("models.ResourceCitation.corrected_reporter", "models.ResourceCitation.corrected_citation"):
                    check(f"{q}/groups[{key!r}]", n, mod, key, is_cit, "citation extractors")
                elif cls is not None and self.repo.is_subclass(cls, "CaseCitation"):
                    # the receiver's static class is a case citation: only extractors with a `reporters` edition construct it
                    check(f"{q}/groups[{key!r}]", n, mod, key, is_case, "case-reporter extractors")
                elif cls == "StopWordToken" or key == "stop_word":
                    check(f"{q}/groups[{key!r}]", n, mod, key, lambda e: e["ctor"].startswith("StopWordToken"), "stop-word extractor")
                else:
                    check(f"{q}/groups[{key!r}]", n, mod, key, is_cit, "citation extractors")

    # ---- T8 dynamic text in patterns ------------------------------------------------------
    def t8_escaping(self):
        ctx = self.ctx
        n = 0
        for q, mod, fn in self.funcs():
            for c in [x for x in walk_local(fn) if isinstance(x, ast.Call)]:
                f = dotted(c.func) or ""
                if f not in ("re.compile", "re.search", "re.match", "re.finditer", "re.sub", "re.fullmatch", "re.findall", "re.split") or not c.args:
                    continue
                pat = c.args[0]
                self._t8_mod = mod
                dyn = self._dynamic_parts(fn, pat)
                if isinstance(pat, ast.Attribute) and pat.attr == "regex":
                    continue  # the extractor's own complete pattern, not text interpolated into one
                if not dyn:
                    continue
                n += 1
                bad = [d for d in dyn if not self._escaped(fn, d)]
                ctx.ob("T8", f"{q}/pattern", not bad,
                       f"text interpolated into a regex must pass through re.escape (or be a constant / a name from a literal list); unescaped: "
                       f"{[norm(b)[:30] for b in bad]}", node=c, mod=mod)
                if f == "re.sub" and len(c.args) >= 2:
                    rep = c.args[1]
                    if not isinstance(rep, (ast.Constant, ast.Lambda)) and not (isinstance(rep, ast.Name)):
                        dynr = self._dynamic_parts(fn, rep)
                        ctx.ob("T8", f"{q}/replacement", not dynr,
                               f"user text in a re.sub replacement *template* is interpreted (backslashes, group references): {[norm(b)[:30] for b in dynr]}",
                               node=c, mod=mod)
        ctx.extra["T8_dynamic_patterns"] = n

    def _dynamic_parts(self, fn, e: ast.AST, depth=0) -> List[ast.AST]:
        if isinstance(e, ast.Constant):
            return []
        if isinstance(e, ast.JoinedStr):
            out = []
            for v in e.values:
                if isinstance(v, ast.FormattedValue):
                    out += self._dynamic_parts(fn, v.value, depth)
            return out
        if isinstance(e, ast.BinOp) and isinstance(e.op, (ast.Add, ast.Mod)):
            return self._dynamic_parts(fn, e.left, depth) + self._dynamic_parts(fn, e.right, depth)
        if isinstance(e, ast.Call) and isinstance(e.func, ast.Attribute) and e.func.attr == "join" and isinstance(e.func.value, ast.Constant):
            return self._dynamic_parts(fn, e.args[0], depth) if e.args else []
        if isinstance(e, ast.Call) and isinstance(e.func, ast.Attribute) and e.func.attr == "format":
            out = self._dynamic_parts(fn, e.func.value, depth)
            for a in e.args:
                out += self._dynamic_parts(fn, a, depth)
            return out
        if isinstance(e, ast.Name) and depth < 4:
            defs = [s for s in stmts_local(fn.body) if isinstance(s, (ast.Assign, ast.AnnAssign)) and any(
                isinstance(t, ast.Name) and t.id == e.id for t in (s.targets if isinstance(s, ast.Assign) else [s.target])) and s.value is not None]
            if defs and e.id not in [a.arg for a in fn.args.args]:
                out = []
                for d in defs:
                    out += self._dynamic_parts(fn, d.value, depth + 1)
                return out
            mod_const = self.rxs.consts.get(e.id)
            if mod_const is not None:
                return []
            # a module-level name of the function's own module (or imported from a sibling module) bound once to an expression
            # without dynamic parts is a constant of the program
            m_ = getattr(self, "_t8_mod", None)
            if m_ is not None and e.id not in [a.arg for a in fn.args.args + fn.args.kwonlyargs]:
                owner = m_
                origin = m_.imports.get(e.id)
                if origin and origin.startswith("eyecite.") and origin.split(".")[1] in self.ctx.repo.modules:
                    owner = self.ctx.repo.modules[origin.split(".")[1]]
                binds = [s for s in owner.tree.body if isinstance(s, (ast.Assign, ast.AnnAssign)) and s.value is not None and any(
                    isinstance(t, ast.Name) and t.id == (origin.split(".")[-1] if owner is not m_ else e.id)
                    for t in (s.targets if isinstance(s, ast.Assign) else [s.target]))]
                if len(binds) == 1 and not any(isinstance(x, ast.Global) and e.id in x.names for x in ast.walk(owner.tree)):
                    mfn = ast.parse("def _m(): pass").body[0]
                    return [] if not self._dynamic_parts(mfn, binds[0].value, depth + 1) else [e]
            return [e]
        if isinstance(e, (ast.ListComp, ast.GeneratorExp)):
            return self._dynamic_parts(fn, e.elt, depth)
        if isinstance(e, (ast.List, ast.Tuple)):
            out = []
            for x in e.elts:
                out += self._dynamic_parts(fn, x, depth)
            return out
        return [e]

    def _escaped(self, fn, d: ast.AST) -> bool:
        t = norm(d)
        if t.startswith("re.escape("):
            return True
        if fn is self.repo.hyperscan_converter() and isinstance(d, ast.Call) and dotted(d.func) == "set" and len(d.args) == 1 and isinstance(d.args[0], ast.Name):
            # members of a character class drawn from `[c for c in regex if len(c.encode('utf8')) > 1]`: non-ASCII characters only,
            # none of which is a metacharacter inside [...]
            return any(isinstance(s, ast.Assign) and norm(s.targets[0]) == d.args[0].id and isinstance(s.value, ast.ListComp) and s.value.generators[0].ifs
                       and ".encode('utf8')) > 1" in norm(s.value.generators[0].ifs[0]) for s in stmts_local(fn.body))
        if isinstance(d, ast.Call) and isinstance(d.func, ast.Attribute) and d.func.attr in ("replace", "strip") and self._escaped(fn, d.func.value):
            return True
        if isinstance(d, ast.Call) and dotted(d.func) == "re.sub" and len(d.args) == 3 and self._escaped(fn, d.args[2]) and self._escaped(fn, d.args[1]):
            return True
        if isinstance(d, ast.Name):
            # a name bound by iterating a literal list/tuple of constants, or ReferenceCitation.name_fields
            for n in walk_local(fn):
                if isinstance(n, (ast.For, ast.comprehension)) and isinstance(n.target, ast.Name) and n.target.id == d.id:
                    it = n.iter
                    if isinstance(it, (ast.List, ast.Tuple)) and all(isinstance(x, ast.Constant) for x in it.elts):
                        return True
                    if norm(it).endswith(".name_fields"):
                        return True
                # unpacked from the rows of a literal table: `for pattern, replacement in (("a", "b"), ...)`
                if isinstance(n, (ast.For, ast.comprehension)) and isinstance(n.target, (ast.Tuple, ast.List)) and any(
                        isinstance(t, ast.Name) and t.id == d.id for t in n.target.elts):
                    it = n.iter
                    if isinstance(it, (ast.List, ast.Tuple)) and it.elts and all(
                            isinstance(r, (ast.Tuple, ast.List)) and all(isinstance(x, ast.Constant) for x in r.elts) for r in it.elts):
                        return True
            # assigned from an escaped expression
            defs = [s for s in stmts_local(fn.body) if isinstance(s, ast.Assign) and norm(s.targets[0]) == d.id]
            if defs and all(self._escaped(fn, s.value) for s in defs):
                return True
            if d.id in self.rxs.consts:
                return True
            if defs and all(self._escaped(fn, s.value) or not self._dynamic_parts(fn, s.value) for s in defs):
                return True
            if d.id == "regex" and fn.name in ("match_on_tokens",):
                return True  # the pattern parameter itself (a module constant at every call site)
        return False

    # ---- T11 document text handed to a parser of another library ------------------------------
    PARSERS = {
        # callee (import-resolved) -> exception names that together cover what it raises on arbitrary str input
        "lxml.etree.fromstring": ({"XMLSyntaxError", "LxmlError", "Exception"}, "lxml reports every malformed / non-XML-compatible string (controls, surrogates) as XMLSyntaxError"),
        "lxml.html.fromstring": ({"ParserError", "LxmlError", "Exception"}, "lxml.html raises ParserError on an empty document"),
    }
    PARSER_NAMES = ("fromstring", "XML", "HTML", "parse", "loads", "literal_eval", "fromstringlist", "document_fromstring", "fragment_fromstring")

    def t11_foreign_parsers(self):
        ctx = self.ctx
        n = 0
        for q, mod, fn in self.funcs():
            if mod.name == "clean":
                continue  # cleaning steps are outside this property's entry points (C20)
            for c in [x for x in walk_local(fn) if isinstance(x, ast.Call) and isinstance(x.func, ast.Attribute) and x.func.attr in self.PARSER_NAMES]:
                d = dotted(c.func)
                if d is None or not c.args:
                    continue
                head = d.split(".")[0]
                origin = mod.imports.get(head)
                if origin is None or origin.split(".")[0] in ("eyecite", "re", "regex", "json"):
                    continue
                full = ".".join([origin] + d.split(".")[1:])
                n += 1
                known = self.PARSERS.get(full)
                caught = set()
                cur = c
                while cur is not fn:
                    par = cur.parent
                    if isinstance(par, ast.Try) and cur in par.body:
                        for h in par.handlers:
                            caught |= {"Exception"} if h.type is None else {x.split(".")[-1] for x in (
                                [norm(e) for e in h.type.elts] if isinstance(h.type, ast.Tuple) else [norm(h.type)])}
                    cur = par
                ok = known is not None and bool(caught & known[0])
                ctx.ob("T11", f"{q}/{full}", ok,
                       (f"`{norm(c)[:50]}` parses document text with {full}: " + (known[1] + f"; handlers catch {sorted(caught)}" if known else
                        "a parser whose failure modes on arbitrary strings (lone surrogates, control characters, NUL) are not in the table of checked "
                        f"library facts; handlers catch {sorted(caught)}")), node=c, mod=mod)
        ctx.extra["T11_foreign_parser_calls"] = n

    # ---- T12 the subject of a regex call is a str ----------------------------------------------
    RX_FUNCS = {"search": 1, "match": 1, "fullmatch": 1, "split": 1, "findall": 1, "finditer": 1, "sub": 2, "subn": 2}

    def t12_regex_subjects(self):
        """`re.search(p, x)` raises TypeError unless x is a str (a Token is a UserString, not a str; None is neither).  The static type of the subject,
        after the narrowing the type checker applies for isinstance / truth tests, must be exactly str."""
        from ..external import origin_of
        ctx = self.ctx
        n = 0
        for q, mod, fn in self.funcs():
            for c in [x for x in walk_local(fn) if isinstance(x, ast.Call) and isinstance(x.func, ast.Attribute) and x.func.attr in self.RX_FUNCS]:
                o = origin_of(mod.imports, c.func) or ""
                pos = None
                if o.split(".")[0] in ("re", "regex") and o.count(".") == 1:
                    pos = self.RX_FUNCS[c.func.attr]
                else:
                    rt = self.typed.type_of(mod, c.func.value) or ""
                    if rt.startswith(("re.Pattern", "typing.Pattern", "regex.Pattern")):
                        pos = self.RX_FUNCS[c.func.attr] - 1
                if pos is None:
                    continue
                arg = c.args[pos] if len(c.args) > pos else next((k.value for k in c.keywords if k.arg == "string"), None)
                if arg is None or isinstance(arg, ast.Starred):
                    continue
                t = (self.typed.type_of(mod, arg) or "").replace("builtins.", "")
                if not t or t.startswith("Any") or t == "typing.Any":
                    continue
                # `str | Any` (what re.split / m.groups() elements are typed as): the Any part is unknown, the known part is str
                parts = [x.strip() for x in (t[6:-1].split(",") if t.startswith("Union[") else t.split("|"))]
                if len(parts) > 1 and all(x in ("str", "Any", "typing.Any") for x in parts):
                    continue
                n += 1
                ctx.ob("T12", f"{q}/{norm(c.func)[:30]}({norm(arg)[:30]})", t in ("str", "LiteralString") or t.startswith("Literal["),
                       f"the subject `{norm(arg)[:40]}` of a regex call has static type `{t[:70]}`; anything but str (a Token is a UserString, a missing value is None) "
                       "makes the regex module raise TypeError", node=c, mod=mod)
        ctx.extra["T12_regex_subjects"] = n

    # ---- T13 look-ups in constant tables ------------------------------------------------------
    def t13_table_lookups(self):
        """`TABLE[key]` on a module-level dict literal with a computed key raises KeyError for every key the table lacks.  A key taken from the
        text (a regex group, lower-cased or not: IGNORECASE matches 'ſ' for 's' and 'İ' for 'i', which str.lower() does not fold to ASCII) is
        only safe behind `key in TABLE`, `.get`, or a handler for KeyError."""
        ctx = self.ctx
        n = 0
        for q, mod, fn in self.funcs():
            for s in [x for x in walk_local(fn) if isinstance(x, ast.Subscript) and isinstance(x.ctx, ast.Load) and isinstance(x.value, ast.Name)
                      and not isinstance(x.slice, (ast.Constant, ast.Slice))]:
                D = s.value.id
                origin = mod.imports.get(D)
                tbl = None
                if origin and origin.startswith("eyecite."):
                    om = self.repo.modules.get(origin.split(".")[1]) if origin.count(".") >= 2 else None
                    tbl = om.toplevel_assign(origin.split(".")[-1]) if om is not None else None
                elif origin is None and not any(D in assigned_names(x) for x in stmts_local(fn.body)) and D not in [a.arg for a in fn.args.args]:
                    tbl = mod.toplevel_assign(D)
                if not isinstance(tbl, ast.Dict):
                    continue
                n += 1
                k = norm(s.slice)
                in_try = False
                cur = s
                while cur is not fn:
                    par = cur.parent
                    if isinstance(par, ast.Try) and cur in par.body and any(h.type is None or any(x in norm(h.type) for x in ("KeyError", "LookupError", "Exception")) for h in par.handlers):
                        in_try = True
                    cur = par
                ok = in_try or guarded(fn, s, {f"{k} in {D}"})
                ctx.ob("T13", f"{q}/{D}[{k[:30]}]", ok,
                       f"`{norm(s)[:60]}` looks a computed key up in the constant table `{D}`: KeyError for a key the table lacks, unless `{k[:30]} in {D}` "
                       "dominates the look-up or KeyError is handled", node=s, mod=mod)
        ctx.extra["T13_table_lookups"] = n
        # today's tree has no such look-up, so the detector is exercised on a fixture on every run (a rule that matches nothing passes forever)
        fx = ast.parse("TABLE = {'a': 1}\n\ndef f(k):\n    return TABLE[k.lower()]\n\ndef g(k):\n    if k in TABLE:\n        return TABLE[k]\n    return None\n")
        for x in ast.walk(fx):
            for c_ in ast.iter_child_nodes(x):
                c_.parent = x  # type: ignore[attr-defined]
        ff, gg = fx.body[1], fx.body[2]
        sub_f = next(x for x in ast.walk(ff) if isinstance(x, ast.Subscript))
        sub_g = next(x for x in ast.walk(gg) if isinstance(x, ast.Subscript))
        ctx.need(not guarded(ff, sub_f, {"k.lower() in TABLE"}) and guarded(gg, sub_g, {"k in TABLE"}), "T13 self-check failed on the fixture functions")

    # ---- T14 the Hyperscan match handler never asks to stop --------------------------------------
    def t14_scan_callbacks(self):
        """python-hyperscan turns a true return value of the match handler into `hyperscan.ScanTerminated`, raised out of scan()."""
        ctx = self.ctx
        n = 0
        for q, mod, fn in self.funcs():
            for c in [x for x in walk_local(fn) if isinstance(x, ast.Call) and isinstance(x.func, ast.Attribute) and x.func.attr == "scan"]:
                h = next((k.value for k in c.keywords if k.arg == "match_event_handler"), None) or (c.args[1] if len(c.args) > 1 else None)
                if not isinstance(h, ast.Name):
                    continue
                cb = next((x for x in walk_local(fn) if isinstance(x, ast.FunctionDef) and x.name == h.id), None)
                if cb is None:
                    continue
                n += 1
                rets = [r for r in walk_local(cb) if isinstance(r, ast.Return) and r.value is not None and not (isinstance(r.value, ast.Constant) and not r.value.value)]
                ctx.ob("T14", f"{q}/{h.id}:returns-nothing", not rets,
                       f"the scan callback must return None / a false constant on every path (returns: {[norm(r)[:40] for r in rets]}): a true value makes "
                       "hyperscan raise ScanTerminated from scan(), i.e. from get_citations", node=rets[0] if rets else cb, mod=mod)
        ctx.extra["T14_scan_callbacks"] = n

    # ---- T10 encoding input text -----------------------------------------------------------
    def t10_encoding(self):
        ctx = self.ctx
        safe_handlers = {"surrogatepass", "replace", "ignore", "backslashreplace", "xmlcharrefreplace", "surrogateescape"}
        n = 0
        for q, mod, fn in self.funcs():
            for c in [x for x in walk_local(fn) if isinstance(x, ast.Call) and isinstance(x.func, ast.Attribute) and x.func.attr in ("encode", "decode")]:
                recv = c.func.value
                t = self.typed.type_of(mod, recv) or ""
                if c.func.attr == "encode" and t not in ("builtins.str", "str", ""):
                    continue
                if c.func.attr == "decode" and "bytes" not in t and t != "":
                    continue
                n += 1
                handler = None
                if len(c.args) >= 2 and isinstance(c.args[1], ast.Constant):
                    handler = c.args[1].value
                for k in c.keywords:
                    if k.arg == "errors" and isinstance(k.value, ast.Constant):
                        handler = k.value.value
                in_try = False
                cur = c
                while cur is not fn:
                    par = cur.parent
                    if isinstance(par, ast.Try) and cur in par.body and any(h.type is None or any(x in norm(h.type) for x in ("UnicodeError", "UnicodeEncodeError", "UnicodeDecodeError", "ValueError", "Exception")) for h in par.handlers):
                        in_try = True
                    cur = par
                src = norm(recv)
                not_input = None
                def _defs(name):
                    return [x.value for x in stmts_local(fn.body) if isinstance(x, (ast.Assign, ast.AnnAssign)) and getattr(x, "value", None) is not None
                            and norm(x.targets[0] if isinstance(x, ast.Assign) else x.target) == name]
                if "json.dumps" in src or (isinstance(recv, ast.Name) and any("json.dumps" in norm(v) for v in _defs(recv.id))):
                    not_input = "json.dumps output (ensure_ascii default: pure ASCII)"
                elif q.startswith("tokenizers.HyperscanTokenizer.hyperscan_db") or fn is self.repo.hyperscan_converter():
                    not_input = "an extractor pattern / its repr (built from self.extractors), not document text"
                if c.func.attr == "encode":
                    ok = handler in safe_handlers or not_input is not None or in_try
                else:
                    # decoding a slice of bytes cut at arbitrary offsets can hit an invalid start/continuation byte whatever the surrogate policy
                    ok = handler in ("replace", "ignore", "backslashreplace") or in_try or not_input is not None
                ctx.ob("T10", f"{q}/{src[:30]}.{c.func.attr}()", ok,
                       f"`{norm(c)[:60]}`: a str may contain lone surrogates, which the strict utf-8 codec refuses (UnicodeEncodeError); document text must be "
                       f"encoded with a non-raising error handler ({'handler ' + repr(handler) if handler else not_input or ('inside try/except' if in_try else 'strict, unguarded')})",
                       node=c, mod=mod)
        ctx.extra["T10_codec_calls"] = n

    # ---- T9 keyword splat agreement ---------------------------------------------------------
    def t9_metadata_keys(self):
        ctx = self.ctx
        repo = self.repo
        n = 0
        for q, mod, fn in self.funcs():
            for c in [x for x in walk_local(fn) if isinstance(x, ast.Call)]:
                cls = dotted(c.func)
                if not cls or cls.split(".")[-1] not in repo.classes or not repo.is_subclass(cls.split(".")[-1], "CitationBase"):
                    continue
                for k in c.keywords:
                    if k.arg != "metadata":
                        continue
                    fields = repo.metadata_fields(cls.split(".")[-1]) or set()
                    keys: Optional[Set[str]] = None
                    if isinstance(k.value, ast.Dict) and all(isinstance(x, ast.Constant) for x in k.value.keys):
                        keys = {x.value for x in k.value.keys}
                    elif isinstance(k.value, ast.Call) and isinstance(k.value.func, ast.Attribute) and k.value.func.attr == "groupdict":
                        keys = self._dynamic_group_names(fn)
                    elif isinstance(k.value, ast.Dict) and any(x is None for x in k.value.keys):
                        # {**m.groupdict(), "literal": ..}: the unpacked group names plus the literal keys
                        keys = set()
                        for kk, vv in zip(k.value.keys, k.value.values):
                            if kk is None:
                                if isinstance(vv, ast.Call) and isinstance(vv.func, ast.Attribute) and vv.func.attr == "groupdict":
                                    g_ = self._dynamic_group_names(fn)
                                    keys = None if g_ is None or keys is None else keys | g_
                                else:
                                    keys = None
                            elif isinstance(kk, ast.Constant) and isinstance(kk.value, str):
                                if keys is not None:
                                    keys.add(kk.value)
                            else:
                                keys = None
                    elif isinstance(k.value, ast.Name):
                        keys = self._dict_local_keys(fn, k.value.id)
                    n += 1
                    ok = keys is not None and keys <= fields
                    ctx.ob("T9", f"{q}/{cls}(metadata=...)", ok,
                           f"metadata keys are splatted into {cls}.Metadata(**...): every key must be a declared field "
                           f"(keys {sorted(keys) if keys is not None else '?'}; unknown {sorted((keys or set()) - fields)})", node=k.value, mod=mod)
        ctx.extra["T9_metadata_dicts"] = n

    def _dict_local_keys(self, fn, name: str) -> Optional[Set[str]]:
        """key set of a local dict: bound once to `m.groupdict()` or a literal-key dict display, then only changed by item stores whose key is a
        constant or ranges over a literal tuple / ReferenceCitation.name_fields, or by removals"""
        binds = [s_ for s_ in walk_local(fn) if isinstance(s_, (ast.Assign, ast.AnnAssign)) and s_.value is not None and any(
            isinstance(t, ast.Name) and t.id == name for t in (s_.targets if isinstance(s_, ast.Assign) else [s_.target]))]
        if len(binds) != 1 or name in [a.arg for a in fn.args.args + fn.args.kwonlyargs]:
            return None
        v = binds[0].value
        if isinstance(v, ast.Call) and isinstance(v.func, ast.Name) and v.func.id == "dict" and len(v.args) == 1 and not v.keywords:
            v = v.args[0]
        if isinstance(v, ast.Call) and isinstance(v.func, ast.Attribute) and v.func.attr == "groupdict":
            keys = self._dynamic_group_names(fn)
        elif isinstance(v, ast.Dict) and all(isinstance(x, ast.Constant) for x in v.keys):
            keys = {x.value for x in v.keys}
        elif isinstance(v, ast.DictComp) and len(v.generators) == 1 and isinstance(v.generators[0].iter, ast.Call) and norm(v.generators[0].iter.func).endswith(".groupdict().items") \
                and isinstance(v.generators[0].target, ast.Tuple) and len(v.generators[0].target.elts) == 2 and norm(v.key) == norm(v.generators[0].target.elts[0]):
            # {key: .. for key, found in m.groupdict().items() if ..}: a subset of the match's group names
            keys = self._dynamic_group_names(fn)
        else:
            return None
        if keys is None:
            return None
        keys = set(keys)
        nf = self._name_fields()
        for x in walk_local(fn):
            if isinstance(x, ast.Subscript) and isinstance(x.value, ast.Name) and x.value.id == name and isinstance(x.ctx, ast.Store):
                sl = x.slice
                if isinstance(sl, ast.Constant) and isinstance(sl.value, str):
                    keys.add(sl.value)
                    continue
                if isinstance(sl, ast.Name):
                    dom = None
                    for lp in walk_local(fn):
                        if isinstance(lp, (ast.For, ast.comprehension)) and isinstance(lp.target, ast.Name) and lp.target.id == sl.id:
                            it = lp.iter
                            if isinstance(it, (ast.List, ast.Tuple)) and all(isinstance(e_, ast.Constant) for e_ in it.elts):
                                dom = {e_.value for e_ in it.elts}
                            elif norm(it).endswith(".name_fields") and nf is not None:
                                dom = set(nf)
                    if dom is not None:
                        keys |= dom
                        continue
                return None
            if isinstance(x, ast.Call) and isinstance(x.func, ast.Attribute) and isinstance(x.func.value, ast.Name) and x.func.value.id == name \
                    and x.func.attr in ("update", "setdefault", "__setitem__"):
                return None
        return keys

    def _name_fields(self) -> Optional[Set[str]]:
        ci = self.repo.classes.get("ReferenceCitation")
        for s_ in ci.node.body if ci else []:
            if isinstance(s_, ast.Assign) and norm(s_.targets[0]) == "name_fields" and isinstance(s_.value, (ast.List, ast.Tuple)):
                return {x.value for x in s_.value.elts if isinstance(x, ast.Constant)}
        return None

    def _dynamic_group_names(self, fn) -> Optional[Set[str]]:
        """named groups of the dynamically built reference patterns: (?P<{key}>..) with key from name_fields, plus literal (?P<name>"""
        names: Set[str] = set()
        src = ast.unparse(fn)
        names |= set(_re.findall(r"\(\?P<([A-Za-z_]+)>", src))
        if "?P<{" in src or "(?P<{}>" in src:
            nf = None
            ci = self.repo.classes.get("ReferenceCitation")
            for s in ci.node.body if ci else []:
                if isinstance(s, ast.Assign) and norm(s.targets[0]) == "name_fields" and isinstance(s.value, (ast.List, ast.Tuple)):
                    nf = {x.value for x in s.value.elts if isinstance(x, ast.Constant)}
            if nf is None or ".name_fields" not in src:
                return None
            names |= nf
        return names


def _established_nonempty(fn, s: ast.AST, bt: str) -> bool:
    """`bt` is made non-empty by a statement that precedes the use on every path: `if not X: X.append(e)`, an unconditional `X.append(e)`,
    or `X = [e, ...]`, with no shrinking operation in between (looked for in the enclosing blocks, innermost first)"""
    GROW = ("append", "insert", "add")
    SHRINK = ("pop", "remove", "clear", "discard", "popitem")

    def grows(st) -> bool:
        if isinstance(st, ast.Expr) and isinstance(st.value, ast.Call) and isinstance(st.value.func, ast.Attribute) and norm(st.value.func.value) == bt:
            if st.value.func.attr in GROW and st.value.args:
                return True
            if st.value.func.attr == "extend" and st.value.args and isinstance(st.value.args[0], (ast.List, ast.Tuple)) and st.value.args[0].elts:
                return True
        if isinstance(st, ast.Assign) and len(st.targets) == 1 and norm(st.targets[0]) == bt and isinstance(st.value, (ast.List, ast.Tuple)) and st.value.elts \
                and not any(isinstance(e, ast.Starred) for e in st.value.elts):
            return True
        if isinstance(st, ast.If) and not st.orelse and norm(st.test) in (f"not {bt}", f"len({bt}) == 0", f"{bt} == []", f"0 == len({bt})"):
            body = effective_body(st) if hasattr(st, "body") else st.body
            return bool(body) and grows(body[-1])
        return False

    def shrinks(st) -> bool:
        for x in ast.walk(st):
            if isinstance(x, ast.Call) and isinstance(x.func, ast.Attribute) and norm(x.func.value) == bt and x.func.attr in SHRINK:
                return True
            if isinstance(x, ast.Delete) and any(bt in norm(t) for t in x.targets):
                return True
            if isinstance(x, (ast.Assign, ast.AugAssign, ast.AnnAssign)):
                tg = x.targets if isinstance(x, ast.Assign) else [x.target]
                if any(norm(t) == bt or norm(t).startswith(bt + "[") for t in tg) and not grows(x):
                    return True
        return False

    cur = s
    while cur is not fn and cur is not None:
        par = getattr(cur, "parent", None)
        if par is None:
            return False
        for fld in ("body", "orelse", "finalbody"):
            block = getattr(par, fld, None)
            if isinstance(block, list) and cur in block:
                i = block.index(cur)
                for j in range(i - 1, -1, -1):
                    if grows(block[j]):
                        return True
                    if shrinks(block[j]):
                        return False
        if isinstance(par, (ast.For, ast.While, ast.AsyncFor)) and any(shrinks(x) for x in par.body):
            return False  # a later iteration may have shrunk it
        cur = par
    return False


def _comp_bound(node: ast.AST, name: str) -> bool:
    """is this use of `name` bound by an enclosing comprehension (a different variable than the function-level one)?"""
    cur = node
    while cur is not None and not isinstance(cur, ast.stmt):
        cur = getattr(cur, "parent", None)
        if isinstance(cur, (ast.ListComp, ast.SetComp, ast.GeneratorExp, ast.DictComp)):
            for g in cur.generators:
                if name in {x.id for x in ast.walk(g.target) if isinstance(x, ast.Name)}:
                    return True
    return False


def _group_digit_bound(pattern: str, gid: int, flags: int) -> Optional[int]:
    """n if the group is \\d{a,n} with finite n, else None."""
    pat, _ = dedupe_group_names(pattern)
    tree = rx.parse(pat, flags)
    from .c18 import _find_group

    sub = _find_group(tree, gid)
    if sub is None:
        return None
    items = list(sub)
    if len(items) != 1 or str(items[0][0]) != "MAX_REPEAT":
        return None
    lo, hi, body = items[0][1]
    body = list(body)
    if lo >= 1 and hi != rx.MAXREPEAT and len(body) == 1 and str(body[0][0]) == "IN" and [(str(o), str(a)) for o, a in body[0][1]] == [("CATEGORY", "CATEGORY_DIGIT")]:
        return hi
    return None


def _group_is_digits(pattern: str, gid: int, flags: int) -> bool:
    pat, _ = dedupe_group_names(pattern)
    tree = rx.parse(pat, flags)
    from .c18 import _find_group

    sub = _find_group(tree, gid)
    if sub is None:
        return False
    items = list(sub)
    if len(items) != 1 or str(items[0][0]) not in ("MAX_REPEAT",):
        return False
    lo, hi, body = items[0][1]
    body = list(body)
    return lo >= 1 and len(body) == 1 and str(body[0][0]) == "IN" and [(str(o), str(a)) for o, a in body[0][1]] == [("CATEGORY", "CATEGORY_DIGIT")]


def run(ctx: Ctx):
    ctx.level = "other"
    ctx.explanation = (
        "A discipline check, not a totality proof.  Over the type-resolved call graph from get_citations (all tokenizers), resolve_citations "
        "(default resolvers) and annotate_citations, every site of these risk classes is enumerated and must be discharged by a listed idiom: "
        "T1 explicit raise (configuration-only guard, table-agreement unreachability, or re-raise in a handler); T2 unchecked regex match result; "
        "T3 dereference of a regex group that does not participate in every match (group participation computed on the pattern's syntax tree, "
        "with the ^(?:..)/(?:..)$ wrapper match_on_tokens adds), T3b dereference of a value assigned from an eyecite function that may return None; T4 reads of the group the code itself sets to None (placeholder page); T5 "
        "int()/float() conversions; T6 constant-index subscripts on sequences; T7 literal-key reads of token.groups against all generated patterns; "
        "T8 dynamic text inside a pattern or replacement template; T9 metadata keys splatted into Metadata(**..); T10 encoding/decoding of document "
        "text with a non-raising error handler (lone surrogates).  NOT decided: exceptions from C "
        "extensions on hostile bytes, MemoryError/RecursionError, regex engine limits."
    )
    ctx.trusted = ["the checker", "mypy types", "re._parser", "str/int/regex documented failure modes as encoded in the rule idioms"]
    ctx.assumptions = ["default resolvers, default annotator, shipped tokenizers", "annotation spans given with 0 <= start <= end <= len(text)"]
    C = C04(ctx)
    ctx.guard(C.t1_raises)
    ctx.guard(C.t2_t3)
    ctx.guard(C.t3b_optional_results)
    ctx.guard(C.t4_nullable_groups)
    ctx.guard(C.t5_conversions)
    ctx.guard(C.t6_indexing)
    ctx.guard(C.t6b_loop_indices)
    ctx.guard(C.t7_group_keys)
    ctx.guard(C.t8_escaping)
    ctx.guard(C.t9_metadata_keys)
    ctx.guard(C.t10_encoding)
    ctx.guard(C.t11_foreign_parsers)
    ctx.guard(C.t12_regex_subjects)
    ctx.guard(C.t13_table_lookups)
    ctx.guard(C.t14_scan_callbacks)
    ctx.floor("T10", 1)  # the encoding of the document text itself; the others encode patterns / cache keys
    ctx.floor("T1", 4)
    ctx.floor("T2", 8)
    ctx.floor("T3", 5)
    ctx.floor("T4", 6)
    ctx.floor("T5", 3)
    ctx.floor("T7", 4)
    ctx.floor("T8", 3)
    ctx.floor("T9", 5)
