"""C13 -- The default tokenizer's Aho-Corasick pre-filter is lossless
(DESIGN 2/C13)."""
from __future__ import annotations

from ..core import acopy
import ast
import hashlib
import multiprocessing as mp
import os
import re
from typing import Any, Dict, List, Optional, Tuple

from .. import materialize, rx
from ..core import Locals, AnalysisError, Ctx, assigned_names, dotted, names_in, norm, stmts_local, walk_local
from ..paths import enumerate_paths


def ext_name(e: Dict[str, Any]) -> str:
    ctor = e["ctor"].split(".")[0]
    if ctor == "CitationToken":
        eds = e["exact"] or e["variation"]
        first = eds[0][0] if eds else "?"
        h = hashlib.sha256(e["regex"].encode()).hexdigest()[:8]
        return f"CitationToken[{first}{'/short' if e['short'] else ''}]#{h}"
    return ctor


# ---- worker -------------------------------------------------------------
_G: Dict[str, Any] = {}


def _alphabet_for(e: Dict[str, Any], nfa: rx.NFA, extra: List[str]) -> List[str]:
    icase = bool(e["flags"] & re.I)
    chars = set(rx.ASCII)
    for p in nfa.preds.values():
        for ch in p.literal_chars():
            chars.add(ch)
            if icase and ch.lower() != ch.upper():
                chars.update(rx.fold_class(ch))
    for s in e["strings"]:
        chars.update(s)
        if icase:
            chars.update(s.lower())
    chars.update(extra)
    return sorted(chars)


def _decide(i: int):
    e = _G["extractors"][i]
    mode = _G["mode"]
    try:
        icase = bool(e["flags"] & re.I)
        nfa = rx.build_nfa(e["regex"], e["flags"])
        words = [s.lower() for s in e["strings"]] if icase else list(e["strings"])
        ac = rx.AC(words)
        alpha = _alphabet_for(e, nfa, rx.GENERIC_REPS + _G.get("extra_alphabet", []))
        if icase and _G.get("icase_ascii_only"):
            # the scan of the lower-cased filter is guarded by text.isascii() and non-ASCII
            # text runs every case-insensitive extractor: only ASCII texts are filtered
            alpha = list(rx.ASCII)
        results = []
        w, st, tr = rx.find_escape(nfa, ac, alpha, lower=icase)
        states, trans = st, tr
        if w is None:
            return i, [], states, trans, None
        # enumerate findings: decide separately per non-ASCII character
        w0, st, tr = rx.find_escape(nfa, ac, rx.ASCII, lower=icase)
        states += st; trans += tr
        if w0 is not None:
            results.append(("ASCII", w0))
        for ch in alpha:
            if ch.isascii():
                continue
            w1, st, tr = rx.find_escape(nfa, ac, rx.ASCII + [ch], lower=icase)
            states += st; trans += tr
            if w1 is not None and ch in w1:
                results.append((f"U+{ord(ch):04X}", w1))
        if not results:
            results.append(("mixed", w))
        return i, results, states, trans, None
    except AnalysisError as ex:
        return i, [], 0, 0, str(ex)


def decide_all(extractors: List[Dict[str, Any]], idxs: List[int], mode: str, icase_ascii_only: bool = False):
    _G["extractors"] = extractors
    _G["mode"] = mode
    _G["icase_ascii_only"] = icase_ascii_only
    _G["extra_alphabet"] = []
    if mode == "thorough":
        # every non-ASCII character that interacts with ASCII under a case mapping (str.lower/upper/casefold or sre's
        # tolower), plus one representative of every Unicode general category
        import unicodedata

        extra, cats = [], {}
        for cp in range(0x80, 0x110000):
            if 0xD800 <= cp <= 0xDFFF:
                continue
            ch = chr(cp)
            if any(c.isascii() for c in ch.lower() + ch.upper() + ch.casefold()) or rx._tolower(cp) < 128:
                extra.append(ch)
            cats.setdefault(unicodedata.category(ch), ch)
        _G["extra_alphabet"] = extra + list(cats.values())
    # warm the fold table before forking (shared copy-on-write)
    rx.fold_class("s")
    n = min(16, os.cpu_count() or 1, max(1, len(idxs) // 50))
    if n <= 1:
        return [_decide(i) for i in idxs]
    ctx = mp.get_context("fork")
    with ctx.Pool(n) as pool:
        return pool.map(_decide, idxs, chunksize=64)


# ---- structural rules on AhocorasickTokenizer ------------------------------


def _truth(cond: ast.AST, env: Dict[str, bool], var: str) -> Optional[bool]:
    """evaluate a comprehension condition over the atoms e.strings and
    e.flags & re.I."""
    if isinstance(cond, ast.BoolOp):
        vals = [_truth(v, env, var) for v in cond.values]
        if any(v is None for v in vals):
            return None
        return all(vals) if isinstance(cond.op, ast.And) else any(vals)
    if isinstance(cond, ast.UnaryOp) and isinstance(cond.op, ast.Not):
        v = _truth(cond.operand, env, var)
        return None if v is None else not v
    t = norm(cond)
    if t == f"{var}.strings":
        return env["strings"]
    if t in (f"{var}.flags & re.I", f"{var}.flags & re.IGNORECASE", f"re.I & {var}.flags"):
        return env["icase"]
    return None


def structural_rules(ctx: Ctx):
    repo = ctx.repo
    m = repo.mod("tokenizers")
    ci = repo.classes.get("AhocorasickTokenizer")
    ctx.need(ci is not None, "tokenizers.AhocorasickTokenizer not found")
    q = "tokenizers.AhocorasickTokenizer"
    pi = ci.methods.get("__post_init__")
    ge = ci.methods.get("get_extractors")
    mk = ci.methods.get("make_ahocorasick_filter")
    ctx.need(pi is not None and ge is not None and mk is not None, f"{q}: __post_init__/get_extractors/make_ahocorasick_filter not found")
    # R-C13-2: the filter is built from the tokenizer's own list
    uses_global = [n for fn in ci.methods.values() for n in walk_local(fn) if isinstance(n, ast.Name) and n.id == "EXTRACTORS"]
    ctx.ob("R-C13-2", f"{q}/own-extractor-list", not uses_global,
           "the filter must range over self.extractors; the module-level EXTRACTORS is only the default of Tokenizer.extractors "
           f"({len(uses_global)} reads of the global inside the class)", node=uses_global[0] if uses_global else pi, mod=m)
    # locate the three selections in __post_init__
    sels = []  # (attr, source expr, var, cond, key expr or None)
    for s in stmts_local(pi.body):
        if not (isinstance(s, ast.Assign) and len(s.targets) == 1 and isinstance(s.targets[0], ast.Attribute) and norm(s.targets[0].value) == "self"):
            continue
        attr = s.targets[0].attr
        gens = [n for n in ast.walk(s.value) if isinstance(n, (ast.GeneratorExp, ast.SetComp, ast.ListComp))]
        if not gens:
            continue
        g = gens[0]
        comp0 = g.generators[0]
        if not isinstance(comp0.target, ast.Name):
            continue
        ifs = list(comp0.ifs)
        src = comp0.iter
        # a selection that ranges over a local sub-list `[x for x in self.extractors if c]` is a selection over self.extractors under c
        if isinstance(src, ast.Name) or (isinstance(src, ast.Attribute) and norm(src.value) == "self" and norm(src) != "self.extractors"):
            ds = [x for x in stmts_local(pi.body) if isinstance(x, ast.Assign) and any(norm(t) == norm(src) for t in x.targets)]
            if len(ds) == 1 and isinstance(ds[0].value, ast.ListComp) and len(ds[0].value.generators) == 1 and isinstance(ds[0].value.generators[0].target, ast.Name) \
                    and norm(ds[0].value.elt) == ds[0].value.generators[0].target.id and ds[0].lineno < s.lineno:
                g2 = ds[0].value.generators[0]

                class _Ren(ast.NodeTransformer):
                    def visit_Name(self, node):
                        return ast.copy_location(ast.Name(id=comp0.target.id, ctx=node.ctx), node) if node.id == g2.target.id else node

                import copy as _copy

                ifs = [_Ren().visit(acopy(c)) for c in g2.ifs] + ifs
                src = g2.iter
        if not ifs:
            continue
        cond = ifs[0] if len(ifs) == 1 else ast.BoolOp(op=ast.And(), values=ifs)
        key = None
        if isinstance(g.elt, ast.Tuple) and len(g.elt.elts) == 2:
            key = g.elt.elts[0]
        sels.append({"attr": attr, "src": src, "var": comp0.target.id, "cond": cond, "key": key, "node": s, "gen": g})
    # auxiliary lists (not a filter, not the seed of get_extractors) are not part of the partition
    seed_attrs = {n.attr for s_ in stmts_local(ge.body) if isinstance(s_, ast.Assign) for n in ast.walk(s_.value)
                  if isinstance(n, ast.Attribute) and norm(n.value) == "self"}
    aux = [x for x in sels if x["key"] is None and x["attr"] not in seed_attrs]
    sels = [x for x in sels if x not in aux]
    ctx.ob("R-C13-3", f"{q}.__post_init__/selections", len(sels) == 3, f"three selections expected (unfiltered, case-sensitive, case-insensitive); found {[x['attr'] for x in sels]}",
           node=pi, mod=m, nontrivial=False)
    for x in sels:
        ctx.ob("R-C13-2", f"{q}.__post_init__/{x['attr']}:source", norm(x["src"]) == "self.extractors",
               f"selection ranges over `{norm(x['src'])}`", node=x["node"], mod=m)
        if x["key"] is not None:
            gens = x["gen"].generators
            inner = gens[-1] if len(gens) == 2 else None
            ok_inner = inner is not None and norm(inner.iter) == f"{x['var']}.strings" and not inner.ifs and isinstance(inner.target, ast.Name)
            ok_pair = isinstance(x["gen"].elt, ast.Tuple) and norm(x["gen"].elt.elts[1]) == x["var"]
            ctx.ob("R-C13-2", f"{q}.__post_init__/{x['attr']}:all-strings", ok_inner and ok_pair,
                   "every string of the extractor's `strings` (the list the inclusion L(pattern) <= Sigma* strings Sigma* is decided for) must be put into the "
                   f"automaton, paired with that extractor; the inner generator iterates `{norm(inner.iter) if inner is not None else '?'}`"
                   f"{' with a filter' if inner is not None and inner.ifs else ''}", node=x["node"], mod=m)
    if len(sels) != 3:
        return
    # R-C13-3 partition
    rows = []
    ok = True
    for strings in (False, True):
        for icase in (False, True):
            hits = []
            for x in sels:
                v = _truth(x["cond"], {"strings": strings, "icase": icase}, x["var"])
                if v is None:
                    ok = False
                    hits.append(f"{x['attr']}:?")
                elif v:
                    hits.append(x["attr"])
            rows.append((strings, icase, hits))
            if len(hits) != 1:
                ok = False
    ctx.ob("R-C13-3", f"{q}.__post_init__/partition", ok,
           f"every extractor must fall in exactly one of the three selections; truth table (has strings, case-insensitive) -> {rows}",
           node=pi, mod=m)
    unf = next((x for x in sels if x["key"] is None), None)
    okunf = unf is not None and _truth(unf["cond"], {"strings": False, "icase": False}, unf["var"]) and _truth(unf["cond"], {"strings": False, "icase": True}, unf["var"])
    ctx.ob("R-C13-3", f"{q}.__post_init__/no-strings-always-run", bool(okunf), "extractors without filter strings are in the always-run set", node=pi, mod=m)
    # R-C13-4 same normalisation on both sides; R-C13-7 empty automaton guard; R-C13-5 scan method
    textp = ge.args.args[1].arg if len(ge.args.args) > 1 else None
    paths = enumerate_paths(ge.body)
    for x in sels:
        if x["key"] is None:
            continue
        # the string variable of the inner generator
        svar = x["gen"].generators[-1].target.id if isinstance(x["gen"].generators[-1].target, ast.Name) else None
        keyf = norm(x["key"]).replace(svar or "\0", "@")
        scans = [n for n in walk_local(ge) if isinstance(n, ast.Call) and isinstance(n.func, ast.Attribute) and norm(n.func.value) == f"self.{x['attr']}"
                 and n.func.attr not in ("__len__",)]
        scans = [n for n in scans if n.func.attr.startswith("iter") or n.func.attr in ("keys", "values", "items", "get", "match", "longest_prefix")]
        ctx.ob("R-C13-5", f"{q}.get_extractors/{x['attr']}:scanned", len(scans) == 1 and scans[0].func.attr == "iter",
               f"each filter must be scanned with Automaton.iter (reports every occurrence of every string, overlapping ones included); "
               f"found {[norm(s_.func)[:60] for s_ in scans]}", node=scans[0] if scans else ge, mod=m)
        for sc in scans:
            arg0 = sc.args[0] if sc.args else None
            # `text = text.lower()` right before the scan in the same block: the scanned value is that expression of the parameter
            if isinstance(arg0, ast.Name):
                st_ = sc
                while getattr(st_, "parent", None) is not None and not any(st_ in (getattr(st_.parent, f_, None) or []) for f_ in ("body", "orelse", "finalbody")):
                    st_ = st_.parent
                par_ = getattr(st_, "parent", None)
                for f_ in ("body", "orelse", "finalbody"):
                    blk_ = getattr(par_, f_, None) or []
                    if st_ in blk_:
                        for prev_ in reversed(blk_[:blk_.index(st_)]):
                            if isinstance(prev_, ast.Assign) and len(prev_.targets) == 1 and norm(prev_.targets[0]) == arg0.id:
                                if names_in(prev_.value) == {arg0.id}:
                                    arg0 = prev_.value
                                break
                            if arg0.id in assigned_names(prev_):
                                break
            argf = (norm(arg0) if arg0 is not sc.args[0] else Locals(ge).text(sc.args[0], sc)).replace(textp or "\0", "@") if sc.args else "?"
            ctx.ob("R-C13-4", f"{q}.get_extractors/{x['attr']}:normalisation", argf == keyf,
                   f"strings are inserted as `{norm(x['key'])}` and the text is scanned as `{norm(sc.args[0]) if sc.args else '?'}`: both sides must be normalised by the same function",
                   node=sc, mod=m)
            icase_sel = _truth(x["cond"], {"strings": True, "icase": True}, x["var"])
            want_lower = bool(icase_sel)
            ctx.ob("R-C13-4", f"{q}.get_extractors/{x['attr']}:case", ("lower()" in keyf or "casefold()" in keyf) == want_lower,
                   "the case-insensitive filter compares lower-cased strings with the lower-cased text; the case-sensitive one compares both unchanged",
                   node=sc, mod=m)
            # guard: non-empty automaton
            guarded = True
            reach = 0
            for p in paths:
                seen_guard = False
                for ev in p.events:
                    if ev[0] == "cond" and norm(ev[1]) in (f"len(self.{x['attr']})", f"self.{x['attr']}", f"len(self.{x['attr']}) > 0") and ev[2]:
                        seen_guard = True
                    hit = False
                    if ev[0] == "loop" and ev[2] == "enter" and sc in ast.walk(ev[1].iter if isinstance(ev[1], ast.For) else ev[1]):
                        hit = True
                    if ev[0] == "stmt" and any(n is sc for n in ast.walk(ev[1])):
                        hit = True
                    if hit:
                        reach += 1
                        if not seen_guard:
                            guarded = False
            ctx.ob("R-C13-7", f"{q}.get_extractors/{x['attr']}:non-empty-guard", guarded and reach > 0,
                   "an automaton without any key raises on iter(); the scan must be guarded by a non-emptiness test "
                   "(extractor lists without strings of one case class)", node=sc, mod=m)
    # ASCII guard of the case-insensitive scan (str.lower() mirrors re.IGNORECASE only on ASCII text)
    info = {"icase_ascii_only": False}
    isascii_t = f"{textp}.isascii()"
    ic = next((x for x in sels if x["key"] is not None and _truth(x["cond"], {"strings": True, "icase": True}, x["var"])), None)
    if ic is not None and any(ev[0] == "cond" and norm(ev[1]) == isascii_t for p in paths for ev in p.events):
        scan = next((n for n in walk_local(ge) if isinstance(n, ast.Call) and isinstance(n.func, ast.Attribute)
                     and norm(n.func.value) == f"self.{ic['attr']}" and n.func.attr.startswith("iter")), None)
        # attributes holding every case-insensitive extractor with strings
        full_attrs = set()
        for s_ in stmts_local(pi.body):
            if not (isinstance(s_, ast.Assign) and isinstance(s_.targets[0], ast.Attribute) and norm(s_.targets[0].value) == "self"):
                continue
            val = s_.value
            if isinstance(val, ast.Name):  # a local holding the comprehension
                ds_ = [x for x in stmts_local(pi.body) if isinstance(x, ast.Assign) and any(norm(t) == val.id for t in x.targets)]
                val = ds_[0].value if len(ds_) == 1 else val
            if isinstance(val, (ast.ListComp, ast.SetComp)) and len(val.generators) == 1:
                g0 = val.generators[0]
                if norm(g0.iter) == "self.extractors" and isinstance(g0.target, ast.Name) and norm(val.elt) == g0.target.id:
                    cond = g0.ifs[0] if len(g0.ifs) == 1 else (ast.BoolOp(op=ast.And(), values=list(g0.ifs)) if g0.ifs else None)
                    if cond is None or _truth(cond, {"strings": True, "icase": True}, g0.target.id):
                        full_attrs.add(s_.targets[0].attr)
        ok_guard, ok_else = True, True
        n_nonascii = 0
        for p in paths:
            asc = None
            scanned = False
            added_all = False
            for ev in p.events:
                if ev[0] == "cond" and norm(ev[1]) == isascii_t:
                    asc = ev[2]
                if scan is not None and ((ev[0] == "loop" and ev[2] == "enter" and isinstance(ev[1], ast.For) and any(n is scan for n in ast.walk(ev[1].iter)))
                                         or (ev[0] == "stmt" and any(n is scan for n in ast.walk(ev[1])))):
                    scanned = True
                    if asc is not True:
                        ok_guard = False
                if ev[0] == "stmt":
                    for n in ast.walk(ev[1]):
                        if isinstance(n, ast.Call) and isinstance(n.func, ast.Attribute) and n.func.attr == "update" and n.args \
                                and isinstance(n.args[0], ast.Attribute) and norm(n.args[0].value) == "self" and n.args[0].attr in full_attrs:
                            added_all = True
            if asc is False:
                n_nonascii += 1
                if not added_all:
                    ok_else = False
        good = ok_guard and ok_else and n_nonascii > 0 and scan is not None
        ctx.ob("R-C13-8", f"{q}.get_extractors/non-ascii-runs-all-case-insensitive", good,
               "the lower-cased filter is consulted only for ASCII text; for any other text every case-insensitive extractor with strings is "
               f"selected (guarded={ok_guard}, non-ASCII paths add all={ok_else}, full-list attributes={sorted(full_attrs)})",
               node=scan or ge, mod=m)
        info["icase_ascii_only"] = good
    # R-C13-5: starts from the unfiltered set, only adds
    acc = None
    for s in stmts_local(ge.body):
        if isinstance(s, ast.Assign) and len(s.targets) == 1 and isinstance(s.targets[0], ast.Name) and unf is not None \
                and f"self.{unf['attr']}" in norm(s.value):
            acc = s.targets[0].id
            accnode = s
    ctx.ob("R-C13-5", f"{q}.get_extractors/starts-from-unfiltered", acc is not None,
           "the selected extractors start from a copy of the always-run set", node=ge, mod=m)
    if acc:
        muts = [n for n in walk_local(ge) if isinstance(n, ast.Call) and isinstance(n.func, ast.Attribute) and norm(n.func.value) == acc]
        badm = [n for n in muts if n.func.attr not in ("update", "add", "union", "copy")]
        reb = [s for s in stmts_local(ge.body) if acc in assigned_names(s) and s is not accnode and not isinstance(s, (ast.If, ast.For, ast.While))]
        ctx.ob("R-C13-5", f"{q}.get_extractors/only-adds", not badm and not reb and len(muts) >= 2,
               f"automaton hits may only be added (update/add); found {[norm(n.func)[:40] for n in badm]} {[norm(s)[:40] for s in reb]}",
               node=(badm or reb or [ge])[0], mod=m)
        # every scan loop adds what the automaton reports for the string
        for loop in [n for n in walk_local(ge) if isinstance(n, ast.For)]:
            it = loop.iter
            if not (isinstance(it, ast.Call) and isinstance(it.func, ast.Attribute) and norm(it.func.value).startswith("self.") and it.func.attr.startswith("iter")):
                continue
            okv = isinstance(loop.target, ast.Tuple) and len(loop.target.elts) == 2 and isinstance(loop.target.elts[1], ast.Name)
            if okv:
                val = loop.target.elts[1].id
                okv = any(isinstance(n, ast.Call) and isinstance(n.func, ast.Attribute) and norm(n.func.value) == acc and n.func.attr == "update"
                          and n.args and norm(n.args[0]) == val for s_ in loop.body for n in ast.walk(s_)) and \
                    not any(isinstance(s_, (ast.If, ast.Continue, ast.Break)) for s_ in loop.body)
            ctx.ob("R-C13-5", f"{q}.get_extractors/adds-reported-extractors", okv,
                   "for every occurrence reported by the automaton, all extractors stored with that string are added, unconditionally", node=loop, mod=m)
        # R-C13-6: returned in the order of self.extractors
        rets = [r for r in walk_local(ge) if isinstance(r, ast.Return)]
        for r in rets:
            v = r.value
            ordered, why = False, f"returns `{norm(v)[:80]}`"
            if isinstance(v, ast.Call) and dotted(v.func) == "sorted" and v.args and norm(v.args[0]) == acc:
                key = next((k.value for k in v.keywords if k.arg == "key"), None)
                rev = next((k.value for k in v.keywords if k.arg == "reverse"), None)
                if isinstance(key, ast.Lambda) and rev is None:
                    lam = key.args.args[0].arg
                    b = key.body
                    # self.<map>[id(e)] with <map> = {id(e): i for i, e in enumerate(self.extractors)}
                    if isinstance(b, ast.Subscript) and isinstance(b.value, ast.Attribute) and norm(b.value.value) == "self" and norm(b.slice) in (f"id({lam})", lam):
                        mp_attr = b.value.attr
                        for s in stmts_local(pi.body):
                            if isinstance(s, ast.Assign) and norm(s.targets[0]) == f"self.{mp_attr}" and isinstance(s.value, ast.DictComp):
                                dc = s.value
                                g0 = dc.generators[0]
                                if (isinstance(g0.iter, ast.Call) and dotted(g0.iter.func) == "enumerate" and norm(g0.iter.args[0]) == "self.extractors"
                                        and isinstance(g0.target, ast.Tuple) and len(g0.target.elts) == 2 and not g0.ifs and len(dc.generators) == 1):
                                    iv, ev_ = norm(g0.target.elts[0]), norm(g0.target.elts[1])
                                    if norm(dc.value) == iv and norm(dc.key) in (f"id({ev_})", ev_):
                                        ordered, why = True, f"sorted by position in self.extractors via self.{mp_attr}"
            elif isinstance(v, ast.ListComp) and len(v.generators) == 1 and norm(v.generators[0].iter) == "self.extractors" \
                    and norm(v.elt) == norm(v.generators[0].target):
                ordered, why = True, "sub-sequence comprehension over self.extractors"
            ctx.ob("R-C13-6", f"{q}.get_extractors/order", ordered,
                   "selected extractors must be returned in the order of self.extractors (tokenize breaks (start, -end) ties by arrival "
                   f"order, and a set's order depends on PYTHONHASHSEED): {why}", node=r, mod=m)
    # make_ahocorasick_filter: every (string, extractor) pair is stored
    ok, why = _filter_builder_ok(mk)
    ctx.ob("R-C13-5", f"{q}.make_ahocorasick_filter/stores-every-pair", ok, why, node=mk, mod=m)
    return info


def _filter_builder_ok(mk: ast.FunctionDef):
    ps = [a.arg for a in mk.args.args]
    items = ps[0] if ps and ps[0] not in ("self", "cls") else (ps[1] if len(ps) > 1 else None)
    grouped = None
    loops = [s for s in mk.body if isinstance(s, ast.For)]
    if len(loops) != 2:
        return False, f"expected two loops (group, then add_word), found {len(loops)}"
    l1, l2 = loops
    if not (norm(l1.iter) == items and isinstance(l1.target, ast.Tuple) and len(l1.target.elts) == 2):
        return False, f"first loop does not unpack (string, extractor) from `{items}`"
    sv, ev = norm(l1.target.elts[0]), norm(l1.target.elts[1])
    if len(l1.body) != 1 or not isinstance(l1.body[0], ast.Expr) or not isinstance(l1.body[0].value, ast.Call):
        return False, "grouping loop body is not a single append"
    c = l1.body[0].value
    if not (isinstance(c.func, ast.Attribute) and c.func.attr == "append" and isinstance(c.func.value, ast.Subscript)
            and norm(c.func.value.slice) == sv and [norm(a) for a in c.args] == [ev]):
        return False, f"grouping is `{norm(c)[:60]}`, expected grouped[string].append(extractor)"
    grouped = norm(c.func.value.value)
    init = [s for s in mk.body if isinstance(s, ast.Assign) and norm(s.targets[0]) == grouped]
    if not (len(init) == 1 and norm(init[0].value) in ("defaultdict(list)", "collections.defaultdict(list)")):
        return False, "grouping dict is not defaultdict(list)"
    if not (isinstance(l2.iter, ast.Call) and norm(l2.iter.func) == f"{grouped}.items" and isinstance(l2.target, ast.Tuple) and len(l2.target.elts) == 2):
        return False, "second loop does not iterate grouped.items()"
    kv, vv = norm(l2.target.elts[0]), norm(l2.target.elts[1])
    if len(l2.body) != 1 or not isinstance(l2.body[0], ast.Expr) or not isinstance(l2.body[0].value, ast.Call):
        return False, "add_word loop body is not a single call"
    c2 = l2.body[0].value
    if not (isinstance(c2.func, ast.Attribute) and c2.func.attr == "add_word" and [norm(a) for a in c2.args] == [kv, vv]):
        return False, f"`{norm(c2)[:60]}`, expected automaton.add_word(string, extractors)"
    auto = norm(c2.func.value)
    made = any(isinstance(s, ast.Expr) and isinstance(s.value, ast.Call) and norm(s.value.func) == f"{auto}.make_automaton" for s in mk.body)
    rets = [r for r in walk_local(mk) if isinstance(r, ast.Return)]
    if not made or not rets or norm(rets[-1].value) != auto:
        return False, "automaton is not finalised with make_automaton() and returned"
    return True, "every (string, extractor) item is grouped by string and stored as the automaton value of that string"


def rule_only_selection_is_overridden(ctx: Ctx):
    """R-C13-9: the filtered tokenizer differs from the reference tokenizer in *which extractors run*, nothing else.  The class may
    override get_extractors (and set itself up in __post_init__); overriding extract_tokens / tokenize / append_text -- e.g. to run an
    extractor only on the lines that contain its filter string -- restricts *where* a selected extractor may match, which the inclusion
    argument (a match contains a filter string) does not cover."""
    repo = ctx.repo
    tm = repo.mod("tokenizers")
    ci = repo.classes.get("AhocorasickTokenizer")
    base = repo.classes.get("Tokenizer")
    if ci is None or base is None:
        ctx.ob("R-C13-9", "tokenizers.AhocorasickTokenizer/located", False, "class not found", node=None, mod=tm)
        return
    overridden = sorted(m_ for m_ in ci.methods if m_ in base.methods and m_ not in ("get_extractors", "__post_init__"))
    ctx.ob("R-C13-9", "tokenizers.AhocorasickTokenizer/overrides", not overridden,
           f"the filtered tokenizer overrides only get_extractors of the reference tokenizer (also overridden: {overridden}): the same extractors' matches over "
           "the whole text, merged by the same tokenize()", node=ci.methods[overridden[0]] if overridden else ci.node, mod=tm)


def run(ctx: Ctx):
    ctx.level = "proof"
    ctx.explanation = (
        "R-C13-1 decides, for every generated extractor with filter strings, the regular-language inclusion "
        "L(pattern, flags) <= Sigma* strings Sigma* (lower-cased on both sides for case-insensitive extractors, with str.lower "
        "applied per character and re.IGNORECASE fold classes from sre's own tables): Thompson NFA of the pattern's syntax tree x "
        "Aho-Corasick automaton of the strings, breadth-first search for an accepting run that never enters a matching AC state; a "
        "reachable one is spelled out as the witness.  R-C13-2..7 decide the filter plumbing structurally: built from "
        "self.extractors, the three selections partition the list (truth table), same normalisation on both sides, scan with "
        "Automaton.iter under a non-emptiness guard, only additions to the always-run set, every (string, extractor) pair stored, "
        "selected extractors returned in reference order; R-C13-8 the lower-cased filter is consulted only for ASCII text (str.lower() "
        "mirrors re.IGNORECASE exactly there) and any other text selects every case-insensitive extractor."
    )
    ctx.trusted = [
        "the checker (sa/rx.py: NFA semantics for the sre subset LITERAL/IN/ANY/BRANCH/SUBPATTERN/REPEAT/AT, IGNORECASE folding from _sre.unicode_tolower and re._casefix)",
        "re._parser (pattern -> syntax tree)",
        "pyahocorasick Automaton.iter reports every occurrence of every added word",
    ]
    ctx.assumptions = [
        "finditer yields matches of the compiled pattern, which are factors of the text",
        "str.lower() of a text equals the concatenation of per-character lower() (true except Greek final sigma, which is in no fold class used here)",
        "the extractor table is the one eyecite.tokenizers builds at import from the installed reporters-db (materialised by importing it; no pattern is matched against text)",
    ]
    info = ctx.guard(structural_rules, ctx) or {}
    ctx.guard(rule_only_selection_is_overridden, ctx)
    ctx.extra["case_insensitive_filter_ascii_only"] = bool(info.get("icase_ascii_only"))
    data = materialize.load(ctx.repo.root)
    exts = data["extractors"]
    ctx.need(len(exts) >= 1000, f"only {len(exts)} extractors materialised")
    with_strings = [e["i"] for e in exts if e["strings"]]
    without = [e for e in exts if not e["strings"]]
    ctx.extra["extractors_total"] = len(exts)
    ctx.extra["extractors_with_strings"] = len(with_strings)
    ctx.extra["extractors_without_strings"] = [ext_name(e) for e in without][:20]
    ctx.extra["reporters_db_version"] = data.get("reporters_db_version")
    res = decide_all(exts, with_strings, ctx.tier, bool(info.get("icase_ascii_only")))
    states = trans = 0
    n_fail = 0
    tm = ctx.repo.mod("tokenizers")
    for i, findings, st, tr, err in res:
        e = exts[i]
        states += st; trans += tr
        name = ext_name(e)
        if err:
            ctx.ob("R-C13-1", f"extractor:{name}", False, f"pattern cannot be analysed: {err}", mod=tm, statement=e["regex"][:160])
            continue
        if not findings:
            ctx.ob("R-C13-1", f"extractor:{name}", True, "no accepted string avoids all filter strings", mod=tm,
                   statement=e["regex"][:120] if i < 3 or not e["ctor"].startswith("CitationToken") else None)
            continue
        n_fail += 1
        for key, w in findings:
            o_ok = False
            ctx.ob("R-C13-1", f"extractor:{name}", o_ok,
                   f"the pattern matches {w!r}, which contains none of the filter strings {e['strings'][:6]}"
                   f"{' (compared lower-cased)' if e['flags'] & re.I else ''}: the filter skips an extractor that matches",
                   mod=tm, witness=w, statement=e["regex"][:160])
            ctx.obs[-1]["witness_key"] = key
    ctx.extra["states"] = states
    ctx.extra["transitions"] = trans
    ctx.extra["extractors_with_witness"] = n_fail
    ctx.extra["alphabet"] = {"ascii": 128, "generic_representatives": len(rx.GENERIC_REPS), "thorough_extra": len(_G.get("extra_alphabet", []))}
    ctx.extra["exhaustive"] = True
    ctx.floor("R-C13-1", 1000)
    ctx.floor("R-C13-2", 3)
    ctx.floor("R-C13-3", 3)
    ctx.floor("R-C13-4", 4)
    ctx.floor("R-C13-5", 5)
