"""C10 -- Annotations enclose exactly the cited characters, in order
(first sentence only: no source text).  DESIGN 2/C10."""
from __future__ import annotations

import ast

from ..annot import AnnotateModel
from ..core import Ctx, assigned_names, dotted, norm, stmts_local, walk_local, presence_test
from .c09 import shared_structure


def run_c10(ctx: Ctx, M: AnnotateModel):
    m, f = M.m, M.f
    q = "annotate.annotate_citations"
    if not shared_structure(ctx, M, "C10-STRUCT"):
        return
    T, OUT, CUR, S, E, SPAN = M.T, M.OUT, M.CUR, M.S, M.E, M.SPAN
    # the updater variable: the name tested for truthiness whose true side rebinds S/E
    UPD = None
    for n in walk_local(M.LOOP):
        pt = presence_test(n.test) if isinstance(n, ast.If) else None
        if pt and pt[1] and isinstance(n.test, (ast.Name, ast.Compare)) and pt[0].isidentifier() and any(S in assigned_names(s) for s in n.body):
            UPD = pt[0]
    ctx.ob("C10-STRUCT", f"{q}/updater", UPD is not None, "offset-updater test located", node=M.LOOP, mod=m, nontrivial=False)
    if UPD is None:
        return
    # R-C10-4: without an updater T is the plain text parameter
    params = [a.arg for a in f.args.args]
    pre = f.body[: f.body.index(M.LOOP)]
    rebinds = [s for s in stmts_local(pre) if isinstance(s, (ast.Assign, ast.AnnAssign, ast.AugAssign)) and T in assigned_names(s)]
    ok = T == params[0]
    for s in rebinds:
        blk = getattr(s.parent, "body", [])
        same = any(isinstance(x, ast.Assign) and UPD in assigned_names(x) and not (isinstance(x.value, ast.Constant) and x.value.value is None) for x in blk)
        ok = ok and isinstance(s.parent, ast.If) and same
    ctx.ob("C10-R4", f"{q}/{T}:plain-when-no-updater", ok,
           f"the annotated text may be rebound only together with the creation of the offset updater, so without one it is the "
           f"plain-text parameter ({[norm(s) for s in rebinds]})", node=rebinds[0] if rebinds else f, mod=m)
    # R-C10-1: direct paths
    n_direct, bad = 0, []
    for rec in M.paths:
        if not rec.absent(UPD) or not rec.has(f"{S} < {CUR}", False):
            continue
        if "wrap" in rec.trace:
            continue
        if any(c.startswith("is_balanced") or "balanced" in c.split("(")[0] for c, o in rec.conds if not o):
            continue  # span judged unbalanced: skip/wrap handling, outside this clause
        if rec.has(f"{E} < {S}", True) or rec.has(f"{S} > {E}", True):
            continue  # contradicts the input assumption of C09/C10 (spans are given with start <= end): handling of inverted spans is outside the clause
        n_direct += 1
        pieces = [e for e in rec.emits if e["kind"] == "piece"]
        if len(pieces) != 1:
            bad.append((rec, f"{len(pieces)} pieces emitted (exit {rec.exit})"))
            continue
        pc = pieces[0]
        if pc["span_def"] != ("slice", 0, 0):
            bad.append((rec, f"the emitted span is not {T}[{S}:{E}] for the annotation's own offsets (definition {pc['span_def']})"))
        elif not pc["ok"]:
            bad.append((rec, f"piece is `{pc['text']}`"))
    detail = f"{n_direct} direct path(s): each emits exactly one `before + {T}[{S}:{E}] + after` with the annotation's own offsets"
    if bad:
        detail = f"{bad[0][1]}; on path [{bad[0][0].cond_str()[:300]}] ({len(bad)} of {n_direct} paths fail)"
    node = (bad[0][0].emits[0]["node"] if bad and bad[0][0].emits else M.LOOP)
    ctx.ob("C10-R1", f"{q}/direct-emission", not bad and n_direct > 0, detail, node=node, mod=m)
    # R-C10-2 order: sorted iteration, tail emission, not nested
    it = M.LOOP.iter
    srt = False
    if isinstance(it, ast.Name):
        defs = [s for s in stmts_local(pre) if isinstance(s, ast.Assign) and it.id in assigned_names(s)]

        def _span_key(k) -> bool:
            """key=<function returning the annotation's span (its first component)>: span order with ties in input order"""
            f_ = repo_.func(f"annotate.{k.id}") if isinstance(k, ast.Name) else k if isinstance(k, ast.Lambda) else None
            if f_ is None:
                return False
            a0 = f_.args.args[0].arg if f_.args.args else None
            if isinstance(f_, ast.Lambda):
                return norm(f_.body) == f"{a0}[0]"
            from ..core import effective_body as _eb
            b_ = _eb(f_)
            if len(b_) == 1 and isinstance(b_[0], ast.Return):
                return norm(b_[0].value) == f"{a0}[0]"
            # `start, end = annotation[0]; return start, end`
            return len(b_) == 2 and isinstance(b_[0], ast.Assign) and norm(b_[0].value) == f"{a0}[0]" and isinstance(b_[1], ast.Return) \
                and norm(b_[1].value).strip("()") == norm(b_[0].targets[0]).strip("()")

        def _sorted_def(d) -> bool:
            v = d.value
            if not (isinstance(v, ast.Call) and dotted(v.func) == "sorted" and len(v.args) == 1 and norm(v.args[0]) in (params[1], it.id)):
                # a plain copy of the input before sorting it (`annotations = list(annotations)`)
                return isinstance(v, ast.Call) and dotted(v.func) in ("list", "tuple") and len(v.args) == 1 and norm(v.args[0]) == params[1] and d is not defs[-1]
            return not v.keywords or (len(v.keywords) == 1 and v.keywords[0].arg == "key" and _span_key(v.keywords[0].value))
        repo_ = ctx.repo
        srt = len(defs) >= 1 and all(_sorted_def(d) for d in defs) and any(isinstance(d.value, ast.Call) and dotted(d.value.func) == "sorted" for d in defs)
    elif isinstance(it, ast.Call) and dotted(it.func) == "sorted" and not it.keywords:
        srt = norm(it.args[0]) == params[1]
    ctx.ob("C10-R2", f"{q}/sorted-iteration", srt, f"annotations are processed in span order: the loop iterates sorted(annotations) with the default key (`{norm(it)}`)",
           node=M.LOOP, mod=m)
    emits = [n for n in walk_local(M.LOOP) if M._is_out_call(n)]
    tail = all(n.func.attr in ("append", "extend") for n in emits)
    nested = False
    for n in emits:
        cur = n
        while cur is not M.LOOP:
            cur = cur.parent
            if isinstance(cur, (ast.For, ast.While)) and cur is not M.LOOP:
                nested = True
    ctx.ob("C10-R2", f"{q}/tail-emission", tail and not nested and bool(emits),
           "pieces are appended at the tail of the output, once per iteration (not inside a nested loop)", node=emits[0] if emits else M.LOOP, mod=m)
    # R-C10-3 before/after belong to the current annotation
    reb = [s for s in stmts_local(M.LOOP.body) if isinstance(s, (ast.Assign, ast.AugAssign, ast.AnnAssign)) and ({M.BEFORE, M.AFTER} & assigned_names(s))]
    ctx.ob("C10-R3", f"{q}/before-after-stable", not reb, "before/after are the current annotation's own strings (loop targets, never rebound)",
           node=reb[0] if reb else M.LOOP, mod=m, nontrivial=False)


def run_c10_source(ctx: Ctx, M: AnnotateModel):
    """Structural necessary conditions of the source-text clauses (the
    alignment itself is value-level and not decided)."""
    m, f = M.m, M.f
    repo = ctx.repo
    q = "annotate.annotate_citations"
    if M.bind_errors:
        return
    S, E = M.S, M.E
    # R-C10-7: start is translated to the right of inserted material, end to the left
    got = {}
    for s in stmts_local(M.LOOP.body):
        if isinstance(s, ast.Assign) and len(s.targets) == 1 and isinstance(s.targets[0], ast.Name) and s.targets[0].id in (S, E):
            for n in ast.walk(s.value):
                if isinstance(n, ast.Call) and isinstance(n.func, ast.Attribute) and n.func.attr == "update" and len(n.args) == 2:
                    got[s.targets[0].id] = (norm(n.args[0]), norm(n.args[1]).split(".")[-1], s)
    # ... and nothing else moves a translated offset before the overlap / tag handling sees it: inside the updater branch start and end are
    # assigned by the translation only
    for n in walk_local(M.LOOP):
        if isinstance(n, ast.If) and any(isinstance(c_, ast.Call) and isinstance(c_.func, ast.Attribute) and c_.func.attr == "update" for s_ in n.body for c_ in ast.walk(s_)) \
                and not any(isinstance(x, ast.If) and x is not n and any(y is n for y in ast.walk(x)) and any(
                    isinstance(c_, ast.Call) and isinstance(c_.func, ast.Attribute) and c_.func.attr == "update" for c_ in ast.walk(x.test)) for x in walk_local(M.LOOP)):
            extra = [s_ for s_ in stmts_local(n.body) if isinstance(s_, (ast.Assign, ast.AugAssign, ast.AnnAssign)) and ({S, E} & assigned_names(s_))
                     and not any(isinstance(c_, ast.Call) and isinstance(c_.func, ast.Attribute) and c_.func.attr == "update" for c_ in ast.walk(s_))]
            extra += [x for s_ in stmts_local(n.body) for x in ast.walk(s_) if isinstance(x, ast.NamedExpr) and x.target.id in (S, E)]
            ctx.ob("C10-R7", f"{q}/translated-offsets-not-moved", not extra,
                   f"in the source-text branch `{S}` / `{E}` are assigned by the offset translation only ({[norm(x)[:40] for x in extra]}): any further "
                   "adjustment decides where an annotation goes from something other than the plain span", node=extra[0] if extra else n, mod=m)
    ok = got.get(S, (None, None))[:2] == (S, "bisect_right") and got.get(E, (None, None))[:2] == (E, "bisect_left")
    ctx.ob("C10-R7", f"{q}/bisect-sides", ok,
           "a span start must map after material inserted at that offset (bisect_right) and a span end before it (bisect_left), so "
           f"leading/trailing inserted material stays outside the annotation; found {{k: v[:2] for k, v in got.items()}}".replace("{k: v[:2] for k, v in got.items()}", str({k: v[:2] for k, v in got.items()})),
           node=(got.get(S) or got.get(E) or (None, None, M.LOOP))[2], mod=m)
    # R-C10-14: the offset map used by the loop is built, in this call, from the two text parameters themselves
    upd_names = {n.func.value.id for n in walk_local(M.LOOP) if isinstance(n, ast.Call) and isinstance(n.func, ast.Attribute) and n.func.attr == "update"
                 and len(n.args) == 2 and isinstance(n.func.value, ast.Name)}
    params14 = [a.arg for a in f.args.args]

    def _ctor_of_params(call, names, before_line, scope):
        """`SpanUpdater(<p0>, <p1>, ...)` with p0, p1 distinct names from `names`, neither rebound earlier in `scope`."""
        if not (isinstance(call, ast.Call) and isinstance(call.func, ast.Name) and call.func.id == "SpanUpdater" and len(call.args) >= 2):
            return "not a direct SpanUpdater(..) construction"
        a0, a1 = call.args[0], call.args[1]
        if not (isinstance(a0, ast.Name) and isinstance(a1, ast.Name) and a0.id in names and a1.id in names and a0.id != a1.id):
            return f"arguments `{norm(a0)[:40]}`, `{norm(a1)[:40]}` are not the text parameters themselves"
        for s_ in stmts_local(scope.body):
            if isinstance(s_, (ast.Assign, ast.AugAssign, ast.AnnAssign)) and s_.lineno < before_line and ({a0.id, a1.id} & assigned_names(s_)):
                return f"`{norm(s_)[:50]}` rebinds a text parameter before the diff"
        return None

    for U in sorted(upd_names):
        binds = [s_ for s_ in stmts_local(f.body) if isinstance(s_, (ast.Assign, ast.AnnAssign)) and U in assigned_names(s_)]
        why14, at14 = None, None
        for s_ in binds:
            v = s_.value
            if v is None or (isinstance(v, ast.Constant) and v.value is None):
                continue
            w = _ctor_of_params(v, set(params14), s_.lineno, f)
            if w and isinstance(v, ast.Call) and isinstance(v.func, ast.Name) and repo.func(f"annotate.{v.func.id}") is not None \
                    and all(isinstance(a_, ast.Name) and a_.id in params14 for a_ in v.args[:2]) and len(v.args) >= 2:
                # a module-level factory: every return of it is the construction from its own first two parameters, and it keeps no state
                g = repo.func(f"annotate.{v.func.id}")
                gp = [a.arg for a in g.args.args]
                rets = [r_ for r_ in walk_local(g) if isinstance(r_, ast.Return)]
                ws = [_ctor_of_params(r_.value, set(gp[:2]), r_.lineno, g) for r_ in rets] or ["no return"]
                w = next((x for x in ws if x), None)
                if w is None and (not isinstance(v.args[0], ast.Name) or not isinstance(v.args[1], ast.Name) or v.args[0].id == v.args[1].id):
                    w = "factory not called with the two text parameters"
                if w is None:
                    w = _ctor_of_params(ast.Call(func=ast.Name(id="SpanUpdater"), args=v.args[:2], keywords=[]), set(params14), s_.lineno, f)
                if w:
                    w = f"via {v.func.id}(): {w}"
            if w:
                why14, at14 = w, s_
                break
        ctx.ob("C10-R14", f"{q}/updater-built-from-the-texts:{U}", bool(binds) and why14 is None,
               f"`{U}` is None or a SpanUpdater constructed in this call from the plain-text and source-text parameters as passed -- not from transformed "
               f"copies and not taken from a store shared between calls ({why14 or 'ok'})", node=at14 or (binds[0] if binds else M.LOOP), mod=m)
    # C10-R10: presence tests of the offset map.  `if offset_updater:` (and `if not document.plain_to_markup` in find) mean "was a source text
    # given"; with a __len__/__bool__ on SpanUpdater an updater with no breakpoints would count as absent and plain offsets would be used
    # on the source text
    from ..pitfalls import classes_with_truth_protocol, one_shot_reuse, truth_tested_instances
    from ..typed import Typed
    from ..effects import Effects

    typed = Typed.get(repo.root)
    proto = classes_with_truth_protocol(repo)
    sites = truth_tested_instances(repo, typed, list(repo.all_funcs()), {"SpanUpdater"})
    ctx.extra["truth_tests_of_SpanUpdater"] = [f"{q_}: {norm(e_)}" for q_, e_, _c in sites]
    ctx.ob("C10-R10", "annotate.SpanUpdater/presence-tests", "SpanUpdater" not in proto,
           f"SpanUpdater objects are tested for presence by truthiness at {len(sites)} site(s) ({sorted({q_ for q_, _e, _c in sites})}); that equals "
           f"`is not None` only while the class defines neither __len__ nor __bool__ (defined: {proto.get('SpanUpdater', [])})",
           node=repo.classes['SpanUpdater'].node if 'SpanUpdater' in repo.classes else f, mod=m)
    # C10-R11: the diff steps are consumed exactly once.  get_diff_steps_builtin is a generator: a look-ahead over the steps (all(), any(), a
    # first loop) would leave the table-building loop with the remainder only
    eff = Effects(repo, typed)
    for q_ in ("annotate.SpanUpdater.__init__",):
        fs_ = eff.funcs.get(q_)
        if fs_ is None:
            continue
        for name_, uses_, why_ in one_shot_reuse(repo, eff, fs_):
            ctx.ob("C10-R11", f"{q_}/one-shot:{name_}", False,
                   f"`{name_}` may hold a one-shot iterator ({why_}) and is consumed {len(uses_)} times ({[norm(u_)[:40] for u_ in uses_]}): the second "
                   "consumer sees only what the first left over, so the offset table misses its first ranges", node=uses_[0], mod=m)
        ctx.ob("C10-R11", f"{q_}/diff-steps-consumed-once", True, "no iterator local of the table builder is consumed twice", node=fs_.node, mod=m, nontrivial=False)
    # R-C10-5: the default diff engine is configured for a minimal character diff
    gd = repo.func("annotate.SpanUpdater.get_diff_steps")
    ctx.ob("C10-R5", "annotate.SpanUpdater.get_diff_steps/located", gd is not None, "diff step provider located", node=f, mod=m, nontrivial=False)
    if gd is not None:
        calls = [n for n in walk_local(gd) if isinstance(n, ast.Call) and (dotted(n.func) or "").endswith("fast_diff_match_patch.diff")]
        okc = len(calls) == 1
        kw = {}
        if okc:
            kw = {k.arg: (k.value.value if isinstance(k.value, ast.Constant) else norm(k.value)) for k in calls[0].keywords}
            okc = kw.get("timelimit") == 0 and kw.get("checklines") is False and kw.get("cleanup") == "No" and \
                [norm(a) for a in calls[0].args] == [gd.args.args[0].arg, gd.args.args[1].arg]
        rets_ = [r_ for r_ in walk_local(gd) if isinstance(r_, ast.Return)]
        direct_ = bool(calls) and all(r_.value is calls[0] for r_ in rets_) and bool(rets_) and not any(isinstance(y_, (ast.Yield, ast.YieldFrom)) for y_ in walk_local(gd))
        ctx.ob("C10-R5", "annotate.SpanUpdater.get_diff_steps/returns-the-library-diff", direct_,
               "every result of the default step provider is the library's diff of (a, b) itself (returns: "
               f"{[norm(r_.value)[:50] if r_.value is not None else None for r_ in rets_]}): steps stitched together from diffs of pieces are a diff only if the cut "
               "points correspond, which is a claim about the texts", node=next((r_ for r_ in rets_ if not calls or r_.value is not calls[0]), gd), mod=m)
        ctx.ob("C10-R5", "annotate.SpanUpdater.get_diff_steps/minimal-char-diff", okc,
               "the diff must be the minimal character diff of (a, b): no time limit, no line-mode pre-pass, no clean-up "
               f"(keywords {kw})", node=calls[0] if calls else gd, mod=m)
    # R-C10-5b: the fallback engine (difflib) compares characters as they are: no junk predicate, no automatic junk
    for q_, mod_, fn_ in repo.all_funcs():
        if mod_.name != "annotate":
            continue
        for c_ in [n for n in walk_local(fn_) if isinstance(n, ast.Call) and (dotted(n.func) or "").split(".")[-1] == "SequenceMatcher"]:
            kw_ = {k.arg: k.value for k in c_.keywords}
            junk = c_.args[0] if c_.args else kw_.get("isjunk")
            aj = c_.args[3] if len(c_.args) > 3 else kw_.get("autojunk")
            okj = (junk is None or (isinstance(junk, ast.Constant) and junk.value is None)) and isinstance(aj, ast.Constant) and aj.value is False
            ctx.ob("C10-R5", f"{q_}/difflib-no-junk", okj,
                   f"difflib must align every character (isjunk={norm(junk) if junk is not None else None}, autojunk={norm(aj) if aj is not None else 'default True'}): junk "
                   "characters never anchor a match, so a plain character standing between two insertions is reported as replaced and its offsets collapse onto the "
                   "start of the inserted material", node=c_, mod=mod_)
    rule_monotone_table(ctx, repo, m)
    rule_diff_steps(ctx, repo, m)
    # R-C10-9: the offset table is built from a diff of the very strings the offsets refer to
    init = repo.func("annotate.SpanUpdater.__init__")
    if init is not None:
        ps = [a.arg for a in init.args.args]
        calls = [n for n in walk_local(init) if isinstance(n, ast.Call) and isinstance(n.func, ast.Name) and "diff" in n.func.id]
        rebound = [x for x in stmts_local(init.body) if isinstance(x, (ast.Assign, ast.AugAssign)) and ({ps[1], ps[2]} & assigned_names(x))]
        okd = len(calls) == 1 and [norm(a) for a in calls[0].args] == [ps[1], ps[2]] and not rebound
        ctx.ob("C10-R9", "annotate.SpanUpdater.__init__/diffs-its-own-arguments", okd,
               f"offsets passed to update() index `{ps[1]}`; the ranges must come from a diff of exactly (`{ps[1]}`, `{ps[2]}`), not of transformed copies "
               f"(rebound: {[norm(x)[:50] for x in rebound]})", node=rebound[0] if rebound else (calls[0] if calls else init), mod=m)
    # R-C10-6: update is a pure function of (offset, bisect side)
    up = repo.func("annotate.SpanUpdater.update")
    ctx.ob("C10-R6", "annotate.SpanUpdater.update/located", up is not None, "offset translation located", node=f, mod=m, nontrivial=False)
    if up is not None:
        ps = [a.arg for a in up.args.args]
        bad = []
        for n in walk_local(up):
            if isinstance(n, (ast.Attribute, ast.Subscript)) and isinstance(n.ctx, (ast.Store, ast.Del)):
                key_ok = isinstance(n, ast.Subscript) and all(p_ in {x.id for x in ast.walk(n.slice) if isinstance(x, ast.Name)} for p_ in ps[1:])
                if not key_ok:
                    bad.append(n)
            if isinstance(n, ast.Call) and isinstance(n.func, ast.Attribute) and n.func.attr in ("append", "setdefault", "update", "pop", "insert") \
                    and norm(n.func.value).startswith(ps[0] + "."):
                bad.append(n)
        ctx.ob("C10-R6", "annotate.SpanUpdater.update/pure", not bad,
               "translating an offset must depend on the offset and the bisect side only (state stored under a key that ignores one of "
               f"them makes the result depend on earlier calls): {[norm(b)[:50] for b in bad]}", node=bad[0] if bad else up, mod=m)
        # R-C10-8: the range index `bisect(offsets, offset) - 1` is -1 for offset 0 with bisect_left; it must be clamped
        subs = [n for n in walk_local(up) if isinstance(n, ast.Subscript) and norm(n.value) == f"{ps[0]}.updaters"]
        okidx = bool(subs)
        for sb in subs:
            idx = sb.slice
            if isinstance(idx, ast.Name):
                defs = [x for x in stmts_local(up.body) if isinstance(x, ast.Assign) and norm(x.targets[0]) == idx.id]
                idx = defs[0].value if len(defs) == 1 else idx
            good = isinstance(idx, ast.Call) and dotted(idx.func) == "max" and any(isinstance(a, ast.Constant) and a.value == 0 for a in idx.args) \
                and any("- 1" in norm(a) for a in idx.args)
            okidx = okidx and good
        ctx.ob("C10-R8", "annotate.SpanUpdater.update/index-not-negative", okidx,
               "`bisect(offsets, offset) - 1` is -1 when nothing lies to the left (offset 0 with bisect_left): unclamped, the *last* range's updater is used and "
               "the translation is neither monotone nor at the right place", node=subs[0] if subs else up, mod=m)
        # every offset is translated through the range table (no special-cased shortcut)
        rets = [r for r in walk_local(up) if isinstance(r, ast.Return)]
        upd = None
        for x in stmts_local(up.body):
            if isinstance(x, ast.Assign) and isinstance(x.value, ast.Subscript) and norm(x.value.value) == f"{ps[0]}.updaters":
                upd = norm(x.targets[0])
        okret = len(rets) == 1 and rets[0] in up.body and (norm(rets[0].value) == f"{upd}({ps[1]})" or norm(rets[0].value).startswith(f"{ps[0]}.updaters["))
        ctx.ob("C10-R6", "annotate.SpanUpdater.update/through-the-range-table", okret,
               f"the only result is the range's updater applied to the offset (returns: {[norm(r.value)[:40] if r.value is not None else None for r in rets]}): a "
               "shortcut for particular offsets bypasses the diff and is where off-by-one errors at the text boundaries live", node=rets[0] if rets else up, mod=m)
        uses = {x.id for x in ast.walk(up) if isinstance(x, ast.Name)}
        ctx.ob("C10-R6", "annotate.SpanUpdater.update/uses-side", all(p_ in uses for p_ in ps[1:]),
               "both the offset and the bisect side are used", node=up, mod=m, nontrivial=False)


# ---- linear expressions over the loop state: {name: coefficient, 1: constant} ----------------
def _lin(e: ast.AST, env: dict):
    if isinstance(e, ast.Constant) and isinstance(e.value, int) and not isinstance(e.value, bool):
        return {1: e.value}
    if isinstance(e, ast.Name):
        return dict(env[e.id]) if e.id in env else None
    if isinstance(e, ast.BinOp) and isinstance(e.op, (ast.Add, ast.Sub)):
        a, b = _lin(e.left, env), _lin(e.right, env)
        if a is None or b is None:
            return None
        sg = 1 if isinstance(e.op, ast.Add) else -1
        out = dict(a)
        for k, v in b.items():
            out[k] = out.get(k, 0) + sg * v
        return out
    if isinstance(e, ast.UnaryOp) and isinstance(e.op, ast.USub):
        a = _lin(e.operand, env)
        return None if a is None else {k: -v for k, v in a.items()}
    return None


def _sub(a: dict, b: dict) -> dict:
    out = dict(a)
    for k, v in b.items():
        out[k] = out.get(k, 0) - v
    return {k: v for k, v in out.items() if v}


def _nonneg(d: dict, nonneg_syms) -> bool:
    """d >= 0 for all values of the symbols, given that the symbols in `nonneg_syms` are >= 0"""
    return all((k == 1 or k in nonneg_syms) and v >= 0 for k, v in d.items())


def rule_monotone_table(ctx: Ctx, repo, m):
    """C10-R12: the offset table maps plain offsets to source offsets monotonically.

    The table builder folds the diff steps with two counters; call them offset (position in the plain text) and delta, and let
    L = offset + delta (the position reached in the source).  Invariant: every value the ranges built so far can return is <= L.  It is
    checked per path of the loop body, with the step's amount an arbitrary integer >= 0: a range appended on the path must start at the
    current offset, its updater x -> c*x + e (c in {0,1}, read off the helper's return expression and the keyword bound by partial) must give
    a value >= L at the range start and <= L' (L after the path) at the range end, and L' >= L.  The lists must be append-only: rewriting an
    earlier range is outside the invariant."""
    from ..paths import enumerate_paths
    q = "annotate.SpanUpdater.__init__"
    init = repo.func(q)
    if init is None:
        ctx.ob("C10-R12", f"{q}/located", False, "table builder not found", node=None, mod=m)
        return
    loop = next((x for x in init.body if isinstance(x, ast.For) and isinstance(x.iter, ast.Call) and isinstance(x.target, ast.Tuple) and len(x.target.elts) == 2), None)
    helpers = {x.name: x for x in init.body if isinstance(x, ast.FunctionDef)}
    helpers.update({x.targets[0].id: x.value for x in init.body if isinstance(x, ast.Assign) and len(x.targets) == 1 and isinstance(x.targets[0], ast.Name) and isinstance(x.value, ast.Lambda)})
    lists = {}  # local name -> attribute it aliases
    nums = {}
    for x in init.body:
        if isinstance(x, ast.Assign) and isinstance(x.value, ast.List) and not x.value.elts:
            for t in x.targets:
                if isinstance(t, ast.Name):
                    lists[t.id] = next((norm(u) for u in x.targets if isinstance(u, ast.Attribute)), t.id)
        if isinstance(x, ast.Assign) and len(x.targets) == 1 and isinstance(x.targets[0], ast.Attribute) and isinstance(x.value, ast.Name) and x.value.id in lists:
            lists[x.value.id] = norm(x.targets[0])  # `xs = []` ... `self.xs = xs`
        if isinstance(x, ast.Assign) and len(x.targets) == 1 and isinstance(x.targets[0], ast.Name) and isinstance(x.value, ast.Constant) and x.value.value == 0:
            nums[x.targets[0].id] = 0
    ok_struct = loop is not None and len(nums) == 2 and len(lists) >= 2
    ctx.ob("C10-R12", f"{q}/shape", ok_struct, f"one loop over the diff steps folding two counters {sorted(nums)} into the parallel lists {sorted(lists)}",
           node=loop or init, mod=m, nontrivial=False)
    if not ok_struct:
        return
    AM = loop.target.elts[1].id if isinstance(loop.target.elts[1], ast.Name) else None
    # which list holds the range starts and which the updaters: by what update() bisects / calls
    up = repo.func("annotate.SpanUpdater.update")
    starts_attr = upd_attr = None
    if up is not None:
        for n in walk_local(up):
            if isinstance(n, ast.Call) and n.args and isinstance(n.args[0], ast.Attribute) and norm(n.args[0]).startswith("self.") and len(n.args) == 2 and not isinstance(n.func, ast.Attribute):
                starts_attr = norm(n.args[0])
            if isinstance(n, ast.Subscript) and isinstance(n.value, ast.Attribute) and norm(n.value).startswith("self.") and isinstance(n.ctx, ast.Load):
                upd_attr = norm(n.value)
    STARTS = next((k for k, v in lists.items() if v == starts_attr), None)
    UPDS = next((k for k, v in lists.items() if v == upd_attr), None)
    ctx.ob("C10-R12", f"{q}/lists", STARTS is not None and UPDS is not None and STARTS != UPDS,
           f"update() bisects `{starts_attr}` and indexes `{upd_attr}`; the builder fills them through locals `{STARTS}` / `{UPDS}`", node=loop, mod=m, nontrivial=False)
    if STARTS is None or UPDS is None or AM is None:
        return
    # append-only
    bad = []
    for n in walk_local(init):
        if isinstance(n, (ast.Subscript, ast.Attribute)) and isinstance(n.ctx, (ast.Store, ast.Del)) and isinstance(n, ast.Subscript) and norm(n.value) in (STARTS, UPDS, starts_attr, upd_attr):
            bad.append(n)
        if isinstance(n, ast.Call) and isinstance(n.func, ast.Attribute) and norm(n.func.value) in (STARTS, UPDS, starts_attr, upd_attr) and n.func.attr != "append":
            bad.append(n)
        if isinstance(n, (ast.Assign, ast.AugAssign)) and n not in init.body and ({STARTS, UPDS} & assigned_names(n)):
            bad.append(n)
    ctx.ob("C10-R12", f"{q}/append-only", not bad,
           "the range table is append-only (a range's updater is fixed by the step that created it); found "
           f"{[norm(b)[:60] for b in bad]}: a range rewritten later can point before values already handed out, so the translation stops being monotone",
           node=bad[0] if bad else loop, mod=m)

    def updater(e: ast.AST, env):
        """partial(F, k=E) / F as (c, e_lin)"""
        if not (isinstance(e, ast.Call) and dotted(e.func) in ("partial", "functools.partial") and len(e.args) == 1):
            return None
        h = e.args[0]
        if isinstance(h, ast.Name):
            h = helpers.get(h.id) or repo.func(f"annotate.{h.id}") or repo.func(f"utils.{h.id}")
        elif isinstance(h, ast.Attribute) and isinstance(h.value, ast.Name) and h.value.id in ("self", "SpanUpdater"):
            h = repo.func(f"annotate.SpanUpdater.{h.attr}")
            if h is not None and h.args.args and h.args.args[0].arg == "self":
                return None
        if isinstance(h, ast.FunctionDef):
            from ..core import effective_body as _eb
            hb = _eb(h)
            if len(hb) == 1 and isinstance(hb[0], ast.Return):
                ps, body = [a.arg for a in h.args.args], hb[0].value
            else:
                return None
        elif False:
            pass
        elif isinstance(h, ast.Lambda):
            ps, body = [a.arg for a in h.args.args], h.body
        else:
            return None
        if not ps:
            return None
        henv = {ps[0]: {"x": 1}}
        for k in e.keywords:
            v = _lin(k.value, env)
            if k.arg not in ps[1:] or v is None:
                return None
            henv[k.arg] = v
        if set(ps[1:]) - set(henv):
            return None
        r = _lin(body, henv)
        if r is None:
            return None
        c = r.pop("x", 0)
        return c, r

    c1, c2 = sorted(nums)
    n_paths = n_ranges = 0
    for p in enumerate_paths(loop.body):
        if p.exit not in ("fall", "continue"):
            ctx.ob("C10-R12", f"{q}/path-exit", False, f"a path leaves the fold early ({p.exit}): the remaining steps are not recorded", node=p.exit_node or loop, mod=m)
            continue
        n_paths += 1
        env = {c1: {c1: 1}, c2: {c2: 1}, AM: {AM: 1}}
        L0 = {c1: 1, c2: 1}
        pend_start = None
        ranges = []
        uenv = {}
        okp, why, at = True, "", loop
        for ev in p.events:
            if ev[0] != "stmt":
                continue
            st = ev[1]
            if isinstance(st, ast.AugAssign) and isinstance(st.target, ast.Name) and st.target.id in nums and isinstance(st.op, (ast.Add, ast.Sub)):
                v = _lin(st.value, env)
                if v is None:
                    okp, why, at = False, f"`{norm(st)}` is not linear in the counters and the step amount", st
                    break
                cur = env[st.target.id]
                sg = 1 if isinstance(st.op, ast.Add) else -1
                env[st.target.id] = {k: cur.get(k, 0) + sg * v.get(k, 0) for k in set(cur) | set(v)}
            elif isinstance(st, ast.Assign) and len(st.targets) == 1 and isinstance(st.targets[0], ast.Name) and isinstance(st.value, ast.Call) \
                    and dotted(st.value.func) in ("partial", "functools.partial"):
                uenv[st.targets[0].id] = updater(st.value, env)
            elif isinstance(st, ast.Assign) and any(isinstance(t, ast.Name) and t.id in nums for t in st.targets):
                v = _lin(st.value, env)
                if v is None or len(st.targets) != 1:
                    okp, why, at = False, f"`{norm(st)[:60]}` rebinds a counter to a value that is not linear in the counters", st
                    break
                env[st.targets[0].id] = v
            elif isinstance(st, ast.Expr) and isinstance(st.value, ast.Call) and isinstance(st.value.func, ast.Attribute) and st.value.func.attr == "append" \
                    and norm(st.value.func.value) in (STARTS, UPDS) and len(st.value.args) == 1:
                if norm(st.value.func.value) == STARTS:
                    pend_start = (_lin(st.value.args[0], env), st)
                else:
                    a0 = st.value.args[0]
                    u = uenv.get(a0.id) if isinstance(a0, ast.Name) and a0.id in uenv else updater(a0, env)
                    if pend_start is None or u is None or pend_start[0] is None:
                        okp, why, at = False, f"`{norm(st)[:70]}`: not `partial(<local helper returning a linear expression>, k=<linear>)` right after the range start", st
                        break
                    ranges.append((pend_start[0], u, dict(env[c1]), dict(env[c2]), st))
                    pend_start = None
        if okp and pend_start is not None:
            okp, why, at = False, "a range start is appended without its updater: the lists go out of step", pend_start[1]
        if okp:
            # ranges on this path: each starts at the offset counter's value when appended and lasts until the counter's final value
            off_c = c1 if any(r[0] == r[2] for r in ranges) or not ranges else c2
            if ranges and not all(r[0] == (r[2] if off_c == c1 else r[3]) for r in ranges):
                okp, why, at = False, "a range does not start at the current value of the offset counter: ranges no longer partition the plain text", ranges[0][4]
            Lend = {k: env[c1].get(k, 0) + env[c2].get(k, 0) for k in set(env[c1]) | set(env[c2])}
            if okp and len(ranges) > 1:
                okp, why, at = False, "more than one range per step", ranges[1][4]
            if okp and ranges:
                start, (c, e), _a, _b, st = ranges[0]
                end = env[off_c]
                if c not in (0, 1):
                    okp, why, at = False, f"updater has slope {c}", st
                else:
                    lo = {k: c * start.get(k, 0) + e.get(k, 0) for k in set(start) | set(e)}
                    hi = {k: c * end.get(k, 0) + e.get(k, 0) for k in set(end) | set(e)}
                    if not _nonneg(_sub(lo, L0), {AM}):
                        okp, why, at = False, f"the range's first value minus the source position reached so far is {_sub(lo, L0)}: it can lie before values already handed out", st
                    elif not _nonneg(_sub(Lend, hi), {AM}):
                        okp, why, at = False, f"the source position after the step minus the range's last value is {_sub(Lend, hi)}: the next range can start before it", st
                    n_ranges += 1
            if okp and not _nonneg(_sub(Lend, L0), {AM}):
                okp, why, at = False, f"the source position (offset + delta) moves by {_sub(Lend, L0)} on this path: it must never move backwards", loop
        if not okp:
            ctx.ob("C10-R12", f"{q}/monotone", False, why, node=at, mod=m)
    ctx.ob("C10-R12", f"{q}/monotone-invariant", n_paths >= 3 and n_ranges >= 2,
           f"{n_paths} paths of the fold preserve `every value handed out so far <= {c1} + {c2}` ({n_ranges} range-creating paths): the translation is monotone "
           "and ends at the source length whenever the steps are a diff of (plain, source)", node=loop, mod=m)


def rule_diff_steps(ctx: Ctx, repo, m, rule: str = "C10-R13"):
    """C10-R13: the steps handed to the table builder account for every character of both texts, and `=` is only claimed for characters difflib
    reports as equal.  Decided for the fallback engine, whose steps eyecite computes itself from SequenceMatcher.get_opcodes(): for each of the four
    opcode tags the loop body's path yields steps whose '='/'-' amounts add up to a2 - a1 and whose '='/'+' amounts add up to b2 - b1 (linear
    arithmetic, with difflib's documented facts a1 == a2 for insert, b1 == b2 for delete, equal lengths for equal), and '=' is yielded for tag
    `equal` only.  Steps that stop short of the end of a text leave its tail translated by the last shift: past the end of the source."""
    from ..paths import enumerate_paths
    fn = None
    for q_, mod_, f_ in repo.all_funcs():
        if mod_.name == "annotate" and any(isinstance(n, ast.Call) and (dotted(n.func) or "").split(".")[-1] == "SequenceMatcher" for n in walk_local(f_)):
            fn, q = f_, q_
    if fn is None:
        ctx.ob(rule, "annotate/difflib-engine", True, "no difflib engine in the package", node=None, mod=m, nontrivial=False)
        return
    loop = next((x for x in walk_local(fn) if isinstance(x, ast.For) and isinstance(x.iter, ast.Call) and isinstance(x.iter.func, ast.Attribute)
                 and x.iter.func.attr == "get_opcodes" and isinstance(x.target, ast.Tuple) and len(x.target.elts) == 5), None)
    ctx.ob(rule, f"{q}/steps-from-opcodes", loop is not None,
           "the steps are derived from SequenceMatcher.get_opcodes() (tag, a1, a2, b1, b2), whose blocks tile both texts completely; another derivation "
           "(matching blocks, a hand-written walk) would need its own completeness argument", node=loop or fn, mod=m)
    if loop is None:
        return
    others = [y for y in walk_local(fn) if isinstance(y, (ast.Yield, ast.YieldFrom, ast.Return)) and not any(y is z for z in ast.walk(loop)) and getattr(y, "value", None) is not None]
    ctx.ob(rule, f"{q}/steps-only-from-the-loop", not others, f"no step is produced outside the opcode loop ({[norm(o)[:40] for o in others]})", node=others[0] if others else loop, mod=m,
           nontrivial=False)
    OP, A1, A2, B1, B2 = [e.id if isinstance(e, ast.Name) else "?" for e in loop.target.elts]
    facts = {"insert": {A2: {A1: 1}}, "delete": {B2: {B1: 1}}, "equal": {B2: {B1: 1, A2: 1, A1: -1}}, "replace": {}}
    seen = set()

    class _Undecided(Exception):
        pass

    def run_tag(tag, choice=0):
        """interpret the loop body for one opcode tag: conditions on the tag are decided, yields are collected"""
        flags, funcs = {}, {}
        steps = []
        und = []

        def cond(e):
            if isinstance(e, ast.Compare) and len(e.ops) == 1 and norm(e.left) == OP:
                c0 = e.comparators[0]
                if isinstance(e.ops[0], (ast.Eq, ast.NotEq)) and isinstance(c0, ast.Constant):
                    return (tag == c0.value) == isinstance(e.ops[0], ast.Eq)
                if isinstance(e.ops[0], (ast.In, ast.NotIn)) and isinstance(c0, (ast.Tuple, ast.List, ast.Set)) and all(isinstance(x, ast.Constant) for x in c0.elts):
                    return (tag in [x.value for x in c0.elts]) == isinstance(e.ops[0], ast.In)
            if isinstance(e, ast.Name) and e.id in flags:
                return flags[e.id]
            if isinstance(e, ast.Name) and e.id in funcs:
                return funcs[e.id] is not None
            if isinstance(e, ast.Compare) and len(e.ops) == 1 and isinstance(e.left, ast.Name) and e.left.id in funcs and isinstance(e.comparators[0], ast.Constant) \
                    and e.comparators[0].value is None and isinstance(e.ops[0], (ast.Is, ast.IsNot)):
                return (funcs[e.left.id] is None) == isinstance(e.ops[0], ast.Is)
            if isinstance(e, ast.UnaryOp) and isinstance(e.op, ast.Not):
                return not cond(e.operand)
            if isinstance(e, ast.BoolOp):
                vs = [cond(v) for v in e.values]
                return all(vs) if isinstance(e.op, ast.And) else any(vs)
            # a condition on something else (lengths, say): both outcomes are explored, each must conserve
            und.append(norm(e)[:50])
            if len(und) > 4:
                raise _Undecided(f"too many conditions that are not tests of the opcode tag ({und})")
            return bool((choice >> (len(und) - 1)) & 1)

        def table_entry(call):
            # TABLE.get(operation) / TABLE[operation] on a module-level dict of functions
            base = call.func.value if isinstance(call, ast.Call) and isinstance(call.func, ast.Attribute) and call.func.attr == "get" else (
                call.value if isinstance(call, ast.Subscript) else None)
            key = (call.args[0] if isinstance(call, ast.Call) and call.args else call.slice if isinstance(call, ast.Subscript) else None)
            if not isinstance(base, ast.Name) or key is None or norm(key) != OP:
                raise _Undecided(f"`{norm(call)[:50]}` is not a look-up of the opcode tag in a table")
            tbl = m.toplevel_assign(base.id)
            if not isinstance(tbl, ast.Dict):
                raise _Undecided(f"`{base.id}` is not a module-level dict literal")
            for k_, v_ in zip(tbl.keys, tbl.values):
                if isinstance(k_, ast.Constant) and k_.value == tag:
                    f_ = repo.func(f"annotate.{v_.id}") if isinstance(v_, ast.Name) else v_ if isinstance(v_, ast.Lambda) else None
                    if f_ is None:
                        raise _Undecided(f"table entry for `{tag}` is not a function of this module")
                    return f_
            return None

        def emit(v, env):
            if not (isinstance(v, ast.Tuple) and len(v.elts) == 2 and isinstance(v.elts[0], ast.Constant) and v.elts[0].value in ("=", "+", "-")):
                raise _Undecided(f"step `{norm(v)[:40]}` is not (('='|'+'|'-'), amount)")
            amt = _lin(v.elts[1], env)
            if amt is None:
                raise _Undecided(f"amount `{norm(v.elts[1])[:40]}` is not linear in the opcode's offsets")
            steps.append((v.elts[0].value, amt, v))

        def block(stmts, env):
            for st in stmts:
                if isinstance(st, ast.If):
                    if block(st.body if cond(st.test) else st.orelse, env) == "stop":
                        return "stop"
                elif isinstance(st, ast.Assign) and len(st.targets) == 1 and isinstance(st.targets[0], ast.Name):
                    nm = st.targets[0].id
                    v0 = st.value
                    if (isinstance(v0, ast.Call) and isinstance(v0.func, ast.Attribute) and v0.func.attr == "get" and v0.args and norm(v0.args[0]) == OP) \
                            or (isinstance(v0, ast.Subscript) and norm(v0.slice) == OP):
                        funcs[nm] = table_entry(v0)
                    else:
                        flags[nm] = cond(v0)
                elif isinstance(st, ast.Expr) and isinstance(st.value, ast.Yield):
                    emit(st.value.value, env)
                elif isinstance(st, ast.Expr) and isinstance(st.value, ast.YieldFrom):
                    c = st.value.value
                    if isinstance(c, (ast.Tuple, ast.List)):
                        for e_ in c.elts:
                            emit(e_, env)
                        continue
                    if not (isinstance(c, ast.Call) and isinstance(c.func, ast.Name) and c.func.id in funcs and funcs[c.func.id] is not None):
                        raise _Undecided(f"`{norm(st)[:50]}`: steps come from something that is not a resolved table entry")
                    f_ = funcs[c.func.id]
                    ps = [a.arg for a in f_.args.args]
                    body = f_.body if isinstance(f_, ast.Lambda) else None
                    if body is None:
                        from ..core import effective_body as _eb
                        fb = _eb(f_)
                        if len(fb) != 1 or not isinstance(fb[0], ast.Return):
                            raise _Undecided(f"`{f_.name}` is not a single return of its steps")
                        body = fb[0].value
                    if len(ps) != len(c.args) or not isinstance(body, (ast.Tuple, ast.List)):
                        raise _Undecided(f"`{norm(c)[:40]}`: the entry does not return a tuple of steps")
                    env2 = {}
                    for p_, a_ in zip(ps, c.args):
                        v_ = _lin(a_, env)
                        if v_ is None:
                            raise _Undecided(f"argument `{norm(a_)[:30]}` is not linear")
                        env2[p_] = v_
                    for e_ in body.elts:
                        emit(e_, env2)
                elif isinstance(st, ast.Continue):
                    return "stop"
                elif isinstance(st, ast.Pass) or (isinstance(st, ast.Expr) and isinstance(st.value, ast.Constant)):
                    continue
                elif isinstance(st, ast.Expr) and isinstance(st.value, ast.Call) and (dotted(st.value.func) or "").split(".")[0] in ("logger", "logging", "log"):
                    continue
                else:
                    raise _Undecided(f"statement `{norm(st)[:50]}` in the opcode loop is outside the step-producing forms")
            return None

        env = {A1: {A1: 1}, A2: {A2: 1}, B1: {B1: 1}, B2: {B2: 1}}
        env.update(facts[tag])
        block(loop.body, env)
        return steps, env, len(und)

    for tag in facts:
        ok, why, at = True, "", loop
        try:
            runs = [run_tag(tag)]
            for ch in range(1, 2 ** runs[0][2]):
                runs.append(run_tag(tag, ch))
        except _Undecided as e:
            ctx.ob(rule, f"{q}/conserves:{tag}", False, f"cannot account for the steps of `{tag}` blocks: {e}", node=loop, mod=m)
            seen.add(tag)
            continue
        if not any(r_[0] for r_ in runs):
            continue
        seen.add(tag)
        for steps, env, _n in runs:
            a_sum, b_sum = {}, {}
            for k, amt, node_ in steps:
                if k == "=" and tag != "equal":
                    ok, why, at = False, f"'=' is yielded for a `{tag}` block: its characters differ, so offsets inside it must not be carried over one to one", node_
                for side, kinds in ((a_sum, "=-"), (b_sum, "=+")):
                    if k in kinds:
                        for kk, vv in amt.items():
                            side[kk] = side.get(kk, 0) + vv
            want_a = _sub(env[A2], env[A1])
            want_b = _sub(env[B2], env[B1])
            if ok and _sub(a_sum, want_a):
                ok, why = False, f"for `{tag}` the '=' and '-' amounts add up to {a_sum}, not to a2 - a1 = {want_a}: part of the plain text is not accounted for"
            if ok and _sub(b_sum, want_b):
                ok, why = False, f"for `{tag}` the '=' and '+' amounts add up to {b_sum}, not to b2 - b1 = {want_b}: part of the source text is not accounted for"
        ctx.ob(rule, f"{q}/conserves:{tag}", ok, why or f"`{tag}` blocks are turned into steps that cover exactly a[a1:a2] and b[b1:b2]", node=at, mod=m)
    missing = sorted(set(facts) - seen)
    ctx.ob(rule, f"{q}/all-opcode-tags", not missing, f"every opcode tag has a branch (missing: {missing}): an unhandled block silently drops its characters from the table",
           node=loop, mod=m)


def run(ctx: Ctx):
    ctx.level = "other"
    ctx.explanation = (
        "Only the no-source clause is decided: on every loop-body path where no offset updater exists, the span does not "
        "overlap the cursor and the span is not judged unbalanced, exactly one piece `before + T[start:end] + after` is emitted "
        "with the annotation's own start/end (version 0 of both) and its own before/after, T is the plain text, iteration is "
        "over sorted(annotations) and pieces are appended at the tail.  For the source-text clauses only three structural "
        "necessary conditions are decided: R5 the default diff engine is called for the minimal character diff (timelimit=0, "
        "checklines=False, cleanup='No'), R6 SpanUpdater.update is a pure function of (offset, bisect side), R7 starts are "
        "translated with bisect_right and ends with bisect_left, R8 the range index is clamped at 0, and R12 the *monotonicity* clause: the range table is "
        "append-only and every path of the fold over the diff steps preserves `all values handed out so far <= offset + delta` (linear arithmetic over the "
        "two counters and an arbitrary step amount >= 0), so the translation is monotone for every sequence of steps.  Exact enclosure (the alignment) is "
        "NOT decided: it is a property of values returned by fast_diff_match_patch / difflib and of two bisections over them."
    )
    ctx.trusted = ["the checker (sa/annot.py)", "Python slicing and tuple ordering"]
    ctx.assumptions = ["default annotator", "spans satisfy 0 <= start <= end <= len(text)"]
    M = AnnotateModel(ctx)
    run_c10(ctx, M)
    ctx.guard(run_c10_source, ctx, M)
    ctx.floor("C10-R1", 1)
    ctx.floor("C10-R2", 2)
