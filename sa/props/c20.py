"""C20 -- Cleaning is composable, idempotent and preserves content
(structural part, DESIGN 2/C20)."""
from __future__ import annotations

import ast
import re as _re
from typing import List, Optional

from .. import rx
from ..core import Ctx, assigned_names, dotted, effective_body, names_in, norm, stmts_local, walk_local
from ..paths import enumerate_paths


def rule_fold(ctx: Ctx):
    repo = ctx.repo
    m = repo.mod("clean")
    fn = repo.need_func("clean.clean_text")
    q = "clean.clean_text"
    TEXT, STEPS = fn.args.args[0].arg, fn.args.args[1].arg
    loops = [s for s in fn.body if isinstance(s, ast.For)]
    ok = len(loops) == 1 and norm(loops[0].iter) == STEPS and isinstance(loops[0].target, ast.Name)
    POS = None
    if not ok and len(loops) == 1 and norm(loops[0].iter) == f"enumerate({STEPS})" and isinstance(loops[0].target, ast.Tuple) and len(loops[0].target.elts) == 2 \
            and all(isinstance(e_, ast.Name) for e_ in loops[0].target.elts):
        ok, POS = True, loops[0].target.elts[0].id  # `for position, step in enumerate(steps)`: the same steps in the same order
    ctx.ob("R-C20-1", f"{q}/single-loop-over-steps", ok, "one loop over the steps parameter, in order", node=loops[0] if loops else fn, mod=m)
    if not ok:
        return
    loop = loops[0]
    STEP = loop.target.id if POS is None else loop.target.elts[1].id
    # loop-carried state: only the text
    assigned = set()
    for s in loop.body:
        assigned |= assigned_names(s)
    outside = assigned_names(fn) - assigned - {STEP, POS}
    extra_state = []
    for n in walk_local(loop):
        if isinstance(n, ast.Call) and isinstance(n.func, ast.Attribute) and isinstance(n.func.value, ast.Name):
            nm = n.func.value.id
            if nm in outside and nm not in (TEXT,) and n.func.attr in ("add", "append", "update", "setdefault", "pop", "remove", "discard", "extend", "insert", "clear"):
                extra_state.append(norm(n)[:40])
        if isinstance(n, (ast.Subscript, ast.Attribute)) and isinstance(n.ctx, ast.Store):
            extra_state.append(norm(n)[:40])
    other_assigned = assigned - {TEXT, STEP}
    paths = enumerate_paths(loop.body)
    # the application: TEXT = <callee>(TEXT)
    applies = [s for s in stmts_local(loop.body) if isinstance(s, ast.Assign) and norm(s.targets[0]) == TEXT and isinstance(s.value, ast.Call)
               and [norm(a) for a in s.value.args] == [TEXT] and not s.value.keywords]
    ctx.ob("R-C20-1", f"{q}/applies-step-to-text", bool(applies), f"`{TEXT} = <step function>({TEXT})` located", node=loop, mod=m)
    # loop-carried state: a name assigned in the body is carried only if some path reads it before writing it
    carried = set()
    for p in paths:
        written = set()
        for ev in p.events:
            node = ev[1] if ev[0] in ("stmt", "cond") else None
            if node is None:
                continue
            loads = {n.id for n in ast.walk(node) if isinstance(n, ast.Name) and isinstance(n.ctx, ast.Load)}
            carried |= {n for n in loads if n in other_assigned and n not in written}
            written |= assigned_names(node) if ev[0] == "stmt" else set()
    carried = sorted(carried)
    reads_outside = sorted({n.id for n in walk_local(loop) if isinstance(n, ast.Name) and isinstance(n.ctx, ast.Load) and n.id in outside and n.id not in (TEXT, STEPS)})
    ctx.ob("R-C20-1", f"{q}/only-text-is-carried", not extra_state and not carried and not reads_outside,
           f"the result of a step may depend only on the text so far and the step itself: no other state is carried between iterations "
           f"(mutations {extra_state}, loop variables read before they are set {carried}, outer locals read {reads_outside})", node=loop, mod=m)
    # every path through the body applies exactly one function determined by the step, or raises
    okp, why, n_apply, n_raise = True, "", 0, 0
    table = None

    def source_of(e: ast.AST, src) -> str:
        nonlocal table
        if isinstance(e, ast.Subscript) and norm(e.slice) == STEP and isinstance(e.value, ast.Name):
            table = e.value.id
            return "lookup"
        if isinstance(e, ast.Call) and isinstance(e.func, ast.Attribute) and e.func.attr == "get" and isinstance(e.func.value, ast.Name) and [norm(a) for a in e.args] == [STEP]:
            table = e.func.value.id
            return "lookup"
        if isinstance(e, ast.IfExp) and isinstance(e.orelse, ast.Constant) and e.orelse.value is None:
            return source_of(e.body, src)
        if norm(e) == STEP:
            return "callable"
        if isinstance(e, ast.Name) and e.id in src:
            return src[e.id]
        return f"other:{norm(e)[:30]}"

    for p in paths:
        applied = 0
        src = {}
        for ev in p.events:
            if ev[0] == "stmt" and isinstance(ev[1], ast.Assign) and len(ev[1].targets) == 1:
                t = norm(ev[1].targets[0])
                if t == TEXT:
                    applied += 1
                    v = ev[1].value
                    kind = source_of(v.func, src) if isinstance(v, ast.Call) and [norm(a) for a in v.args] == [TEXT] and not v.keywords else "other"
                    if kind not in ("lookup", "callable"):
                        okp, why = False, f"text updated by `{norm(ev[1])[:50]}` (function source {kind})"
                elif isinstance(ev[1].targets[0], ast.Name):
                    src[t] = source_of(ev[1].value, src)
        if p.exit == "raise":
            n_raise += 1
            if applied:
                okp, why = False, "a step is applied before the unknown-step error is raised"
            continue
        if p.exit in ("fall", "continue"):
            n_apply += 1
            if applied != 1:
                okp, why = False, f"a path through the loop body applies {applied} functions (a step must be applied exactly once)"
        else:
            okp, why = False, f"loop body exits by {p.exit}"
    ctx.ob("R-C20-1", f"{q}/each-step-applied-once", okp and n_apply >= 2,
           f"every non-raising path applies exactly one function, chosen by the current step alone ({n_apply} paths)" if okp else why, node=loop, mod=m)
    rets = [r for r in walk_local(fn) if isinstance(r, ast.Return)]
    ctx.ob("R-C20-1", f"{q}/returns-text", len(rets) == 1 and norm(rets[0].value) == TEXT and rets[0] in fn.body and fn.body.index(rets[0]) > fn.body.index(loop),
           "the text after the last step is returned", node=rets[0] if rets else fn, mod=m, nontrivial=False)
    # R-C20-2
    okr, why = False, "no raising path"
    for p in paths:
        if p.exit != "raise":
            continue
        conds = [(norm(ev[1]), ev[2]) for ev in p.events if ev[0] == "cond"]
        exc = p.exit_node.exc
        name = dotted(exc.func) if isinstance(exc, ast.Call) else dotted(exc) if exc is not None else None
        # "not a key of the table": the membership test failed, or the `.get()` result held in a local is None
        no_key = (f"{STEP} in {table}", False) in conds or any(c_.endswith(" is None") and o_ and isinstance(ev_[1], ast.Compare) and isinstance(ev_[1].left, ast.Name)
                                                                 for ev_ in p.events if ev_[0] == "cond" for c_, o_ in [(norm(ev_[1]), ev_[2])])
        okr = name == "ValueError" and no_key and (f"callable({STEP})", False) in conds
        why = f"raises {name} under {conds}"
    ctx.ob("R-C20-2", f"{q}/unknown-step-raises-ValueError", okr,
           f"a step that is neither a key of the lookup table nor callable raises ValueError before anything is applied ({why})", node=loop, mod=m)
    # R-C20-3 table agreement
    tv = m.toplevel_assign(table) if table else None
    okt = isinstance(tv, ast.Dict) and all(isinstance(k, ast.Constant) and isinstance(v, ast.Name) for k, v in zip(tv.keys, tv.values))
    detail = "lookup table not a dict of name -> function"
    if okt:
        bad = []
        for k, v in zip(tv.keys, tv.values):
            f = repo.func(f"clean.{v.id}")
            if f is None or len(f.args.args) != 1 or k.value != v.id:
                bad.append(f"{k.value!r}: {v.id}")
        public = [s.name for s in m.tree.body if isinstance(s, ast.FunctionDef) and not s.name.startswith("_") and s.name != fn.name]
        missing = [p_ for p_ in public if p_ not in [k.value for k in tv.keys]]
        okt = not bad and not missing
        detail = f"entries {[k.value for k in tv.keys]}; mismatched {bad}; unregistered public cleaners {missing}"
    ctx.ob("R-C20-3", f"clean.{table}/agrees-with-functions", okt, f"every entry maps a cleaner's own name to that one-argument module function: {detail}",
           node=tv or fn, mod=m)
    return table


def _single_repeat(pattern: str):
    """(char-set predicate items, n) if pattern == C{n,inf} greedy for one
    character set C (a literal prefix of the same single character merged)."""
    tree = list(rx.parse(pattern, 0))
    n0 = 0
    lit = None
    while tree and str(tree[0][0]) == "LITERAL" and len(tree) > 1:
        if lit is None:
            lit = tree[0][1]
        elif lit != tree[0][1]:
            return None
        n0 += 1
        tree = tree[1:]
    if len(tree) != 1 or str(tree[0][0]) != "MAX_REPEAT":
        return None
    lo, hi, sub = tree[0][1]
    if hi != rx.MAXREPEAT:
        return None
    sub = list(sub)
    if len(sub) != 1:
        return None
    op, av = sub[0]
    if str(op) == "LITERAL":
        items = (("LITERAL", av),)
        if lit is not None and lit != av:
            return None
    elif str(op) == "IN":
        items = tuple((str(o), a) for o, a in av)
        if lit is not None:
            return None
    else:
        return None
    return items, lo + n0


def rule_substitutions(ctx: Ctx):
    repo = ctx.repo
    m = repo.mod("clean")
    n = 0
    # the cleaners the property speaks about are the ones a step name can select (cleaners_lookup), minus the html cleaner (the one
    # that parses its argument with lxml)
    table = m.toplevel_assign("cleaners_lookup")
    registered = {v.id for v in table.values if isinstance(v, ast.Name)} if isinstance(table, ast.Dict) else set()
    html_names = {v.id for k_, v in zip(table.keys, table.values) if isinstance(v, ast.Name) and isinstance(k_, ast.Constant) and k_.value == "html"} \
        if isinstance(table, ast.Dict) else set()
    for s in m.tree.body:
        if not isinstance(s, ast.FunctionDef) or len(s.args.args) != 1:
            continue
        body = effective_body(s)
        is_sub = len(body) == 1 and isinstance(body[0], ast.Return) and isinstance(body[0].value, ast.Call) and dotted(body[0].value.func) == "re.sub"
        if not is_sub:
            uses_lxml = any(isinstance(x, ast.Attribute) and (dotted(x) or "").startswith("lxml") for x in ast.walk(s))
            if s.name in registered and not uses_lxml and s.name not in html_names:
                n += 1
                ctx.ob("R-C20-4", f"clean.{s.name}/run-collapse", False,
                       "a text cleaner selectable by name must be a single `return re.sub(<constant>, <constant>, text)` for the run-collapse lemma "
                       "(idempotent, leaves no run, keeps all other characters in order) to apply; this one is not, so none of the three clauses is shown",
                       node=s, mod=m)
            continue
        c = body[0].value
        n += 1
        P = s.args.args[0].arg
        ok, why = False, ""
        if len(c.args) == 3 and not c.keywords and isinstance(c.args[0], ast.Constant) and isinstance(c.args[1], ast.Constant) and norm(c.args[2]) == P:
            pat, rep = c.args[0].value, c.args[1].value
            sr = _single_repeat(pat)
            if sr is None:
                why = f"pattern {pat!r} is not a single greedy repeat C{{n,}} of one character set"
            else:
                items, lo = sr
                pred = rx.Pred("IN", items, False) if items[0][0] != "LITERAL" or len(items) > 1 else rx.Pred("LITERAL", items[0][1], False)
                if lo < 1:
                    why = f"pattern {pat!r} matches the empty string (n = {lo}): the replacement would be inserted between all characters"
                elif rep == "":
                    ok, why = True, f"removes every maximal run of length >= {lo} of {pat!r}'s class"
                elif len(rep) == 1 and pred.matches(rep) and lo == 1 and "\\" not in rep:
                    ok, why = True, f"replaces every maximal run of the class by one member {rep!r}"
                else:
                    why = f"replacement {rep!r} must be empty, or one character of the class with n = 1 (n = {lo})"
        else:
            why = "not re.sub(<constant>, <constant>, text) without flags"
        # the class C is computed with the standard library's semantics of \\s / \\w / \\d (rx._category: \\s is str.isspace).  Another engine bound to
        # the name `re` defines them differently (the `regex` module's \\s is Unicode White_Space: U+001C..U+001F are not in it), so a run of what
        # Python calls whitespace would survive
        from ..external import origin_of
        origin = origin_of(m.imports, c.func) or ""
        uses_category = ok and isinstance(c.args[0], ast.Constant) and any(str(o_) == "CATEGORY" for o_, _a in (sr[0] if sr else ()))
        if uses_category and origin.split(".")[0] != "re":
            ok, why = False, (f"the pattern uses a character category and `re` is bound to `{origin.split('.')[0]}` here: its categories differ from the "
                              "standard library's (\\s: U+001C..U+001F are whitespace for str.isspace and stdlib re, not for the regex module), so runs of those "
                              "characters are left in place")
        ctx.ob("R-C20-4", f"clean.{s.name}/run-collapse", ok,
               "lemma: re.sub(C{n,}, R, t) with R = '' (or R in C, |R| = 1, n = 1) leaves no run of C longer than |R| (n=1) / no run >= n, is idempotent and keeps "
               f"every character outside C in order -- {why}", node=s, mod=m)
    ctx.need(n >= 3, f"expected >=3 substitution cleaners, found {n}")


def rule_html(ctx: Ctx):
    repo = ctx.repo
    m = repo.mod("clean")
    fn = repo.func("clean.html")
    ctx.ob("R-C20-5", "clean.html/located", fn is not None, "html cleaner located", mod=m, nontrivial=False)
    if fn is None:
        return
    P = fn.args.args[0].arg
    calls = [n for n in walk_local(fn) if isinstance(n, ast.Call)]
    names = [dotted(c.func) or norm(c.func) for c in calls]
    tree_var = None
    for s in stmts_local(fn.body):
        if isinstance(s, ast.Assign) and isinstance(s.value, ast.Call) and (dotted(s.value.func) or "").endswith("fromstring") and [norm(a) for a in s.value.args] == [P]:
            tree_var = norm(s.targets[0])
    rebinds = [x for x in stmts_local(fn.body) if isinstance(x, (ast.Assign, ast.AugAssign, ast.AnnAssign)) and P in assigned_names(x)]
    ctx.ob("R-C20-5", "clean.html/parses-its-input", tree_var is not None and not rebinds,
           f"the parser is handed the argument itself (`{P}` is not rewritten first: {[norm(x)[:60] for x in rebinds]}); characters removed or replaced before "
           "parsing are missing from the text nodes that come back", node=rebinds[0] if rebinds else fn, mod=m)
    xp = [c for c in calls if isinstance(c.func, ast.Attribute) and c.func.attr == "xpath" and norm(c.func.value) == tree_var]
    others = [c for c in calls if tree_var and (tree_var in [norm(a) for a in c.args] or (isinstance(c.func, ast.Attribute) and norm(c.func.value) == tree_var and c.func.attr != "xpath"))]
    ctx.ob("R-C20-5", "clean.html/tree-not-modified", tree_var is not None and len(xp) == 1 and not others,
           f"the parsed tree is queried as parsed: nothing touches it between fromstring() and xpath() (other uses: {[norm(o)[:40] for o in others]})",
           node=others[0] if others else fn, mod=m)
    if xp and isinstance(xp[0].args[0], ast.Constant):
        qy = _re.sub(r"\s+", "", xp[0].args[0].value)
        parents = set(_re.findall(r"parent::(\w+)", qy))
        okq = qy.startswith("//text()[") and "not(" in qy and parents == {"style", "link", "head", "script"} and "normalize-space()" in qy
        ctx.ob("R-C20-5", "clean.html/query", okq,
               f"the query selects all non-blank text nodes whose parent is not one of style/link/head/script (excluded parents: {sorted(parents)})", node=xp[0], mod=m)
    rets = [r for r in walk_local(fn) if isinstance(r, ast.Return)]
    # a document lxml refuses as empty has no text nodes: `return ""` in the handler of the parser's error is the same answer
    def _empty_in_parse_handler(r):
        cur_ = getattr(r, "parent", None)
        return isinstance(r.value, ast.Constant) and r.value.value == "" and isinstance(cur_, ast.ExceptHandler) and cur_.type is not None \
            and (dotted(cur_.type) or "").endswith("ParserError")
    rets = [r for r in rets if not _empty_in_parse_handler(r)]
    okj = len(rets) == 1 and isinstance(rets[0].value, ast.Call) and norm(rets[0].value.func) == "' '.join" and xp and len(rets[0].value.args) == 1 and (
        rets[0].value.args[0] is xp[0]
        or any(isinstance(s, ast.Assign) and s.value is xp[0] and norm(s.targets[0]) == norm(rets[0].value.args[0]) for s in stmts_local(fn.body)))
    ctx.ob("R-C20-5", "clean.html/joined-in-document-order", bool(okj), "the text nodes are joined with single spaces in the order xpath returns them (document order)",
           node=rets[0] if rets else fn, mod=m)


def run(ctx: Ctx):
    ctx.level = "other"
    ctx.explanation = (
        "R-C20-1 clean_text is a fold whose only loop-carried variable is the text, updated once per step by a function determined by the "
        "current step alone, and it returns the text: clean_text(t, a+b) = clean_text(clean_text(t, a), b) for all step lists; R-C20-2 a step "
        "that is neither a table key nor callable raises ValueError before anything is applied; R-C20-3 the table maps each public cleaner's own "
        "name to that function; R-C20-4 each substitution cleaner is re.sub(C{n,}, R, text) with constants, no flags, R empty or a single member of "
        "C with n = 1 (decided on the pattern's syntax tree) -- by the two-line lemma it is idempotent, leaves no run it should remove and keeps "
        "all other characters in order; R-C20-5 the html cleaner queries the tree exactly as parsed, with the four excluded parents, joined in "
        "document order.  NOT decided: lxml's parsing / XPath evaluation on concrete trees (the visible-text clause proper)."
    )
    ctx.trusted = ["the checker", "re._parser", "re.sub replaces leftmost non-overlapping maximal (greedy) matches"]
    ctx.assumptions = ["callables passed as steps are outside the claim"]
    ctx.guard(rule_fold, ctx)
    ctx.guard(rule_substitutions, ctx)
    ctx.guard(rule_html, ctx)
    ctx.floor("R-C20-1", 4)
    ctx.floor("R-C20-4", 3)
