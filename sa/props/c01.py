"""C01 -- Standard citation forms are recognised with exact components and
offsets.  Only the *plumbing* without which no input can satisfy C01 is decided
(DESIGN 2/C01); which strings each generated pattern matches is value-level."""
from __future__ import annotations

import ast
import re as _re
from typing import Any, Dict, List, Optional, Set

from .. import materialize, rx
from ..core import Ctx, Locals, assigned_names, dotted, names_in, norm, presence_test, stmts_local, walk_local
from ..paths import enumerate_paths, guards_of, stmt_of
from ..typed import Typed, eyecite_class
from .c04 import C04, dedupe_group_names
from .c19 import rule_append_order

NOT_A_CITATION = {"ParagraphToken", "StopWordToken"}


def rule_dispatch(ctx: Ctx, data):
    repo = ctx.repo
    fm = repo.mod("find")
    gc = repo.need_func("find.get_citations")
    writers = sorted({e["ctor"].split(".")[0] for e in data["extractors"]})
    ctx.extra["token_classes_constructed"] = writers
    # the variable holding type(token)
    TT = None
    for s in stmts_local(gc.body):
        if isinstance(s, ast.Assign) and isinstance(s.value, ast.Call) and dotted(s.value.func) == "type":
            TT = norm(s.targets[0])
    readers: Dict[str, ast.AST] = {}
    for n in walk_local(gc):
        if isinstance(n, ast.Compare) and len(n.ops) == 1 and norm(n.left) == TT:
            cls = norm(n.comparators[0])
            ok_is = isinstance(n.ops[0], (ast.Is, ast.IsNot))
            ctx.ob("R-C01-1", f"find.get_citations/dispatch:{cls}/identity-test", ok_is,
                   "token kinds are dispatched with `is` / `is not` on the exact class (a subclass cannot shadow a branch)", node=n, mod=fm, nontrivial=False)
            readers.setdefault(cls, n)
        if isinstance(n, ast.Call) and dotted(n.func) in ("isinstance", "issubclass") and n.args and norm(n.args[0]) in (TT, "token"):
            ctx.ob("R-C01-1", f"find.get_citations/dispatch:{norm(n.args[1]) if len(n.args) > 1 else '?'}/identity-test", False,
                   "token kinds are dispatched with isinstance: a subclass is taken for its base", node=n, mod=fm, nontrivial=False)
    ctx.need(TT is not None and readers, "token-type dispatch chain not found in get_citations")
    loop = next((s for s in gc.body if isinstance(s, ast.For)), None)
    paths = enumerate_paths(loop.body) if loop is not None else []
    CV = None
    for st in (loop.body if loop is not None else []):
        if isinstance(st, ast.Expr) and isinstance(st.value, ast.Call) and isinstance(st.value.func, ast.Attribute) and st.value.func.attr == "append" \
                and len(st.value.args) == 1 and isinstance(st.value.args[0], ast.Name):
            CV = st.value.args[0].id
            APP = st
    ctx.need(CV is not None, "no top-level `<list>.append(<citation>)` in the main loop of get_citations")

    def known_type(p) -> Optional[str]:
        """the token class the path has established (an `is K` taken, or an `is not K` refused)"""
        for ev in p.events:
            if ev[0] == "cond" and isinstance(ev[1], ast.Compare) and len(ev[1].ops) == 1 and norm(ev[1].left) == TT:
                if (isinstance(ev[1].ops[0], ast.Is) and ev[2]) or (isinstance(ev[1].ops[0], ast.IsNot) and not ev[2]):
                    return norm(ev[1].comparators[0])
        return None

    by_type: Dict[str, list] = {}
    for p in paths:
        k = known_type(p)
        if k:
            by_type.setdefault(k, []).append(p)
    for w in writers:
        if w in NOT_A_CITATION:
            used = any(any(isinstance(n, ast.Name) and n.id == w for n in walk_local(f)) for q, m, f in repo.all_funcs() if m.name == "helpers")
            ctx.ob("R-C01-1", f"token:{w}/consumed-as-context", used and w not in readers,
                   f"{w} is not a citation: it is consumed by the metadata scans in helpers (stop / paragraph tokens)", node=gc, mod=fm)
            continue
        ps = by_type.get(w, [])
        ok = bool(ps)
        why = "no branch tests this token class: its tokens are silently skipped"
        if ok:
            assigns = reaches = False
            for p in ps:
                a_ = any(ev[0] == "stmt" and isinstance(ev[1], ast.Assign) and CV in assigned_names(ev[1]) for ev in p.events)
                r_ = any(ev[0] == "stmt" and ev[1] is APP for ev in p.events)
                assigns = assigns or a_
                reaches = reaches or (a_ and r_)
            ok = assigns and reaches
            why = f"a path that established this class assigns citation={assigns}, and reaches the append={reaches}"
        ctx.ob("R-C01-1", f"token:{w}/has-branch", ok, f"every token class an extractor can construct has a branch that builds a citation and appends it ({why})",
               node=readers.get(w) or gc, mod=fm)
    for r in readers:
        ctx.ob("R-C01-1", f"find.get_citations/dispatch:{r}/constructible", r in writers,
               f"a branch for `{r}` exists but no extractor constructs that token class (dead branch: renamed class or missing extractor)", node=readers[r], mod=fm,
               nontrivial=False)
    # short vs full: _extract_shortform_citation iff token.short
    ps = by_type.get("CitationToken", [])
    if ps:
        ok, n_s, n_f = True, 0, 0
        for p in ps:
            short = None
            for ev in p.events:
                if ev[0] == "cond" and isinstance(ev[1], ast.Attribute) and ev[1].attr == "short":
                    short = ev[2]
            calls = {dotted(c.func) for ev in p.events if ev[0] == "stmt" for c in ast.walk(ev[1]) if isinstance(c, ast.Call)}
            if short is True:
                n_s += 1
                ok = ok and "_extract_shortform_citation" in calls and "_extract_full_citation" not in calls
            elif short is False:
                n_f += 1
                ok = ok and "_extract_full_citation" in calls and "_extract_shortform_citation" not in calls
            else:
                ok = False
        ctx.ob("R-C01-5", "find.get_citations/short-flag-dispatch", ok and n_s >= 1 and n_f >= 1,
               f"a citation token is extracted as a short form iff its extractor is flagged short ({n_s} short / {n_f} full paths)", node=readers.get("CitationToken") or gc, mod=fm)


def rule_no_clobber(ctx: Ctx, C: C04):
    """R-C01-11: the metadata scans of one citation run in sequence and several of them may store the same field
    (pin cite: after and before the citation; year: year parenthetical and California-style year).  A later scan must not wipe
    what an earlier one found: its store has to keep the old value when it has nothing itself (`new or old`), or be guarded
    by the presence of its own value."""
    repo = ctx.repo
    hm, mm = repo.mod("helpers"), repo.mod("models")
    n = 0
    for cname, ci in sorted(repo.classes.items()):
        am = ci.methods.get("add_metadata")
        if am is None:
            continue
        calls = []
        for st in am.body:
            for c in ([st.value] if isinstance(st, ast.Expr) and isinstance(st.value, ast.Call) else []):
                f = dotted(c.func)
                if f and repo.func(f"helpers.{f}") is not None and c.args and norm(c.args[0]) == am.args.args[0].arg:
                    calls.append((f, repo.func(f"helpers.{f}"), c))
        stores = {}
        for f, fn, c in calls:
            P = fn.args.args[0].arg
            for x in stmts_local(fn.body):
                if isinstance(x, ast.Assign) and len(x.targets) == 1 and isinstance(x.targets[0], ast.Attribute) and norm(x.targets[0].value) == f"{P}.metadata":
                    stores.setdefault(f, []).append((x.targets[0].attr, x, fn, P))
        for i, (f2, fn2, c2) in enumerate(calls):
            earlier = {fld for f1, _, _ in calls[:i] for fld, *_ in stores.get(f1, [])}
            for fld, x, fn, P in stores.get(f2, []):
                if fld not in earlier:
                    continue
                n += 1
                v = x.value
                keeps = isinstance(v, ast.BoolOp) and isinstance(v.op, ast.Or) and norm(v.values[-1]) == f"{P}.metadata.{fld}"
                guards, _n = guards_of(enumerate_paths(fn.body), x)
                own = False
                mv = C.match_vars(fn)
                for gc, go in guards:
                    pt = presence_test(gc, go)
                    if pt and pt[1] and pt[0] not in mv and any(norm(sub) == pt[0] for sub in ast.walk(v)):
                        own = True  # stored only when its own source value (a sub-expression of what is stored) is present
                    # a value unpacked from <match>.groups() under `if <match>:` where every group takes part in every match
                    if pt and pt[1] and pt[0] in mv and isinstance(v, ast.Name):
                        for y in stmts_local(fn.body):
                            if isinstance(y, ast.Assign) and isinstance(y.targets[0], ast.Tuple) and v.id in [norm(e) for e in y.targets[0].elts] \
                                    and isinstance(y.value, ast.Call) and norm(y.value.func) == f"{pt[0]}.groups":
                                pat = C.pattern_text(hm, mv[pt[0]]["pattern"])
                                if pat is not None:
                                    gi = C.rxs.info(pat, mv[pt[0]]["wrap"], mv[pt[0]]["flags"])
                                    idx = [norm(e) for e in y.targets[0].elts].index(v.id) + 1
                                    own = own or idx in gi["must"]
                ctx.ob("R-C01-11", f"models.{cname}.add_metadata/{f2}:metadata.{fld}", keeps or own,
                       f"`{f2}` runs after another scan that stores metadata.{fld}; its store `{norm(x)[:70]}` must keep the earlier value when it has none of "
                       f"its own (`new or old`) or be guarded by the presence of its own value (guards {[(norm(g)[:30], o) for g, o in guards]}): otherwise a "
                       "written component that was found is wiped", node=x, mod=hm)
    ctx.extra["fields_stored_by_several_scans"] = n


def rule_short_pairing(ctx: Ctx, data):
    tm = ctx.repo.mod("tokenizers")
    exts = [e for e in data["extractors"] if e["ctor"].startswith("CitationToken")]
    by_regex = {e["regex"]: e for e in exts}
    n_short = bad = 0
    sample = None
    for e in exts:
        if not e["short"]:
            continue
        n_short += 1
        full = e["regex"].replace("at (?P<page>", "(?P<page>")
        sib = by_regex.get(full)
        if "at (?P<page>" not in e["regex"] or sib is None or sib["short"]:
            bad += 1
            sample = sample or e["regex"][:120]
    ctx.ob("R-C01-5", "extractors/short-full-pairing", bad == 0 and n_short > 1000,
           f"each of the {n_short} short-form patterns has the literal `at ` right before its page group and a full-form sibling that differs only by it "
           f"({bad} unpaired{': ' + sample if sample else ''})", mod=tm)
    # the short-form builder inserts exactly that literal
    rm = ctx.repo.mod("regexes")
    f = ctx.repo.need_func("regexes.short_cite_re")
    rets = [r for r in walk_local(f) if isinstance(r, ast.Return)]
    ok = len(rets) == 1 and norm(rets[0].value) == f"{f.args.args[0].arg}.replace('(?P<page>', 'at (?P<page>')"
    ctx.ob("R-C01-5", "regexes.short_cite_re/inserts-at", ok, "the short form of a pattern is the pattern with `at ` inserted before the page group", node=f, mod=rm)


def rule_groups(ctx: Ctx, C: C04):
    """group-name agreement between Python reads and the patterns."""
    repo = ctx.repo
    n = 0
    for q, mod, fn in C.funcs():
        mv = C.match_vars(fn)
        for name, info in mv.items():
            pat = C.pattern_text(mod, info["pattern"])
            if pat is None:
                continue
            gi = C.rxs.info(pat, info["wrap"], info["flags"])
            for x in walk_local(fn):
                if isinstance(x, ast.Subscript) and isinstance(x.value, ast.Name) and x.value.id == name and isinstance(x.slice, ast.Constant):
                    g = x.slice.value
                    n += 1
                    ok = (g in gi["all_names"]) if isinstance(g, str) else (0 <= g <= gi["groups"])
                    ctx.ob("R-C01-3", f"{q}/{name}[{g!r}]", ok,
                           f"group {g!r} must be defined by the pattern the match comes from ({sorted(gi['all_names'])[:8]}..)", node=x, mod=mod, nontrivial=not ok)
                if isinstance(x, ast.Assign) and isinstance(x.targets[0], ast.Tuple) and isinstance(x.value, ast.Call) and norm(x.value.func) == f"{name}.groups":
                    n += 1
                    ctx.ob("R-C01-3", f"{q}/{name}.groups()-arity", len(x.targets[0].elts) == gi["groups"],
                           f"unpacking {len(x.targets[0].elts)} values from a pattern with {gi['groups']} groups", node=x, mod=mod)
    ctx.extra["match_group_reads"] = n


def rule_metadata_fields(ctx: Ctx, typed: Typed):
    repo = ctx.repo
    n = 0
    for q, mod, fn in repo.all_funcs():
        for x in walk_local(fn):
            if isinstance(x, ast.Attribute) and isinstance(x.ctx, ast.Store) and isinstance(x.value, ast.Attribute) and x.value.attr == "metadata":
                cls = eyecite_class(typed.type_of(mod, x.value.value))
                if cls is None and norm(x.value.value) == "self":
                    cls = q.split(".")[1] if len(q.split(".")) >= 3 else None
                if cls is None or cls not in repo.classes:
                    ctx.ob("R-C01-4", f"{q}/metadata.{x.attr}", False, f"static class of `{norm(x.value.value)}` unknown: cannot check the field", node=x, mod=mod)
                    continue
                n += 1
                declared = x.attr in (repo.metadata_fields(cls) or set())
                if not declared and isinstance(x.value.value, ast.Name) and x.value.value.id in [a.arg for a in fn.args.args]:
                    # the parameter's annotation is wider than what is ever passed: use the classes of the arguments at every call site
                    passed = _classes_passed(repo, typed, q, fn, x.value.value.id)
                    if passed:
                        declared = all(x.attr in (repo.metadata_fields(c) or set()) for c in passed)
                        cls = "|".join(sorted(passed))
                ctx.ob("R-C01-4", f"{q}/metadata.{x.attr}", declared,
                       f"`metadata` is typed Any: a store to an undeclared field silently creates an attribute and the component is lost; `{x.attr}` must be a "
                       f"field of {cls}.Metadata (fields {sorted(repo.metadata_fields(cls) or [])[:12]})", node=x, mod=mod)
    ctx.extra["metadata_field_stores"] = n


def _classes_passed(repo, typed: Typed, qual: str, fn: ast.FunctionDef, param: str) -> Set[str]:
    """classes of the expressions passed for `param` at every call of the
    (module-level) function in the package; empty if any site is unknown."""
    name = fn.name
    idx = [a.arg for a in fn.args.args].index(param)
    out: Set[str] = set()
    n = 0
    for q2, m2, f2 in repo.all_funcs():
        for c in walk_local(f2):
            if isinstance(c, ast.Call) and dotted(c.func) == name and len(c.args) > idx:
                n += 1
                a = c.args[idx]
                k = eyecite_class(typed.type_of(m2, a))
                if k is None and isinstance(a, ast.Name) and a.id == "self" and len(q2.split(".")) >= 3:
                    k = q2.split(".")[1]
                if k is None:
                    return set()
                out.add(k)
    return out if n else set()


def rule_scan_direction(ctx: Ctx, rule: str = "R-C01-6"):
    """sibling agreement inside match_on_tokens: the forward and the backward
    scan must anchor, grow and truncate the text on matching sides."""
    repo = ctx.repo
    hm = repo.mod("helpers")
    fn = repo.need_func("helpers.match_on_tokens")
    from ..motroles import bind as bind_mot

    R = bind_mot(fn)
    TXT, TOK, IDXS, RX, WORDS = R["text"], R["token"], R["indexes"], R["regex"], R["words"]
    facts = {"forward": {}, "backward": {}}
    LOC = Locals(fn)
    for n in walk_local(fn):
        if isinstance(n, ast.If) and norm(n.test) == "forward":
            for side, body in (("forward", n.body), ("backward", n.orelse)):
                for s in stmts_local(body):
                    t = norm(s)
                    if isinstance(s, ast.Assign) and norm(s.targets[0]) == RX:
                        facts[side]["anchor"] = "start" if "^(?:" in t else ("end" if ")$" in t else "?")
                    if isinstance(s, ast.AugAssign) and norm(s.target) == TXT and isinstance(s.op, ast.Add) and norm(s.value) == f"str({TOK})":
                        facts[side]["grow"] = "append"
                    if isinstance(s, ast.Assign) and norm(s.targets[0]) == TXT and isinstance(s.value, ast.BinOp) and norm(s.value.right) == TXT \
                            and norm(s.value.left) == f"str({TOK})":
                        facts[side]["grow"] = "prepend"
                    if isinstance(s, ast.Assign) and norm(s.targets[0]) == TXT and isinstance(s.value, ast.Subscript) and isinstance(s.value.slice, ast.Slice) \
                            and norm(s.value.value) == TXT:
                        sl = s.value.slice
                        facts[side]["truncate"] = "keep-head" if sl.lower is None and sl.upper is not None else ("keep-tail" if sl.upper is None and isinstance(sl.lower, ast.UnaryOp) else "?")
                    if isinstance(s, ast.Assign) and norm(s.targets[0]) == IDXS:
                        te = LOC.text(s.value, s)
                        facts[side]["indexes"] = "ascending" if f"len({WORDS}))" in te and ", -1)" not in te else "descending"
    want = {"forward": {"anchor": "start", "grow": "append", "truncate": "keep-head", "indexes": "ascending"},
            "backward": {"anchor": "end", "grow": "prepend", "truncate": "keep-tail", "indexes": "descending"}}
    for side in ("forward", "backward"):
        ctx.ob(rule, f"helpers.match_on_tokens/{side}-scan", facts[side] == want[side],
               f"a {side} scan must walk the tokens {want[side]['indexes']}, {want[side]['grow']} their text, anchor the pattern at the {want[side]['anchor']} and, when the "
               f"window is full, {want[side]['truncate']} (the side next to the citation); found {facts[side]}", node=fn, mod=hm)
    # stop tokens
    stops = [norm(n.test) for n in walk_local(fn) if isinstance(n, ast.If) and any(isinstance(s, ast.Break) for s in n.body)]
    ctx.ob(rule, "helpers.match_on_tokens/stop-conditions", any("ParagraphToken" in s for s in stops) and any("strings_only" in s for s in stops) and any("MAX_MATCH_CHARS" in s for s in stops),
           f"the scan stops at a paragraph token, at a special token when strings_only, and at the character budget ({stops})", node=fn, mod=hm, nontrivial=False)


_GW: Dict[str, Any] = {}


def _recognisable(i: int):
    e = _GW["extractors"][i]
    icase = bool(e["flags"] & _re.I)
    try:
        nfa = rx.build_nfa(e["regex"], e["flags"])
    except Exception as ex:  # noqa: BLE001
        return i, [("<pattern>", str(ex)[:80])], 0
    bad = []
    states = 0
    lits = set()
    for p_ in nfa.preds.values():
        lits |= {c for c in p_.literal_chars() if not c.isascii()}
    for s in e["strings"]:
        alpha = rx.ASCII + sorted(lits | {c for c in s if not c.isascii()})
        w, st = rx.find_containing(nfa, s.lower() if icase else s, alpha, lower=icase)
        states += st
        if w is None:
            bad.append((s, None))
        elif i < 3:
            bad.append((s, w))  # keep a few witnesses as samples (not failures)
    return i, bad, states


def rule_recognisable(ctx: Ctx, data):
    """R-C01-8: every reporter / law / journal spelling an extractor is
    registered for can actually occur inside a match of that extractor's
    pattern (language non-emptiness L(pattern) & Sigma* s Sigma*, with a
    synthesised witness citation); R-C01-9: every spelling in reporters-db is
    registered with some extractor."""
    import multiprocessing as mp

    tm = ctx.repo.mod("tokenizers")
    exts = data["extractors"]
    _GW["extractors"] = exts
    idxs = [e["i"] for e in exts if e["strings"]]
    n_workers = min(16, max(1, len(idxs) // 100))
    if n_workers > 1 and not getattr(ctx, "in_selftest", False):
        with mp.get_context("fork").Pool(n_workers) as pool:
            res = pool.map(_recognisable, idxs, chunksize=64)
    else:
        res = [_recognisable(i) for i in idxs]
    n_pairs = sum(len(exts[i]["strings"]) for i in idxs)
    unrec = []
    samples = []
    states = 0
    for i, bad, st in res:
        states += st
        for s, w in bad:
            if w is None or s == "<pattern>":
                unrec.append((exts[i]["regex"][:70], s))
            else:
                samples.append((s, w))
    ctx.extra["recognisable_pairs"] = n_pairs
    ctx.extra["recognisable_states"] = states
    ctx.extra["recognisable_witness_samples"] = samples[:6]
    ctx.ob("R-C01-8", "extractors/every-registered-spelling-is-matchable", not unrec and n_pairs > 5000,
           f"for each of the {n_pairs} (extractor, spelling) pairs a string accepted by the extractor's pattern and containing the spelling was synthesised "
           f"(regex syntax tree -> NFA x substring automaton); {len(unrec)} pairs have none{': ' + str(unrec[:3]) if unrec else ''}", mod=tm)
    allstr = set()
    for e in exts:
        allstr.update(e["strings"])
    ed_names = {x[0] for e in exts for x in e["exact"] + e["variation"]}
    missing = [x for x in data.get("db_strings", []) if x[0] not in allstr and not (x[2] == "edition" and x[0] in ed_names)]
    ctx.ob("R-C01-9", "reporters-db/every-spelling-has-an-extractor", not missing and len(data.get("db_strings", [])) > 3000,
           f"each of the {len(data.get('db_strings', []))} edition names / variations / law and journal keys of the installed reporters-db is a filter string of an "
           f"extractor (or the edition of a template that does not use $edition); missing: {missing[:5]}", mod=tm)


def rule_token_boundary(ctx: Ctx, data):
    """R-C01-13: where the citation token ends, the pin cite begins.  The page group closes every reporter pattern, and the metadata scan that
    follows expects the pin cite to start with one of a few separator characters (computed: the non-alphanumeric characters PIN_CITE_REGEX can
    begin with).  If the page pattern itself can consume such a separator, "1 U.S. 12,347" is one token with page "12,347" and the written page,
    span and pin cite are all lost."""
    consts = data["regex_constants"]
    rm = ctx.repo.mod("regexes")
    pg, pc = consts.get("PAGE_NUMBER_REGEX"), consts.get("PIN_CITE_REGEX")
    ctx.need(pg is not None and pc is not None, "PAGE_NUMBER_REGEX / PIN_CITE_REGEX not materialised")
    seps = {c for c in rx.first_chars(dedupe_group_names(pc)[0], _re.X) if not (c.isalnum() or c == "_")}
    page = rx.alphabet(pg)
    clash = sorted(seps & page)
    ctx.ob("R-C01-13", "regexes.PAGE_NUMBER_REGEX/disjoint-from-pin-cite-separators", not clash and len(seps) >= 2,
           f"a pin cite can begin with {sorted(seps)}; the page pattern can consume {sorted(page)[:24]}; common characters {clash} let the page swallow the "
           "separator and the first pin-cite number", node=None, mod=rm)


def rule_scan_extent(ctx: Ctx, data):
    """R-C01-14: a forward metadata scan that records where the citation ends (full_span_end) must not run on into the next citation.  The
    post-citation patterns end in a greedy run that crosses words and parentheses (the parenthetical); such a pattern either scans plain words only
    (strings_only=True: the text stops at the next citation / stop word) or the function trims the recorded end back after cutting the
    parenthetical down (the `full_span_end - (len(raw) - len(processed))` idiom of add_post_citation)."""
    repo = ctx.repo
    hm = repo.mod("helpers")
    consts = data["regex_constants"]

    def runs_on(pat: str) -> bool:
        def walk(items):
            for op, av in items:
                n = str(op)
                if n in ("MAX_REPEAT", "MIN_REPEAT") and av[1] == rx.MAXREPEAT:
                    a = rx.tree_alphabet(av[2])
                    if {" ", "a", ")"} <= a:
                        return True
                sub = av[3] if n == "SUBPATTERN" else av[2] if n in ("MAX_REPEAT", "MIN_REPEAT") else None
                if sub is not None and walk(sub):
                    return True
                if n == "BRANCH" and any(walk(b) for b in av[1]):
                    return True
            return False
        return walk(rx.parse(dedupe_group_names(pat)[0], _re.X))

    n = 0
    for q, mod, fn in repo.all_funcs():
        if mod.name != "helpers":
            continue
        for c in [x for x in walk_local(fn) if isinstance(x, ast.Call) and dotted(x.func) == "match_on_tokens" and len(x.args) >= 3]:
            kw = {k.arg: k.value for k in c.keywords}
            if "forward" in kw and isinstance(kw["forward"], ast.Constant) and kw["forward"].value is False:
                continue
            stores = [x for x in walk_local(fn) if isinstance(x, (ast.Assign, ast.AugAssign)) and any(
                isinstance(t, ast.Attribute) and t.attr == "full_span_end" for t in (x.targets if isinstance(x, ast.Assign) else [x.target]))]
            if not stores:
                continue
            pat = consts.get(norm(c.args[2]))
            if pat is None:
                continue
            n += 1
            so = kw.get("strings_only")
            words_only = isinstance(so, ast.Constant) and so.value is True
            trims = [x for x in stores if (isinstance(x, ast.AugAssign) and isinstance(x.op, ast.Sub)) or (
                isinstance(x, ast.Assign) and isinstance(x.value, ast.BinOp) and isinstance(x.value.op, ast.Sub) and "full_span_end" in norm(x.value.left))]
            greedy = runs_on(pat)
            ctx.ob("R-C01-14", f"{q}/scan:{norm(c.args[2])}", (not greedy) or words_only or bool(trims),
                   f"`{norm(c.args[2])}` ends in a greedy run over words and parentheses ({greedy}); the scan is words-only: {words_only}; the recorded end is "
                   f"trimmed afterwards: {bool(trims)} -- otherwise the full span runs on to the last `)` within the scan window, over later citations",
                   node=c, mod=mod)
    ctx.ob("R-C01-14", "helpers/forward-scans-recording-an-end", n >= 3, f"{n} forward scans that record full_span_end inspected", node=None, mod=hm, nontrivial=False)


def rule_offset_zero(ctx: Ctx):
    """R-C01-12: 0 is a legitimate start offset (a citation at the very beginning of the text).  A start offset that is tested by truthiness
    -- `if c.full_span_start and ..`, `c.span_start or x` -- is treated as absent there, so the components that depend on the test (the
    shared case name of a parallel citation, the full span) come out differently for a text that merely lacks a leading character."""
    from ..pitfalls import truth_tests

    repo = ctx.repo
    STARTS = {"full_span_start", "span_start", "pin_cite_span_start", "start"}
    n = 0
    for q, mod, fn in repo.all_funcs():
        for e in truth_tests(fn):
            n += 1
            is_start = (isinstance(e, ast.Attribute) and e.attr in STARTS) or (
                isinstance(e, ast.Subscript) and isinstance(e.value, ast.Call) and isinstance(e.value.func, ast.Attribute) and e.value.func.attr in ("span", "full_span")
                and isinstance(e.slice, ast.Constant) and e.slice.value == 0)
            if is_start:
                ctx.ob("R-C01-12", f"{q}/truthiness-of-start:{norm(e)[:40]}", False,
                       f"`{norm(e)}` is a start offset tested by truthiness: offset 0 (citation at the beginning of the text) counts as missing; test `is not None`",
                       node=e, mod=mod)
    ctx.ob("R-C01-12", "package/start-offsets-tested-for-None", True, f"{n} truth tests inspected: none is on a start offset", node=None, mod=repo.mod("models"), nontrivial=False)


def run(ctx: Ctx):
    ctx.level = "other"
    ctx.explanation = (
        "Decided -- the plumbing without which no input can satisfy C01: R-C01-1 every token class an extractor can construct has an `is`-tested branch "
        "in get_citations that builds and appends a citation (paragraph/stop tokens are consumed as context), and no branch is dead; R-C01-2 the source "
        "tags written into Reporter(...) are exactly those _extract_full_citation handles and every citation extractor has an edition with a known "
        "source; R-C01-3 every m[g] / m.groups() unpack / token.groups[key] read refers to groups the linked pattern defines (all generated patterns "
        "for token.groups); R-C01-4 every X.metadata.f store and metadata= key names a declared field of the static class' Metadata; R-C01-5 each short "
        "pattern is its full sibling with `at ` before the page group and short-form extraction is chosen iff token.short; R-C01-6 forward and backward "
        "scans of match_on_tokens anchor, grow and truncate on matching sides; R-C01-7 the current citation is appended last (parallel-cite detection); "
        "R-C01-8 for every (extractor, registered spelling) pair (~10,500) a string that the extractor's pattern accepts and that contains the spelling is "
        "synthesised on the pattern syntax tree (so every edition name, variation, law and journal key is recognisable by its own extractor), and R-C01-9 "
        "every spelling of the installed reporters-db is registered with an extractor.  "
        "NOT decided (the bulk of C01): that each of the ~3,900 reporter strings is matched with the right span and group contents, that the metadata "
        "regexes capture the written components, span arithmetic -- statements about which strings a regex matches and about integer values."
    )
    ctx.trusted = ["the checker", "re._parser", "mypy static types"]
    ctx.assumptions = ["the extractor table is the one built at import from the installed reporters-db"]
    data = materialize.load(ctx.repo.root)
    typed = Typed.get(ctx.repo.root)
    C = C04(ctx)
    ctx.guard(rule_dispatch, ctx, data)
    ok, detail = C.source_table_agreement()
    ctx.ob("R-C01-2", "tokenizers.Reporter(source=..) ~ find._extract_full_citation", ok, detail, mod=ctx.repo.mod("find"))
    ctx.guard(rule_groups, ctx, C)
    ctx.guard(C.t7_group_keys)
    ctx.guard(rule_metadata_fields, ctx, typed)
    ctx.guard(C.t9_metadata_keys)
    ctx.guard(rule_short_pairing, ctx, data)
    ctx.guard(rule_scan_direction, ctx)
    ctx.guard(rule_recognisable, ctx, data)
    ctx.guard(rule_append_order, ctx, "R-C01-7")
    from ..backscan import rule_backscan

    ctx.guard(rule_backscan, ctx, "R-C01-10", True)
    ctx.guard(rule_no_clobber, ctx, C)
    ctx.guard(rule_offset_zero, ctx)
    ctx.guard(rule_token_boundary, ctx, data)
    # "the written reporter is among its candidate editions": the candidates an extractor attaches to a spelling are exactly the editions
    # reporters-db lists for it (shared with C16, where the same table decides equality)
    from .c16 import rule_edition_table
    ctx.guard(rule_edition_table, ctx, "R-C01-15")
    ctx.guard(rule_scan_extent, ctx, data)
    ctx.floor("R-C01-11", 2)
    ctx.floor("R-C01-10", 7)
    ctx.floor("R-C01-1", 6)
    ctx.floor("R-C01-3", 18)  # reads of match groups; caching a group in a local legitimately lowers the count
    ctx.floor("R-C01-4", 20)
    ctx.floor("R-C01-5", 3)
    ctx.floor("R-C01-6", 2)
