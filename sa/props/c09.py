"""C09 -- Annotation is purely additive (DESIGN 2/C09)."""
from __future__ import annotations

import ast

from ..annot import AnnotateModel
from ..core import names_in,  Ctx, assigned_names, dotted, norm, stmts_local, walk_local
from ..paths import enumerate_paths


def shared_structure(ctx: Ctx, M: AnnotateModel, rule="C09-STRUCT"):
    """Obligations about the loop skeleton, shared with C10/C11."""
    m, f = M.m, M.f
    q = "annotate.annotate_citations"
    ctx.ob(rule, f"{q}/roles", not M.bind_errors,
           f"cursor-loop roles must bind: {M.bind_errors or 'ok'} "
           f"(OUT={M.OUT}, T={M.T}, CUR={M.CUR}, S={M.S}, E={M.E}, SPAN={M.SPAN})", node=f, mod=m)
    return not M.bind_errors


def run_c09(ctx: Ctx, M: AnnotateModel):
    m, f = M.m, M.f
    q = "annotate.annotate_citations"
    if not shared_structure(ctx, M):
        return
    T, OUT, CUR, S, E, SPAN = M.T, M.OUT, M.CUR, M.S, M.E, M.SPAN
    # ---- before the loop: OUT = [], CUR = 0; T fixed before the loop
    pre = f.body[: f.body.index(M.LOOP)]
    post = f.body[f.body.index(M.LOOP) + 1:]
    out_init = [s for s in pre if isinstance(s, (ast.Assign, ast.AnnAssign)) and OUT in assigned_names(s)]
    cur_init = [s for s in pre if isinstance(s, (ast.Assign, ast.AnnAssign)) and CUR in assigned_names(s)]
    ctx.ob("C09-INIT", f"{q}/{OUT}:init", len(out_init) == 1 and norm(out_init[0].value) in ("[]", "list()"),
           "output list starts empty", node=out_init[0] if out_init else f, mod=m)
    ctx.ob("C09-INIT", f"{q}/{CUR}:init", len(cur_init) == 1 and norm(cur_init[0].value) == "0",
           "cursor starts at 0 (INV: strip(join(out)) = T[:cursor])", node=cur_init[0] if cur_init else f, mod=m)
    # OUT / CUR not touched before the loop otherwise
    for s in stmts_local(pre):
        for n in ast.walk(s) if not isinstance(s, (ast.If, ast.For, ast.While, ast.Try, ast.With)) else []:
            if M._is_out_call(n):
                ctx.ob("C09-INIT", f"{q}/{OUT}:pre-loop-mutation", False, "output list mutated before the loop", node=n, mod=m)
    # ---- the text that is emitted: the source text whenever one is given and differs (whatever the annotations are)
    params = [a.arg for a in f.args.args + f.args.kwonlyargs]
    SRC = next((p_ for p_ in params if "source" in p_), None)
    if SRC is not None and T in params:
        okT, n_sw, whyT = True, 0, ""
        for p in enumerate_paths(pre):
            switched = any(ev[0] == "stmt" and isinstance(ev[1], ast.Assign) and norm(ev[1].targets[0]) == T and norm(ev[1].value) == SRC for ev in p.events)
            if p.exit == "raise":
                continue
            if p.exit == "return":
                # leaving before the loop is sound only when there is nothing to annotate and the target text itself is returned
                it_names = names_in(M.LOOP.iter)
                conds_r = [(norm(ev[1]), ev[2]) for ev in p.events if ev[0] == "cond"]
                nothing = any((t in it_names and not o) or (t.startswith("len(") and t[4:-1] in it_names and not o) for t, o in conds_r)
                rv = p.exit_node.value
                target = rv is not None and norm(rv) in (f"{SRC} or {T}", f"{SRC} if {SRC} else {T}", f"{T} if not {SRC} else {SRC}")
                if not (nothing and target):
                    okT, whyT = False, f"an early exit before the loop returns `{norm(rv) if rv is not None else None}` under {conds_r}: it must be the target text, and only when there is nothing to annotate"
                continue
            if switched:
                n_sw += 1
                continue
            # not switched: the path must have found that there is no (different) source text, and nothing else
            conds = [(norm(ev[1]), ev[2]) for ev in p.events if ev[0] == "cond"]
            no_src = any((t == SRC and not o) or (t in (f"{SRC} is None",) and o) or (t in (f"{SRC} is not None",) and not o) or
                         (t in (f"{SRC} != {T}", f"{T} != {SRC}") and not o) or (t in (f"{SRC} == {T}", f"{T} == {SRC}") and o) for t, o in conds)
            if not no_src:
                okT, whyT = False, f"a path reaches the loop with `{T}` still the plain text although a different source text may be given (conditions {conds})"
        ctx.ob("C09-INIT", f"{q}/{T}:source-text-when-given", okT and n_sw >= 1,
               f"the text written out is `{SRC}` on every path on which it is given and differs from `{T}`" if okT else whyT, node=f, mod=m)
    # ---- per-path facts at each emission
    emit_nodes = {}
    for rec in M.paths:
        for e in rec.emits:
            emit_nodes.setdefault(id(e["node"]), e["node"])
    ctx.need(emit_nodes, "no emission found in the loop")
    n_paths = len(M.paths)
    ctx.extra["loop_body_paths"] = n_paths
    agg = {}
    for rec in M.paths:
        gaps = [e for e in rec.emits if e["kind"] == "gap"]
        pieces = [e for e in rec.emits if e["kind"] == "piece"]
        if rec.problems:
            key = ("C09-FRAME", "problems")
            agg.setdefault(key, []).append((rec, "; ".join(rec.problems)))
        if not rec.emits:
            # non-emitting path: cursor must not move
            if rec.cur_assigns:
                agg.setdefault(("C09-CURSOR", "moved-without-emit"), []).append((rec, f"cursor assigned ({rec.cur_assigns[0]['from']}) on a path that emits nothing"))
            else:
                agg.setdefault(("C09-CURSOR", "skip-path-ok"), []).append((rec, None))
            continue
        if len(gaps) != 1 or len(pieces) != 1 or rec.emits[0]["kind"] != "gap":
            agg.setdefault(("C09-EMIT", "shape"), []).append((rec, f"an emitting path must append exactly one gap then one annotated piece; got {[e['kind'] for e in rec.emits]}"))
            continue
        g, pc = gaps[0], pieces[0]
        agg.setdefault(("C09-EMIT", "gap"), []).append((rec, None if g["ok"] else f"gap is `{g['text']}`, expected `{T}[{CUR}:{S}]`"))
        agg.setdefault(("C09-F1", "cursor<=start"), []).append((rec, None if pc["F1"] else f"`{CUR} <= {S}` is not established at the emission (facts {pc['facts']})"))
        agg.setdefault(("C09-F2", "start<=end"), []).append((rec, None if pc["F2"] else f"`{S} <= {E}` is not established at the emission (facts {pc['facts']})"))
        agg.setdefault(("C09-F3", "piece=T[start:end]"), []).append(
            (rec, None if pc["F3"] else f"`{SPAN}` is not `{T}[{S}:{E}]` for the current {S}/{E} at the emission (definition {pc['span_def']}, versions {pc['ver']})"))
        agg.setdefault(("C09-EMIT", "piece"), []).append(
            (rec, None if pc["ok"] else f"piece `{pc['text']}` is not before + span + after (or the annotator callback on them)"))
        # cursor update: exactly one, after the emission, from E at the emitted version
        ca = rec.cur_assigns
        okc = len(ca) == 1 and ca[0]["after_emit"] and ca[0]["from"] == E and ca[0]["verE"] == ca[0]["emit_verE"]
        agg.setdefault(("C09-CURSOR", "cursor=end"), []).append(
            (rec, None if okc else f"after an emission the cursor must be set once to `{E}` (unchanged since the emission); got {[(c['from'], c['after_emit']) for c in ca]}"))
        if rec.exit not in ("fall", "continue"):
            agg.setdefault(("C09-EMIT", "exit"), []).append((rec, f"emitting path leaves the loop by {rec.exit}"))
    for (rule, what), items in sorted(agg.items()):
        bad = [(r, w) for r, w in items if w]
        node = None
        if bad:
            r0 = bad[0][0]
            node = (r0.emits[0]["node"] if r0.emits else (r0.cur_assigns[0]["node"] if r0.cur_assigns else M.LOOP))
        else:
            r0 = items[0][0]
            node = r0.emits[0]["node"] if r0.emits else M.LOOP
        detail = f"{len(items)} path(s) checked"
        if bad:
            detail = f"{bad[0][1]}; on path [{bad[0][0].cond_str()[:300]}] ({len(bad)} of {len(items)} paths fail)"
        ctx.ob(rule, f"{q}/{what}", not bad, detail, node=node, mod=m)
    # ---- the wrapper and the balancer summaries (used by F2/F3 above)
    if M.wrap_fn is not None:
        ctx.ob("C09-WRAP", f"utils.{M.wrap_fn.name}/additive", M.wrap_ok,
               f"the wrap helper must only insert its before/after arguments: {M.wrap_why}", node=M.wrap_fn, mod=M.um)
    else:
        ctx.ob("C09-WRAP", "utils.wrap_html_tags/additive", False, M.wrap_why, node=f, mod=m)
    if M.bal_fn is not None:
        ctx.ob("C09-BAL", f"utils.{M.bal_fn.name}/summary", M.bal_ok,
               f"the style-tag balancer must return (s, e, text[s:e]) with s <= e: {M.bal_why}", node=M.bal_fn, mod=M.um)
    else:
        ctx.ob("C09-BAL", "utils.maybe_balance_style_tags/summary", False, M.bal_why, node=f, mod=m)
    # ---- after the loop: tail then join
    tail_ok, why = False, "no statement after the loop"
    ps = enumerate_paths(post)
    tail_ok = bool(ps)
    for p in ps:
        appended = False
        short = False
        for ev in p.events:
            if ev[0] == "cond" and norm(ev[1]) in (f"{CUR} < len({T})", f"len({T}) > {CUR}") and not ev[2]:
                short = True
            if ev[0] == "cond" and norm(ev[1]) in (f"{CUR} >= len({T})", f"len({T}) <= {CUR}") and ev[2]:
                short = True
            if ev[0] == "stmt":
                for n in ast.walk(ev[1]):
                    if M._is_out_call(n):
                        ex = M._emitted_exprs(n)
                        if len(ex) == 1 and norm(ex[0]) == f"{T}[{CUR}:]" and not appended:
                            appended = True
                        else:
                            tail_ok, why = False, f"unexpected output mutation after the loop: {norm(n)[:60]}"
                if CUR in assigned_names(ev[1]) or T in assigned_names(ev[1]):
                    tail_ok, why = False, "cursor/text rebound after the loop"
        if p.exit != "return" or not (appended or short):
            tail_ok = False
            why = f"a path after the loop neither appends `{T}[{CUR}:]` nor knows the cursor is at the end (exit {p.exit})"
        elif norm(p.exit_node.value) != f"''.join({OUT})":
            tail_ok, why = False, f"return is `{norm(p.exit_node.value)}`"
    ctx.ob("C09-TAIL", f"{q}/tail", tail_ok, "text after the last annotation is appended, then the pieces are joined" if tail_ok else why,
           node=post[0] if post else M.LOOP, mod=m)
    # ---- T is not rebound inside the loop, loop iterates the annotations parameter
    it = M.LOOP.iter
    src = norm(it)
    params = [a.arg for a in f.args.args]
    okiter = False
    if isinstance(it, ast.Name):
        defs = [s for s in pre if isinstance(s, ast.Assign) and it.id in assigned_names(s)]
        if it.id == params[1] and not defs:
            okiter = True
        elif len(defs) == 1 and isinstance(defs[0].value, ast.Call) and dotted(defs[0].value.func) in ("sorted", "list", "tuple") and norm(defs[0].value.args[0]) == params[1]:
            okiter = True
    elif isinstance(it, ast.Call) and dotted(it.func) in ("sorted", "list") and norm(it.args[0]) == params[1]:
        okiter = True
    ctx.ob("C09-FRAME", f"{q}/iterates-annotations", okiter, f"the loop iterates (a sorted copy of) the annotations parameter: `{src}`",
           node=M.LOOP, mod=m, nontrivial=False)


def run(ctx: Ctx):
    ctx.level = "proof"
    ctx.explanation = (
        "annotate_citations is a cursor loop.  Invariant INV: strip(join(out)) = T[:cursor].  It is preserved by "
        "`out += [T[cursor:start], piece]; cursor = end` iff F1 cursor<=start, F2 start<=end and F3 strip(piece)=T[start:end] "
        "hold at that statement.  Every acyclic path of the loop body is simulated with version counters for start/end/span "
        "and order facts that are killed by any assignment and generated only by recognised idioms (clamp `start = cursor`, "
        "`if start >= end: continue`, `end = max(start, ..)`, `if start < cursor: continue`, `span = T[start:end]`, the "
        "verified summaries of maybe_balance_style_tags and wrap_html_tags).  Non-emitting paths must leave cursor and out "
        "untouched; the tail T[cursor:] completes T.  All paths discharged => additive for every input."
    )
    ctx.trusted = [
        "the checker (sa/annot.py, sa/paths.py)",
        "Python slicing semantics (s[a:b] total for 0 <= a), str.join, sorted",
        "re.sub calls the replacement once per non-overlapping match and copies unmatched text",
    ]
    ctx.assumptions = [
        "default annotator (a user callback may return anything)",
        "annotation spans are given with 0 <= start <= end (overlapping, empty, unsorted, touching allowed; inverted not)",
        "before/after strings do not occur in the texts (as in the property's quantifier)",
    ]
    M = AnnotateModel(ctx)
    run_c09(ctx, M)
    ctx.floor("C09-F1", 1)
    ctx.floor("C09-F2", 1)
    ctx.floor("C09-F3", 1)
    ctx.floor("C09-EMIT", 2)
    ctx.floor("C09-CURSOR", 2)
