"""C02 -- Reported offsets index the text they claim to index (structural
part, DESIGN 2/C02)."""
from __future__ import annotations

import ast
import re as _re
from typing import Any, Dict, List, Optional, Set, Tuple

from .. import materialize, rx
from ..annot import AnnotateModel
from ..core import Ctx, Locals, assigned_names, dotted, names_in, norm, stmts_local, walk_local
from ..paths import enumerate_paths
from .c04 import dedupe_group_names
from .c12 import from_match_rules
from .c19 import rule_rebasing

END_FIELDS = {"span_end", "full_span_end", "pin_cite_span_end"}
START_FIELDS = {"full_span_start", "pin_cite_span_start", "span_start"}


def nullable(pattern: str, flags: int) -> bool:
    """can the pattern match the empty string?"""
    pat, _ = dedupe_group_names(pattern)
    try:
        nfa = rx.build_nfa(pat, flags)
    except Exception:  # noqa: BLE001 -- look-ahead etc.: decide on the tree instead
        return _nullable_tree(rx.parse(pat, flags))
    seen, todo = {nfa.start}, [nfa.start]
    while todo:
        q = todo.pop()
        if q == nfa.accept:
            return True
        for kind, _, t in nfa.edges[q]:
            if kind != rx.CH and t not in seen:
                seen.add(t); todo.append(t)
    return False


def _nullable_tree(items) -> bool:
    for op, av in items:
        n = str(op)
        if n in ("LITERAL", "NOT_LITERAL", "IN", "ANY"):
            return False
        if n == "SUBPATTERN" and not _nullable_tree(av[3]):
            return False
        if n == "BRANCH" and not any(_nullable_tree(b) for b in av[1]):
            return False
        if n in ("MAX_REPEAT", "MIN_REPEAT") and av[0] > 0 and not _nullable_tree(av[2]):
            return False
    return True


class Sign:
    """is an expression a non-negative quantity / an end >= base / a start <= base?"""

    def __init__(self, fn: ast.FunctionDef):
        self.fn = fn
        self.span_pairs: Dict[str, str] = {}  # end name -> start name from `start, end = m.span()`
        for s in stmts_local(fn.body):
            if isinstance(s, ast.Assign) and isinstance(s.targets[0], ast.Tuple) and len(s.targets[0].elts) == 2 and isinstance(s.value, ast.Call) \
                    and isinstance(s.value.func, ast.Attribute) and s.value.func.attr == "span":
                a, b = norm(s.targets[0].elts[0]), norm(s.targets[0].elts[1])
                self.span_pairs[b] = a

    def nonneg(self, e: ast.AST, depth=0) -> bool:
        if depth > 6:
            return False
        if isinstance(e, ast.Constant):
            return isinstance(e.value, int) and e.value >= 0
        if isinstance(e, ast.Call):
            f = dotted(e.func) or ""
            if f == "len":
                return True
            if f == "max" and any(self.nonneg(a, depth + 1) for a in e.args):
                return True
            if f == "sum" and len(e.args) == 1:
                g = e.args[0]
                if isinstance(g, (ast.GeneratorExp, ast.ListComp)) and self.nonneg(g.elt, depth + 1):
                    return True
                if isinstance(g, ast.Call) and dotted(g.func) == "map" and g.args and norm(g.args[0]) == "len":
                    return True
            if isinstance(e.func, ast.Attribute) and e.func.attr in ("end", "start") and not e.args:
                return True
        if isinstance(e, ast.BinOp) and isinstance(e.op, ast.Add):
            return self.nonneg(e.left, depth + 1) and self.nonneg(e.right, depth + 1)
        if isinstance(e, ast.BinOp) and isinstance(e.op, ast.Sub):
            l, r = norm(e.left), norm(e.right)
            if self.span_pairs.get(l) == r:
                return True  # end - start of one match span
            if _re.fullmatch(r"(\w+)\.span\(\)\[1\]", l) and r == l.replace("[1]", "[0]"):
                return True
            # len(a) - len(b) under a dominating `len(a) > len(b)`
            cur = e
            while cur is not self.fn:
                par = cur.parent
                if isinstance(par, ast.If) and cur in par.body:
                    def _conj(t_):
                        if isinstance(t_, ast.BoolOp) and isinstance(t_.op, ast.And):
                            for v_ in t_.values:
                                yield from _conj(v_)
                        else:
                            yield norm(t_)
                    if any(c_ in (f"{l} > {r}", f"{l} >= {r}", f"{r} < {l}", f"{r} <= {l}") for c_ in _conj(par.test)):
                        return True  # the comparison holds whenever the body runs (a conjunct of the test)
                cur = par
            return False
        if isinstance(e, ast.Name):
            # a dominating `name > 0` / `name >= 0` test
            cur = e
            while cur is not self.fn and getattr(cur, "parent", None) is not None:
                par = cur.parent
                if isinstance(par, ast.If) and cur in par.body and norm(par.test) in (f"{e.id} > 0", f"{e.id} >= 0", f"0 < {e.id}", f"0 <= {e.id}"):
                    return True
                cur = par
            defs = []
            for s in stmts_local(self.fn.body):
                if isinstance(s, ast.Assign) and any(norm(t) == e.id for t in s.targets):
                    defs.append(("=", s.value, s))
                elif isinstance(s, ast.AugAssign) and norm(s.target) == e.id:
                    defs.append(("+=" if isinstance(s.op, ast.Add) else "-=" if isinstance(s.op, ast.Sub) else "?", s.value, s))
            if not defs:
                return False
            for op, v, s in defs:
                if op in ("=", "+="):
                    if not self.nonneg(v, depth + 1):
                        return False
                elif op == "-=":
                    # cancels an earlier `+= <same expression>` in the same loop body
                    blk = s
                    loop = None
                    while blk is not self.fn:
                        blk = blk.parent
                        if isinstance(blk, (ast.For, ast.While)):
                            loop = blk
                            break
                    ok = loop is not None and any(isinstance(x, ast.AugAssign) and isinstance(x.op, ast.Add) and norm(x.target) == e.id and norm(x.value) == norm(v)
                                                  and x.lineno < s.lineno for x in stmts_local(loop.body))
                    if not ok:
                        return False
                else:
                    return False
            return True
        if isinstance(e, ast.IfExp):
            return self.nonneg(e.body, depth + 1) and self.nonneg(e.orelse, depth + 1)
        return False

    def is_end_base(self, e: ast.AST) -> bool:
        t = norm(e)
        return bool(_re.fullmatch(r"\w+\.span\(\)\[1\]|\w+\.end|\w+\.token\.end|\w+\.full_span_end", t))

    def is_start_base(self, e: ast.AST) -> bool:
        t = norm(e)
        return bool(_re.fullmatch(r"\w+\.span\(\)\[0\]|\w+\.start|\w+\.token\.start", t))

    def end_ok(self, e: ast.AST, never_falsy: Set[str] = frozenset(), depth=0) -> Tuple[bool, str]:
        t = norm(e)
        if isinstance(e, ast.Constant) and e.value is None:
            return True, "None (falls back to the token end)"
        if self.is_end_base(e):
            return True, "a base end"
        if isinstance(e, ast.BinOp) and isinstance(e.op, ast.Add) and self.is_end_base(e.left) and self.nonneg(e.right):
            return True, f"{norm(e.left)} + non-negative"
        if isinstance(e, ast.BinOp) and isinstance(e.op, ast.Sub) and norm(e.left).endswith("full_span_end") and self.nonneg(e.right):
            return True, "trim of the full-span end by the characters removed from the parenthetical"
        if isinstance(e, ast.Call) and dotted(e.func) == "max":
            args = e.args[0].elts if len(e.args) == 1 and isinstance(e.args[0], (ast.List, ast.Tuple)) else e.args
            if any(self.is_end_base(a) for a in args):
                return True, "max(.., base end)"
        if isinstance(e, ast.BoolOp) and isinstance(e.op, ast.Or) and self.is_end_base(e.values[-1]):
            return True, "value or base end"
        if isinstance(e, ast.IfExp) and norm(e.test) == norm(e.body) and norm(e.body) in never_falsy:
            return True, f"`{norm(e.body)}` is never falsy here (the None-returning path of its producer is infeasible)"
        if isinstance(e, ast.Name) and depth < 3:
            if e.id in never_falsy or e.id in getattr(self, "end_names", set()):
                return True, f"`{e.id}` is an end offset returned by extract_pin_cite"
            defs = [s for s in stmts_local(self.fn.body) if isinstance(s, ast.Assign) and any(norm(x) == e.id for x in s.targets)]
            if defs:
                res = [self.end_ok(s.value, never_falsy, depth + 1) for s in defs]
                if all(r[0] for r in res):
                    return True, res[0][1]
        return False, f"`{t[:60]}` is not a base end plus a non-negative amount"

    def start_ok(self, e: ast.AST) -> Tuple[bool, str]:
        if isinstance(e, ast.Constant) and e.value is None:
            return True, "None"
        if self.is_start_base(e):
            return True, "a base start"
        if isinstance(e, ast.BinOp) and isinstance(e.op, ast.Sub) and self.is_start_base(e.left) and self.nonneg(e.right):
            return True, f"{norm(e.left)} - non-negative"
        return False, f"`{norm(e)[:60]}` is not a base start minus a non-negative amount"


def rule_sign(ctx: Ctx, data):
    repo = ctx.repo
    hm, fm = repo.mod("helpers"), repo.mod("find")
    consts = data["regex_constants"]
    # extract_pin_cite: a None end is returned only when the match failed, which cannot happen for a nullable pattern
    epc = repo.need_func("helpers.extract_pin_cite")
    M = PAT = None
    for s in stmts_local(epc.body):
        if isinstance(s, ast.Assign) and isinstance(s.value, ast.Call) and dotted(s.value.func) == "match_on_tokens":
            M = norm(s.targets[0])
            PAT = norm(s.value.args[2]) if len(s.value.args) > 2 else None
    null = PAT in consts and nullable(rf"^(?:{consts[PAT]})", _re.X)
    ok_none, n_ret = True, 0
    sg = Sign(epc)
    ok_end = True
    why_end = ""
    for p in enumerate_paths(epc.body):
        if p.exit != "return":
            continue
        rv = p.exit_node.value
        if not (isinstance(rv, ast.Tuple) and len(rv.elts) == 3):
            ok_none = False
            continue
        n_ret += 1
        endv = rv.elts[1]
        if isinstance(endv, ast.Constant) and endv.value is None:
            failed = any(ev[0] == "cond" and norm(ev[1]) == M and not ev[2] for ev in p.events)
            if not (failed and null):
                ok_none = False
        else:
            r, w = sg.end_ok(endv)
            if not r:
                ok_end, why_end = False, w
    ctx.ob("R-C02-4", "helpers.extract_pin_cite/none-end-infeasible", ok_none and n_ret >= 2,
           f"the end offset is None only on the path where the match failed, and `{PAT}` matches the empty string ({null}), so that path is infeasible: "
           "callers always get an end offset", node=epc, mod=hm)
    ctx.ob("R-C02-4", "helpers.extract_pin_cite/end>=token-end", ok_end,
           "the returned end is the token end plus a non-negative amount (max(extra - len(prefix), 0))" if ok_end else why_end, node=epc, mod=hm)
    never_falsy_producers = ok_none
    # every store of a span override
    n = 0
    for qual, mod, fn in repo.all_funcs():
        if mod.name not in ("helpers", "find", "models"):
            continue
        sg = None
        for x in walk_local(fn):
            targets: List[Tuple[str, ast.AST, ast.AST]] = []
            if isinstance(x, ast.Assign):
                for t in x.targets:
                    if isinstance(t, ast.Attribute) and t.attr in END_FIELDS | START_FIELDS and not (norm(t.value) == "self" and qual.endswith("__init__")):
                        targets.append((t.attr, x.value, x))
            if isinstance(x, ast.AugAssign) and isinstance(x.target, ast.Attribute) and x.target.attr in END_FIELDS | START_FIELDS:
                sg = sg or Sign(fn)
                n += 1
                grows_ok = (isinstance(x.op, ast.Sub) and sg.nonneg(x.value)) if x.target.attr in START_FIELDS or True else False
                # `end -= d` is a trim (allowed only for a provably non-negative d); `end += d` needs d >= 0 as well; starts symmetrically
                ok = isinstance(x.op, (ast.Sub, ast.Add)) and sg.nonneg(x.value)
                ctx.ob("R-C02-4", f"{qual}/{x.target.attr}", ok,
                       f"in-place adjustment of a span override by `{norm(x.value)[:60]}`, which is not shown to be non-negative (an unguarded length difference "
                       "can be negative or its operands None)", node=x, mod=mod, statement=norm(x)[:90])
            if isinstance(x, ast.Call) and dotted(x.func) and dotted(x.func).split(".")[-1] in repo.classes \
                    and repo.is_subclass(dotted(x.func).split(".")[-1], "CitationBase"):
                for k in x.keywords:
                    if k.arg in END_FIELDS | START_FIELDS:
                        targets.append((k.arg, k.value, x))
            for field, v, node in targets:
                if qual.startswith("find.extract_pincited") or qual.startswith("find.find_reference_citations_from_markup"):
                    continue  # absolute offsets of a separate scan: R-C02-1
                sg = sg or Sign(fn)
                # names unpacked from extract_pin_cite's tuple are end offsets (never None, see above)
                nf: Set[str] = set()
                if never_falsy_producers:
                    for s in stmts_local(fn.body):
                        if isinstance(s, ast.Assign) and isinstance(s.targets[0], ast.Tuple) and isinstance(s.value, ast.Call) and dotted(s.value.func) == "extract_pin_cite":
                            nf.add(norm(s.targets[0].elts[1]))
                sg.end_names = nf
                n += 1
                if field in END_FIELDS:
                    ok, why = sg.end_ok(v, nf)
                    want = "an end override must be >= the end it extends"
                else:
                    ok, why = sg.start_ok(v)
                    want = "a start override must be <= the start it extends"
                if not ok:
                    # the same through local aliases (`end0 = citation.span()[1]` ... `end0 + m.end()`)
                    ve = Locals(fn).expand(v, node, stop=nf)
                    for n_ in ast.walk(ve):
                        for c_ in ast.iter_child_nodes(n_):
                            c_.parent = n_
                    ve.parent = getattr(v, "parent", None)
                    ok2, why2 = sg.end_ok(ve, nf) if field in END_FIELDS else sg.start_ok(ve)
                    if ok2:
                        ok, why = ok2, why2 + " (through local aliases)"
                ctx.ob("R-C02-4", f"{qual}/{field}", ok, f"{want}: {why}", node=node, mod=mod, statement=f"{field} = {norm(v)[:80]}")
                # R-C02-6: an extent that is *extended* by a length must measure the text as written.  A cleaned value (a metadata field,
                # the result of clean_pin_cite / strip / process_parenthetical) can be shorter than the characters it was taken from, so
                # `end + len(cleaned)` stops before the text ends (" et seq." -> "et seq.": the span loses its last character)
                ve2 = Locals(fn).expand(v, node, stop=nf)
                for ln in [c_ for c_ in ast.walk(ve2) if isinstance(c_, ast.Call) and dotted(c_.func) == "len" and len(c_.args) == 1]:
                    arg = ln.args[0]
                    cleaned = [norm(a_)[:40] for a_ in ast.walk(arg) if (isinstance(a_, ast.Attribute) and isinstance(a_.value, ast.Attribute) and a_.value.attr == "metadata")
                               or (isinstance(a_, ast.Call) and (dotted(a_.func) or "").split(".")[-1] in ("clean_pin_cite", "process_parenthetical", "strip", "rstrip", "lstrip", "strip_punct"))]
                    if not cleaned:
                        continue
                    # a length *difference* (raw - cleaned) used to trim, and the backward party scan (R-C02-5), have their own analyses
                    par_sub = any(isinstance(b_, ast.BinOp) and isinstance(b_.op, ast.Sub) and any(x_ is ln for x_ in ast.walk(b_.right)) for b_ in ast.walk(ve2))
                    if par_sub or field in START_FIELDS:
                        continue
                    ctx.ob("R-C02-6", f"{qual}/{field}:len-of-cleaned-text", False,
                           f"`{field}` is extended by `{norm(ln)[:60]}`, the length of a cleaned value ({cleaned}); cleaning strips characters, so the span can end "
                           "before the text it is meant to contain -- measure the matched group itself (m[g] / m.end(g))", node=node, mod=mod,
                           statement=f"{field} = {norm(v)[:80]}")
    ctx.ob("R-C02-6", "span-overrides/lengths-measure-raw-text", True, f"{n} stores of span overrides inspected for lengths of cleaned values", node=None, mod=hm,
           nontrivial=False)
    ctx.extra["span_override_stores"] = n


def rule_group_anchoring(ctx: Ctx, data, rule: str = "R-C02-7"):
    """An extent computed as `<end of the token> + len(m[g])` is right only if group g begins where the scanned text begins.  Decided on the
    pattern: everything that precedes (?P<g>..) must be unable to consume a character (cross-language rule, Python x regex)."""
    import re as _re

    from .. import rx
    from .c04 import dedupe_group_names

    repo = ctx.repo
    hm = repo.mod("helpers")
    consts = data["regex_constants"]
    n = 0
    for qual, mod, fn in repo.all_funcs():
        if mod.name != "helpers":
            continue
        mvars = {}
        for s_ in stmts_local(fn.body):
            if isinstance(s_, ast.Assign) and len(s_.targets) == 1 and isinstance(s_.targets[0], ast.Name) and isinstance(s_.value, ast.Call) \
                    and dotted(s_.value.func) == "match_on_tokens" and len(s_.value.args) >= 3 and isinstance(s_.value.args[2], ast.Name):
                fwd = next((k.value for k in s_.value.keywords if k.arg == "forward"), None)
                if fwd is None or (isinstance(fwd, ast.Constant) and fwd.value is True):
                    mvars[s_.targets[0].id] = s_.value.args[2].id
        if not mvars:
            continue
        LW = Locals(fn)
        for ln in [c for c in walk_local(fn) if isinstance(c, ast.Call) and dotted(c.func) == "len" and len(c.args) == 1]:
            arg = LW.expand(ln.args[0], ln, stop=set(mvars))  # through locals: `pin = m['pin_cite']` ... `len(pin)`
            subs = [x for x in ast.walk(arg) if isinstance(x, ast.Subscript) and isinstance(x.value, ast.Name) and x.value.id in mvars
                    and isinstance(x.slice, ast.Constant) and isinstance(x.slice.value, str)]
            if not subs:
                continue
            par = getattr(ln, "parent", None)
            if isinstance(par, ast.BinOp) and isinstance(par.op, ast.Sub) and par.right is not ln and isinstance(par.right, ast.Call) and dotted(par.right.func) == "len":
                continue  # len(raw) - len(cleaned): the width of what cleaning removed, independent of where the group starts
            if isinstance(par, ast.BinOp) and isinstance(par.op, ast.Sub) and par.right is ln:
                continue
            if isinstance(par, ast.Compare):
                continue  # two lengths compared with each other: no extent is computed from this one
            for sub in subs:
                g, patname = sub.slice.value, mvars[sub.value.id]
                text = consts.get(patname)
                if text is None:
                    ctx.ob(rule, f"{qual}/len({sub.value.id}[{g!r}])", False, f"pattern constant {patname} not materialised", node=ln, mod=mod)
                    continue
                pat, copies = dedupe_group_names(text)
                verdicts = [rx.group_starts_match(f"^(?:{pat})", _re.X, cp) for cp in copies.get(g, [g])]
                n += 1
                ctx.ob(rule, f"{qual}/len({sub.value.id}[{g!r}])", all(v is True for v in verdicts),
                       f"`{norm(ln)[:50]}` measures an extent from the start of the scanned text, so group `{g}` of {patname} must begin where the match begins: "
                       f"nothing before it in the pattern may consume a character (verdict per copy of the group: {verdicts})", node=ln, mod=mod)
    ctx.ob(rule, "helpers/length-based-extents-anchored", n >= 1, f"{n} length-of-group terms checked against their patterns", node=None, mod=hm, nontrivial=False)


def rule_accessors(ctx: Ctx):
    repo = ctx.repo
    m = repo.mod("models")
    sp = repo.need_func("models.CitationBase.span")
    S = sp.args.args[0].arg
    from ..symeval import fallback_accessor

    ok = fallback_accessor(sp, [(f"{S}.span_start", f"{S}.token.start"), (f"{S}.span_end", f"{S}.token.end")])
    ctx.ob("R-C02-3", "models.CitationBase.span", ok, "span() is (override if not None else token offset) per component (evaluated for all four None/not-None cases)",
           node=sp, mod=m)
    fs = repo.need_func("models.CitationBase.full_span")
    okf = fallback_accessor(fs, [(f"{S}.full_span_start", f"{S}.span()[0]"), (f"{S}.full_span_end", f"{S}.span()[1]")])
    ctx.ob("R-C02-3", "models.CitationBase.full_span", okf, "full_span() falls back, per component, to span() (evaluated for all four None/not-None cases)", node=fs, mod=m)
    wp = repo.need_func("models.CitationBase.span_with_pincite")
    calls = {dotted(c.func): c for c in walk_local(wp) if isinstance(c, ast.Call) and dotted(c.func) in ("min", "max")}
    okw = False
    if "min" in calls and "max" in calls:
        LW = Locals(wp)
        tmin, tmax = LW.text(calls["min"], calls["min"]), LW.text(calls["max"], calls["max"])
        okw = all(x in tmin for x in (f"{S}.token.start", f"{S}.span_start", "pin_cite_span_start")) and all(
            x in tmax for x in (f"{S}.token.end", f"{S}.span_end", "pin_cite_span_end")) and "is not None" in tmin and "is not None" in tmax
        rets = [r for r in walk_local(wp) if isinstance(r, ast.Return)]
        okw = okw and len(rets) == 1 and isinstance(rets[0].value, ast.Tuple) and len(rets[0].value.elts) == 2
        if okw:
            defs = {norm(s_.targets[0]): s_.value for s_ in stmts_local(wp.body) if isinstance(s_, ast.Assign)}
            okw = defs.get(norm(rets[0].value.elts[0])) is calls["min"] and defs.get(norm(rets[0].value.elts[1])) is calls["max"]
    ctx.ob("R-C02-3", "models.CitationBase.span_with_pincite", okw,
           "(min over {token.start, span_start, pin start}, max over {token.end, span_end, pin end}) ignoring None: contains span() by monotonicity of min/max",
           node=wp, mod=m)
    subs = [c for c in repo.subclasses("CitationBase") if c != "CitationBase" and any(k in repo.classes[c].methods for k in ("span", "full_span", "span_with_pincite"))]
    ctx.ob("R-C02-3", "models/accessors-not-overridden", not subs, f"no citation subclass overrides the span accessors ({subs})", node=sp, mod=m, nontrivial=False)


def rule_group1(ctx: Ctx, data):
    tm = ctx.repo.mod("tokenizers")
    bad = []
    n = 0
    cache: Dict[str, bool] = {}
    for e in data["extractors"]:
        n += 1
        gi = rx.group_info(e["regex"], e["flags"])
        if 1 not in gi["must"]:
            bad.append(e["regex"][:80])
    ctx.ob("R-C02-2", "extractors/group-1-always-participates", not bad and n > 1000,
           f"token text and offsets are m[1] / m.span(1): capture group 1 participates in every match of all {n} extractor patterns "
           f"(otherwise span(1) is (-1, -1)); {len(bad)} patterns violate this{': ' + bad[0] if bad else ''}", mod=tm)
    rm = ctx.repo.mod("regexes")
    for name in ("space_boundaries_re", "nonalphanum_boundaries_re"):
        f = ctx.repo.func(f"regexes.{name}")
        if f is None:
            continue
        r = [x for x in walk_local(f) if isinstance(x, ast.Return)]
        ok = False
        if r and isinstance(r[0].value, ast.JoinedStr):
            parts = r[0].value.values
            lit = "".join(p.value if isinstance(p, ast.Constant) else "\0" for p in parts)
            ok = lit.count("\0") == 1 and lit.split("\0")[0].endswith("(") and not lit.split("\0")[0].replace("(?:", "").count("(") > 1 and lit.split("\0")[1].startswith(")")
        ctx.ob("R-C02-2", f"regexes.{name}/wraps-in-group-1", ok, "the wrapper puts the whole inner pattern into the first capturing group, outside the boundary look-arounds",
               node=f, mod=rm)


def rule_scan_text(ctx: Ctx):
    """R-C02-1 addition: the text scanned for pin-cited references is the very
    slice the offsets are rebased against (not a transformed copy)."""
    repo = ctx.repo
    fm = repo.mod("find")
    fn = repo.need_func("find.extract_pincited_reference_citations")
    sl = None
    for s in stmts_local(fn.body):
        if isinstance(s, ast.Assign) and isinstance(s.value, ast.Subscript) and isinstance(s.value.slice, ast.Slice) and isinstance(s.value.value, ast.Name):
            sl = s
    scans = [n for n in walk_local(fn) if isinstance(n, ast.Call) and isinstance(n.func, ast.Attribute) and n.func.attr in ("finditer", "search", "match")]
    ok = False
    why = "slice / scan not found"
    if sl is not None and scans:
        var = norm(sl.targets[0])
        arg = scans[0].args[0] if dotted(scans[0].func.value) not in ("re", "regex") else (scans[0].args[1] if len(scans[0].args) > 1 else None)
        rebinds = [s for s in stmts_local(fn.body) if var in assigned_names(s) and s is not sl]
        params = [a.arg for a in fn.args.args]
        ok = arg is not None and norm(arg) == var and not rebinds and norm(sl.value.value) in params and not any(p_ in assigned_names(s) for s in stmts_local(fn.body) for p_ in params)
        why = f"scan over `{norm(arg) if arg is not None else '?'}`, slice `{norm(sl)[:60]}`, rebinding {[norm(r)[:40] for r in rebinds]}"
    ctx.ob("R-C02-1", "find.extract_pincited_reference_citations/scans-the-slice-itself", ok,
           f"match offsets are relative to the scanned string; they are valid in the document only if that string is the untransformed slice text[origin:] ({why})",
           node=scans[0] if scans else fn, mod=fm)


def rule_pin_cite_extent(ctx: Ctx):
    """R-C02-8: the pin-cite span must contain the pin-cite text, so the two come from the same match.  Wherever a case citation's metadata.pin_cite
    is stored from group `pin_cite` of a match X, the function also stores pin_cite_span_end / pin_cite_span_start from a quantity of the same X
    (len(X[..]), X.end(), X.span(), or a local defined from one of them).  A pin cite taken from a second search with the extent taken from
    elsewhere (the end of the full span, say) leaves the text outside the span whenever the two disagree."""
    repo = ctx.repo
    n = 0
    for q, mod, fn in repo.all_funcs():
        if mod.name not in ("helpers", "find"):
            continue
        stores = [x for x in walk_local(fn) if isinstance(x, ast.Assign) and len(x.targets) == 1 and isinstance(x.targets[0], ast.Attribute)
                  and x.targets[0].attr == "pin_cite" and norm(x.targets[0].value).endswith(".metadata")]
        if not stores:
            continue
        a0 = fn.args.args[0] if fn.args.args else None
        cls = norm(a0.annotation) if a0 is not None and a0.annotation is not None else ""
        if not (cls in repo.classes and repo.is_subclass(cls, "CaseCitation")):
            continue  # law / journal citations have no pin-cite span ("when a pin cite was captured for that kind of citation")
        span_stores = [x for x in walk_local(fn) if isinstance(x, ast.Assign) and any(isinstance(t, ast.Attribute) and t.attr in ("pin_cite_span_end", "pin_cite_span_start")
                                                                                       for t in x.targets)]
        for st in stores:
            mvs = set()
            for x in ast.walk(st.value):
                if isinstance(x, ast.Subscript) and isinstance(x.value, ast.Name) and isinstance(x.slice, ast.Constant) and x.slice.value == "pin_cite":
                    mvs.add(x.value.id)
                if isinstance(x, ast.Call) and isinstance(x.func, ast.Attribute) and x.func.attr == "group" and isinstance(x.func.value, ast.Name) \
                        and x.args and isinstance(x.args[0], ast.Constant) and x.args[0].value == "pin_cite":
                    mvs.add(x.func.value.id)
            # through one local: pin = clean(X["pin_cite"]); c.metadata.pin_cite = pin
            for nm in [x.id for x in ast.walk(st.value) if isinstance(x, ast.Name)]:
                for d in stmts_local(fn.body):
                    if isinstance(d, ast.Assign) and nm in assigned_names(d):
                        for x in ast.walk(d.value):
                            if isinstance(x, ast.Subscript) and isinstance(x.value, ast.Name) and isinstance(x.slice, ast.Constant) and x.slice.value == "pin_cite":
                                mvs.add(x.value.id)
            for X in sorted(mvs):
                derived = {X}
                for d in stmts_local(fn.body):
                    if isinstance(d, ast.Assign) and any(isinstance(y, ast.Name) and y.id == X for y in ast.walk(d.value)):
                        derived |= assigned_names(d)
                ok = any(derived & {y.id for y in ast.walk(sp.value) if isinstance(y, ast.Name)} for sp in span_stores)
                n += 1
                ctx.ob("R-C02-8", f"{q}/pin_cite<-{X}", ok,
                       f"metadata.pin_cite is taken from group `pin_cite` of `{X}`; the pin-cite span stored here must be computed from the same match "
                       f"(span stores: {[norm(sp)[:70] for sp in span_stores]})", node=st, mod=mod)
    ctx.ob("R-C02-8", "helpers/pin-cite-stores", n >= 2, f"{n} stores of a case citation's pin cite from a match inspected", node=None, mod=repo.mod("helpers"), nontrivial=False)


def rule_span_end_not_before_token(ctx: Ctx):
    """R-C02-13: the span end that extract_pin_cite hands to the short / supra / id. extractors is the anchoring token's end plus something that is
    non-negative by construction (len(..), max(.., 0), sums of those).  The token is the core citation: an end in front of `token.end` cuts the
    matched text (a short form whose page the pin-cite pattern reads only in part: '1211(A)')."""
    repo = ctx.repo
    fn = repo.func("helpers.extract_pin_cite")
    mod = repo.mod("helpers")
    ctx.ob("R-C02-13", "helpers.extract_pin_cite/located", fn is not None, "pin-cite scan located", node=None, mod=mod, nontrivial=False)
    if fn is None:
        return
    words = fn.args.args[0].arg

    def strip_cast(e):
        while isinstance(e, ast.Call) and dotted(e.func) in ("cast", "typing.cast") and len(e.args) == 2:
            e = e.args[1]
        return e
    toks = set()
    for s_ in stmts_local(fn.body):
        if isinstance(s_, (ast.Assign, ast.AnnAssign)) and s_.value is not None:
            v = strip_cast(s_.value)
            if isinstance(v, ast.Subscript) and isinstance(v.value, ast.Name) and v.value.id == words:
                toks |= assigned_names(s_)

    def binds(name):
        return [x for x in stmts_local(fn.body) if isinstance(x, (ast.Assign, ast.AnnAssign, ast.AugAssign, ast.For, ast.With)) and name in assigned_names(x)]

    def nonneg(e, depth=0):
        if depth > 6:
            return False
        if isinstance(e, ast.Constant):
            return isinstance(e.value, int) and not isinstance(e.value, bool) and e.value >= 0
        if isinstance(e, ast.Call) and dotted(e.func) == "len" and len(e.args) == 1:
            return True
        if isinstance(e, ast.Call) and dotted(e.func) == "max" and e.args and not e.keywords:
            return any(nonneg(a, depth + 1) for a in e.args)
        if isinstance(e, ast.Call) and dotted(e.func) == "min" and e.args and not e.keywords:
            return all(nonneg(a, depth + 1) for a in e.args)
        if isinstance(e, ast.BinOp) and isinstance(e.op, (ast.Add, ast.Mult)):
            return nonneg(e.left, depth + 1) and nonneg(e.right, depth + 1)
        if isinstance(e, ast.IfExp):
            return nonneg(e.body, depth + 1) and nonneg(e.orelse, depth + 1)
        if isinstance(e, ast.Name):
            bs = binds(e.id)
            return bool(bs) and all((isinstance(b, (ast.Assign, ast.AnnAssign)) and b.value is not None and nonneg(b.value, depth + 1))
                                    or (isinstance(b, ast.AugAssign) and isinstance(b.op, ast.Add) and nonneg(b.value, depth + 1)) for b in bs)
        return False

    def ge_end(e, depth=0):
        if depth > 6:
            return False
        if isinstance(e, ast.Attribute) and e.attr == "end" and isinstance(e.value, ast.Name) and e.value.id in toks:
            return True
        if isinstance(e, ast.BinOp) and isinstance(e.op, ast.Add):
            return (ge_end(e.left, depth + 1) and nonneg(e.right)) or (ge_end(e.right, depth + 1) and nonneg(e.left))
        if isinstance(e, ast.IfExp):
            return ge_end(e.body, depth + 1) and ge_end(e.orelse, depth + 1)
        if isinstance(e, ast.Call) and dotted(e.func) == "max" and e.args and not e.keywords:
            return any(ge_end(a, depth + 1) for a in e.args)
        if isinstance(e, ast.Name):
            bs = binds(e.id)
            return bool(bs) and all((isinstance(b, (ast.Assign, ast.AnnAssign)) and b.value is not None and ge_end(b.value, depth + 1))
                                    or (isinstance(b, ast.AugAssign) and isinstance(b.op, ast.Add) and nonneg(b.value)) for b in bs)
        return False
    n = 0
    for r in walk_local(fn):
        if not isinstance(r, ast.Return) or r.value is None:
            continue
        v = r.value
        if not (isinstance(v, ast.Tuple) and len(v.elts) == 3):
            ctx.ob("R-C02-13", "helpers.extract_pin_cite/return-shape", False, f"expected a (pin cite, span end, parenthetical) tuple, found `{norm(v)[:60]}`", node=r, mod=mod)
            continue
        e = v.elts[1]
        if isinstance(e, ast.Constant) and e.value is None:
            continue
        n += 1
        ctx.ob("R-C02-13", f"helpers.extract_pin_cite/span-end>=token-end:{n}", ge_end(e),
               f"the returned span end `{norm(e)[:70]}` is <token>.end plus a term that is non-negative by construction; a bare difference of lengths can be "
               "negative and then ends the span inside the matched citation", node=r, mod=mod)
    ctx.ob("R-C02-13", "helpers.extract_pin_cite/returns", n >= 1 and bool(toks), f"{n} span-end return(s) anchored on token(s) {sorted(toks)}", node=fn, mod=mod, nontrivial=False)


def run(ctx: Ctx):
    ctx.level = "other"
    ctx.explanation = (
        "Decided: R-C02-1 wherever a regex runs on a slice text[a:] every stored position is rebased by the same a (plain and markup reference scans, "
        "Hyperscan re-match, style-tag balancer) and the scanned string is the untransformed slice; R-C02-2 token text and offsets come from the same "
        "capture group with the same shift, and group 1 participates in every match of every generated pattern; R-C02-3 span()/full_span()/"
        "span_with_pincite() have the fallback / min-max structure that makes them nested; R-C02-4 sign analysis of every span override: end overrides "
        "are a base end plus a non-negative amount (len, m.end(), max(.,0), end-start of one match, a guarded length difference), start overrides a base "
        "start minus one, and the None end of extract_pin_cite is on an infeasible path (its pattern is nullable); R-C02-5 the backward party scan "
        "subtracts exactly the summed width of the words it walked over (so the full-span start is a real position of the text, never before 0 "
        "or inside the plaintiff).  NOT decided: that offsets computed from match positions land on the right characters (values), markup round trips."
    )
    ctx.trusted = ["the checker", "re._parser", "regex match positions satisfy 0 <= start <= end <= len(searched text)"]
    ctx.assumptions = ["tokens carry correct offsets (C12)"]
    data = materialize.load(ctx.repo.root)
    ctx.guard(rule_rebasing, ctx)
    ctx.guard(rule_scan_text, ctx)
    ctx.guard(from_match_rules, ctx, "R-C02-2")
    ctx.guard(rule_group1, ctx, data)
    ctx.guard(rule_accessors, ctx)
    ctx.guard(rule_sign, ctx, data)
    ctx.guard(rule_group_anchoring, ctx, data)
    ctx.guard(rule_pin_cite_extent, ctx)
    # offsets produced by the Hyperscan tokenizer index the text only if its byte -> str offset table is exact (shared with C14)
    from .c14 import rule_offset_table
    ctx.guard(rule_offset_table, ctx, "R-C02-9")
    # in markup mode the offsets refer to clean_text(markup, clean_steps) -- the text a caller can compute -- only if that is what Document stores
    from .c19 import rule_document_text
    ctx.guard(rule_document_text, ctx, "R-C02-10")
    ctx.guard(rule_span_end_not_before_token, ctx)
    # every metadata offset is `token.end + <a length measured on the re-joined words>`: that arithmetic needs the words between two tokens to
    # concatenate to exactly the text between them (C12's append_text lemma), and the tokens to come from the very text the offsets index
    from .c01 import rule_scan_direction
    ctx.guard(rule_scan_direction, ctx, "R-C02-12")
    from .c12 import _append_text_identity
    at = ctx.repo.func("tokenizers.Tokenizer.append_text")
    if at is not None:
        okw, whyw = _append_text_identity(at)
        ctx.ob("R-C02-11", "tokenizers.Tokenizer.append_text/identity", okw, whyw, node=at, mod=ctx.repo.mod("tokenizers"))
    tk = ctx.repo.func("models.Document.tokenize")
    if tk is not None:
        S_ = tk.args.args[0].arg
        st_ = [x for x in stmts_local(tk.body) if isinstance(x, ast.Assign)]
        okt = len(st_) == 1 and isinstance(st_[0].value, ast.Call) and isinstance(st_[0].value.func, ast.Attribute) and st_[0].value.func.attr == "tokenize" \
            and [norm(a) for a in st_[0].value.args] == [f"{S_}.plain_text"]
        ctx.ob("R-C02-11", "models.Document.tokenize/tokenizes-the-indexed-text", okt,
               "the tokenizer is given self.plain_text itself -- the text every returned offset refers to -- not a translated or normalised copy (the "
               "matched text of a token would then differ from the slice at its span)", node=tk, mod=ctx.repo.mod("models"))
    M = AnnotateModel(ctx)
    if M.bal_fn is not None:
        ctx.ob("R-C02-1", f"utils.{M.bal_fn.name}/rebased", M.bal_ok, f"positions of matches on text[a:b] are rebased by a: {M.bal_why}", node=M.bal_fn, mod=M.um)
    from ..backscan import rule_backscan

    ctx.guard(rule_backscan, ctx, "R-C02-5", False)
    ctx.floor("R-C02-5", 6)
    ctx.floor("R-C02-2", 5)
    ctx.floor("R-C02-3", 3)
    ctx.floor("R-C02-4", 12)
    ctx.floor("R-C19-5", 6)
