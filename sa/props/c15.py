"""C15 -- Extraction is a pure function of its input (DESIGN 2/C15)."""
from __future__ import annotations

import ast
from typing import Dict, List, Optional, Set, Tuple

from ..fold import MUTATORS
from ..core import Ctx, assigned_names, dotted, norm, presence_test, stmts_local, walk_local
from ..effects import Effects
from ..setorder import SetOrder
from ..typed import Typed, is_set_type

ENTRY = "find.get_citations"

# reasoned exceptions, one line each: (function qualname, substring of the normalised construct) -> reason
def _set_order_exception(q: str, node: ast.AST, is_converter: bool = False) -> Optional[str]:
    """reasoned exceptions, one line each, recognised by shape (not by local names)"""
    cur = node
    while cur is not None and not isinstance(cur, ast.stmt):
        par = getattr(cur, "parent", None)
        for cand in (cur, par):
            if (is_converter or q.endswith("hyperscan_db.convert_regex")) and isinstance(cand, ast.Call) and isinstance(cand.func, ast.Attribute) and cand.func.attr == "join" \
                    and isinstance(cand.func.value, ast.Constant) and cand.func.value.value == "":
                par = cand
                break
        if (is_converter or q.endswith("hyperscan_db.convert_regex")) and isinstance(par, ast.Call) and isinstance(par.func, ast.Attribute) and par.func.attr == "join" \
                and isinstance(par.func.value, ast.Constant) and par.func.value.value == "":
            gp = getattr(par, "parent", None)
            while gp is not None and not isinstance(gp, ast.JoinedStr) and not isinstance(gp, ast.stmt):
                gp = getattr(gp, "parent", None)
            if isinstance(gp, ast.JoinedStr) and any(isinstance(v, ast.Constant) and "[" in v.value for v in gp.values):
                return "members of a regex character class [..]: their order does not change the language"
        cur = par
    if q == "find._extract_full_citation" and isinstance(cur, ast.Raise):
        return "text of the ValueError raised for an unknown source tag (unreachable: C01 R-C01-2); not an extraction result"
    return None


FILE_WRITERS = ("os.replace", "os.rename", "os.unlink", "os.remove", "os.makedirs", "os.mkdir", "os.fsync", "shutil.move")


def _names_temp_file_only(n: ast.Call, fn: ast.FunctionDef) -> bool:
    """an ambient value (pid, thread id, uuid) that only goes into the *name* of a file which is written and then renamed / removed: it
    selects where the bytes are parked for a moment, never what any result is computed from"""
    cur = n
    while not isinstance(cur, ast.stmt):
        cur = cur.parent
    if not (isinstance(cur, ast.Assign) and len(cur.targets) == 1 and isinstance(cur.targets[0], ast.Name)):
        return False
    T = cur.targets[0].id
    owner = cur
    while not isinstance(owner, (ast.FunctionDef, ast.AsyncFunctionDef)):
        owner = owner.parent
    if sum(1 for x in ast.walk(owner) if isinstance(x, ast.Name) and x.id == T and isinstance(x.ctx, ast.Store)) != 1:
        return False
    uses = [x for x in ast.walk(owner) if isinstance(x, ast.Name) and x.id == T and isinstance(x.ctx, ast.Load)]
    for u in uses:
        par = u.parent
        if isinstance(par, ast.Attribute) and isinstance(par.parent, ast.Call) and par.parent.func is par and par.attr in ("write_bytes", "write_text", "unlink", "rename", "replace"):
            continue
        if isinstance(par, ast.Call) and dotted(par.func) in FILE_WRITERS and par.args and par.args[0] is u:
            continue
        if isinstance(par, ast.Call) and dotted(par.func) == "open" and par.args and par.args[0] is u and len(par.args) > 1 and isinstance(par.args[1], ast.Constant) \
                and isinstance(par.args[1].value, str) and par.args[1].value[:1] in ("w", "x"):
            continue
        if isinstance(par, (ast.JoinedStr, ast.FormattedValue)) or (isinstance(par, ast.Call) and dotted(par.func) in ("str", "repr")):
            # only in a log message
            p2 = par
            while not isinstance(p2, ast.stmt):
                p2 = p2.parent
            if isinstance(p2, ast.Expr) and isinstance(p2.value, ast.Call) and (dotted(p2.value.func) or "").split(".")[0] in ("logger", "logging", "log"):
                continue
        if isinstance(par, ast.Call) and (dotted(par.func) or "").split(".")[0] in ("logger", "logging", "log"):
            continue
        return False
    return bool(uses)


def _call_exception(q: str, c: ast.Call, fn: ast.FunctionDef) -> Optional[str]:
    if dotted(c.func) in FILE_WRITERS or (dotted(c.func) == "open" and len(c.args) > 1 and isinstance(c.args[1], ast.Constant) and str(c.args[1].value)[:1] in ("w", "x")):
        owner = c
        while not isinstance(owner, (ast.FunctionDef, ast.AsyncFunctionDef)):
            owner = owner.parent
        if any(isinstance(x, ast.Call) and isinstance(x.func, ast.Attribute) and x.func.attr in ("read_bytes", "read_text") for x in ast.walk(fn)) or \
                any(isinstance(x, ast.Call) and isinstance(x.func, ast.Attribute) and x.func.attr in ("write_bytes", "write_text") for x in ast.walk(owner)):
            return ("a write to the on-disk cache: what a stored file may do to a later result is decided by R-C15-7 (the file's name covers every input of "
                    "its content) and, for C14, by the load that rejects an unusable file")
    if q == "clean.clean_text":
        f = c.func
        params = [a.arg for a in fn.args.args]
        loop_vars = {n.target.id for n in walk_local(fn) if isinstance(n, ast.For) and isinstance(n.target, ast.Name) and isinstance(n.iter, ast.Name)
                     and n.iter.id in params}
        loop_vars |= {n.target.elts[1].id for n in walk_local(fn) if isinstance(n, ast.For) and isinstance(n.target, ast.Tuple) and len(n.target.elts) == 2
                      and isinstance(n.target.elts[1], ast.Name) and isinstance(n.iter, ast.Call) and dotted(n.iter.func) == "enumerate" and n.iter.args
                      and isinstance(n.iter.args[0], ast.Name) and n.iter.args[0].id in params}
        if isinstance(f, ast.Name) and f.id not in loop_vars:
            # a local that holds either the step itself or the table's entry for it
            ds = [s_.value for s_ in stmts_local(fn.body) if isinstance(s_, ast.Assign) and len(s_.targets) == 1 and norm(s_.targets[0]) == f.id]
            def _from_step(v):
                if isinstance(v, ast.IfExp):
                    return _from_step(v.body) and (_from_step(v.orelse) or (isinstance(v.orelse, ast.Constant) and v.orelse.value is None))
                return (isinstance(v, ast.Name) and v.id in loop_vars) or (
                    isinstance(v, ast.Subscript) and isinstance(v.value, ast.Name) and isinstance(v.slice, ast.Name) and v.slice.id in loop_vars) or (
                    isinstance(v, ast.Call) and isinstance(v.func, ast.Attribute) and v.func.attr == "get" and isinstance(v.func.value, ast.Name)
                    and len(v.args) == 1 and isinstance(v.args[0], ast.Name) and v.args[0].id in loop_vars)
            nones = [v for v in ds if isinstance(v, ast.Constant) and v.value is None]
            ds = [v for v in ds if v not in nones]
            if ds and all(_from_step(v) for v in ds):
                return "the step function: a custom cleaning step supplied by the caller (outside the claim) or the module-level table's entry for the step name (checked pure: .../table-cleaner:*)"
        if isinstance(f, ast.Name) and f.id in loop_vars:
            return "a custom cleaning step supplied by the caller is outside the claim (default steps are module functions)"
        if isinstance(f, ast.Subscript) and isinstance(f.value, ast.Name) and isinstance(f.slice, ast.Name) and f.slice.id in loop_vars:
            return f"dispatch through the module-level table `{f.value.id}` (its entries are the module's cleaners, checked pure: .../table-cleaner:*)"
    if q == "annotate.SpanUpdater.update":
        tgt = c.func
        if isinstance(tgt, ast.Name):
            d = [s for s in stmts_local(fn.body) if isinstance(s, ast.Assign) and norm(s.targets[0]) == tgt.id]
            tgt = d[0].value if len(d) == 1 else None
        if isinstance(tgt, ast.Subscript) and norm(tgt.value).endswith(".updaters"):
            return ("elements of self.updaters are functools.partial objects over the two pure offset helpers "
                    "(checked: every element stored is partial(<pure callable>), see .../updater:*)")
    return None


def _user_callable_exception(q: str, c: ast.Call, fn: ast.FunctionDef) -> Optional[str]:
    if q == "clean.clean_text":
        return "a custom cleaning step supplied by the caller is outside the claim (default steps are module functions)"
    if q == "annotate.SpanUpdater.update" and isinstance(c.func, ast.Name) and c.func.id in [a.arg for a in fn.args.args]:
        return "callers pass bisect.bisect_left / bisect_right (stdlib, pure)"
    if q == "annotate.annotate_citations" and isinstance(c.func, ast.Name) and c.func.id in [a.arg for a in fn.args.args]:
        return "not on the extraction path; user callback"
    return None
AMBIENT_ALLOWED = {
    ("helpers", "<module>", "date.today()"): "upper bound of the accepted year range, read once at import (assumption: same calendar year)",
    ("models", "models.Edition.includes_year", "datetime.now()"): "edition end dates are compared with the current year (assumption: same calendar year)",
}
AMBIENT_PREFIXES = ("random.", "time.", "uuid.", "secrets.", "os.environ", "os.getenv", "datetime.now", "datetime.today", "date.today",
                    "datetime.datetime.now", "datetime.date.today", "os.urandom", "threading.get_ident", "os.getpid")


def lazy_global(fs) -> Optional[str]:
    """`G = None` at module level; `def f(): global G; if G is None: ...; G = <built here>; return G` -- a memo of a parameterless function kept
    in a module variable.  Returns G if the function has this shape (one global, no parameters, every rebinding under `if G is None`)."""
    fn = fs.node
    globs = [n for s in walk_local(fn) if isinstance(s, ast.Global) for n in s.names]
    a = fn.args
    if len(globs) != 1 or a.posonlyargs or a.args or a.kwonlyargs or a.vararg or a.kwarg:
        return None
    G = globs[0]
    init = fs.mod.toplevel_assign(G)
    if not (isinstance(init, ast.Constant) and init.value is None):
        return None
    stores = [s for s in walk_local(fn) if isinstance(s, (ast.Assign, ast.AnnAssign, ast.AugAssign, ast.For, ast.With, ast.NamedExpr, ast.Delete)) and G in assigned_names(s)]
    if not stores:
        return None
    for st in stores:
        if not isinstance(st, ast.Assign):
            return None
        cur, ok = st, False
        while cur is not fn:
            par = cur.parent
            if isinstance(par, ast.If) and cur in par.body:
                pt = presence_test(par.test)
                if pt == (G, False):
                    ok = True
                elif pt is not None and pt[1] is False and pt[0].isidentifier():
                    # through a local snapshot: `t = G` ... `if t is None: ...; G = t`
                    L = pt[0]
                    binds = [x for x in walk_local(fn) if isinstance(x, (ast.Assign, ast.AugAssign, ast.AnnAssign, ast.For, ast.NamedExpr)) and L in assigned_names(x)]
                    snap = [x for x in binds if isinstance(x, ast.Assign) and isinstance(x.value, ast.Name) and x.value.id == G and x in fn.body and par in fn.body
                            and fn.body.index(x) < fn.body.index(par)]
                    inside = [x for x in binds if any(x is y for y in ast.walk(par))]
                    if len(snap) == 1 and len(binds) == len(snap) + len(inside):
                        ok = True
            cur = par
        if not ok:
            return None
    return G


def rule_shared_containers(ctx: Ctx, repo, scope_funcs):
    """R-C15-8: two ways of sharing a container without meaning to.
    (a) `G[k]` on a module-level collections.defaultdict is a *write* when k is missing: a look-up meant as a test leaves k behind for every later call
        (`k in G` then answers differently).  On the extraction path such a read needs `k in G` first, or `.get`.
    (b) a class attribute bound to a mutable container in the class body (no annotation, so the dataclass machinery does not make it a per-instance
        field) is one object for all instances; it must not be mutated through any `<obj>.<name>` anywhere in the package."""
    from ..guards import guarded as _guarded
    MUT = ("add", "append", "extend", "update", "insert", "pop", "remove", "discard", "clear", "setdefault", "popitem", "sort", "reverse", "appendleft")
    # (a)
    dd = {}
    for m in repo.modules.values():
        for st in m.tree.body:
            if isinstance(st, (ast.Assign, ast.AnnAssign)) and getattr(st, "value", None) is not None and isinstance(st.value, ast.Call) \
                    and (dotted(st.value.func) or "").split(".")[-1] == "defaultdict":
                for t in (st.targets if isinstance(st, ast.Assign) else [st.target]):
                    if isinstance(t, ast.Name):
                        dd[(m.name, t.id)] = st
    n_a = 0
    for q, mod, fn in scope_funcs:
        for sub in [x for x in walk_local(fn) if isinstance(x, ast.Subscript) and isinstance(x.ctx, ast.Load) and isinstance(x.value, ast.Name)]:
            nm = sub.value.id
            org = mod.imports.get(nm)
            key = (org.split(".")[1], org.split(".")[-1]) if org and org.startswith("eyecite.") and org.count(".") >= 2 else (mod.name, nm)
            if key not in dd or any(nm in assigned_names(x) for x in stmts_local(fn.body)):
                continue
            n_a += 1
            k_ = norm(sub.slice)
            ctx.ob("R-C15-8", f"{q}/{nm}[{k_[:30]}]:vivifying-read", _guarded(fn, sub, {f"{k_} in {nm}"}),
                   f"`{norm(sub)[:50]}` reads the module-level defaultdict `{nm}`: for a missing key the read inserts it, and the table every later call sees has "
                   f"changed; test `{k_[:30]} in {nm}` first or use .get()", node=sub, mod=mod)
    # (b)
    shared = {}
    for cname, ci in repo.classes.items():
        for st in ci.node.body:
            if isinstance(st, ast.Assign) and len(st.targets) == 1 and isinstance(st.targets[0], ast.Name):
                v = st.value
                if isinstance(v, (ast.List, ast.Dict, ast.Set, ast.ListComp, ast.DictComp, ast.SetComp)) or (
                        isinstance(v, ast.Call) and (dotted(v.func) or "").split(".")[-1] in ("set", "list", "dict", "defaultdict", "deque", "OrderedDict", "Counter")):
                    shared[st.targets[0].id] = (cname, st)
    n_b = 0
    for attr, (cname, st) in sorted(shared.items()):
        muts = []
        for q, mod, fn in repo.all_funcs():
            for x in walk_local(fn):
                if isinstance(x, ast.Call) and isinstance(x.func, ast.Attribute) and x.func.attr in MUT and isinstance(x.func.value, ast.Attribute) and x.func.value.attr == attr:
                    muts.append((q, x))
                if isinstance(x, ast.Subscript) and isinstance(x.ctx, (ast.Store, ast.Del)) and isinstance(x.value, ast.Attribute) and x.value.attr == attr:
                    muts.append((q, x))
                if isinstance(x, ast.AugAssign) and isinstance(x.target, ast.Attribute) and x.target.attr == attr:
                    muts.append((q, x))
        n_b += 1
        ctx.ob("R-C15-8", f"models.{cname}.{attr}/class-level-container-read-only", not muts,
               f"`{attr}` is bound to a mutable container in the body of class {cname}: one object shared by all instances; it is mutated at "
               f"{[(q_, norm(x_)[:40]) for q_, x_ in muts][:3]} -- what one document adds, every later document sees", node=muts[0][1] if muts else st,
               mod=repo.classes[cname].module)
    ctx.ob("R-C15-8", "package/shared-containers", True, f"{n_a} reads of module-level defaultdicts on the extraction path, {n_b} class-level containers inspected",
           node=None, mod=repo.mod("models"), nontrivial=False)


def rule_persistent_cache(ctx: Ctx, repo, scope_funcs):
    """R-C15-7: state kept on disk outlives the process, so it is part of the history the result must not depend on.  A file that is read back
    instead of recomputing a value must be named by a key that depends on every input of that value: the attributes of the tokenizer's extractors
    that flow into the computation (def-use closure over the function's locals, including `x.update(e.attr)`-style accumulation) must all flow
    into the file's path as well."""
    IO_READ = ("read_bytes", "read_text", "open", "load", "loads")
    n = 0
    for q, mod, fn in scope_funcs:
        reads = [c for c in walk_local(fn) if isinstance(c, ast.Call) and isinstance(c.func, ast.Attribute) and c.func.attr in ("read_bytes", "read_text")]
        reads += [c for c in walk_local(fn) if isinstance(c, ast.Call) and dotted(c.func) == "open" and c.args]
        if not reads:
            continue
        loopvars = set()
        for x in ast.walk(fn):
            if isinstance(x, ast.comprehension) and norm(x.iter).endswith(".extractors"):
                loopvars |= {t.id for t in ast.walk(x.target) if isinstance(t, ast.Name)}
            if isinstance(x, ast.For) and norm(x.iter).endswith(".extractors"):
                loopvars |= {t.id for t in ast.walk(x.target) if isinstance(t, ast.Name)}
        dep = {}

        def deps(e):
            out = set()
            for y in ast.walk(e):
                if isinstance(y, ast.Attribute) and isinstance(y.value, ast.Name) and y.value.id in loopvars:
                    out.add(y.attr)
                if isinstance(y, ast.Name) and isinstance(y.ctx, ast.Load):
                    out |= dep.get(y.id, set())
            return out

        changed = True
        while changed:
            changed = False
            for st in ast.walk(fn):
                tgt, val = [], None
                if isinstance(st, ast.Assign):
                    tgt, val = [t.id for t0 in st.targets for t in ast.walk(t0) if isinstance(t, ast.Name)], st.value
                elif isinstance(st, (ast.AugAssign, ast.AnnAssign)) and isinstance(st.target, ast.Name) and st.value is not None:
                    tgt, val = [st.target.id], st.value
                elif isinstance(st, ast.Expr) and isinstance(st.value, ast.Call) and isinstance(st.value.func, ast.Attribute) and isinstance(st.value.func.value, ast.Name) \
                        and st.value.func.attr in ("update", "append", "extend", "add", "insert", "write"):
                    tgt, val = [st.value.func.value.id], st.value
                if val is None:
                    continue
                d = deps(val)
                for t in tgt:
                    if not d <= dep.get(t, set()):
                        dep[t] = dep.get(t, set()) | d
                        changed = True
        # what is computed when the file is absent: the keyword/positional arguments of the `.compile(...)`-like call whose result is written back
        writes = [c for c in walk_local(fn) if isinstance(c, ast.Call) and isinstance(c.func, ast.Attribute) and c.func.attr in ("write_bytes", "write_text")]
        need = set()
        producers = [c for c in walk_local(fn) if isinstance(c, ast.Call) and isinstance(c.func, ast.Attribute) and c.func.attr == "compile" and (c.args or c.keywords)]
        for c in producers:
            for a in list(c.args) + [k.value for k in c.keywords]:
                need |= deps(a)
        for r in reads:
            n += 1
            path = r.func.value if isinstance(r.func, ast.Attribute) else r.args[0]
            have = deps(path)
            ok = bool(need) and need <= have
            ctx.ob("R-C15-7", f"{q}/cache-key-covers-inputs:{norm(path)[:30]}", ok,
                   f"`{norm(r)[:50]}` reads back a stored result; the value it replaces is computed from the extractor attributes {sorted(need)}, the file's path depends on "
                   f"{sorted(have)}: an attribute missing from the key makes two tokenizers that differ in it share one file, so what an earlier run (even an earlier "
                   "process) stored decides the matches of this one", node=r, mod=mod)
    ctx.ob("R-C15-7", "package/persistent-reads", n >= 1, f"{n} read(s) of persistent state on the extraction path checked", node=None, mod=repo.mod("tokenizers"), nontrivial=False)


def run(ctx: Ctx):
    ctx.level = "other"
    ctx.explanation = (
        "Determinism is decided through its structural sources over the call graph from find.get_citations (callees resolved with mypy "
        "receiver types, virtual dispatch, properties, stored callables, nested callbacks): R-C15-1 no iteration order of a set reaches "
        "a value (every use of every set-typed expression classified; reasoned exceptions listed), R-C15-2 builtin hash() of a non-int is "
        "confined to __hash__ of non-citation helper classes, R-C15-3 nothing reachable writes a module-level object, the shared "
        "tokenizer/extractors or an argument, except the idempotent `if not hasattr(self, '_x'): self._x = ..` memos, R-C15-4 ambient "
        "reads (clock, random, environment, id()) are enumerated and only the two clock reads exist.  Hence the result depends on the "
        "input text and options only, in every process, history and interleaving (C extensions assumed thread-safe for reads)."
    )
    ctx.trusted = ["the checker (sa/effects.py, sa/setorder.py, sa/typed.py)", "mypy's type inference for receiver and set types",
                   "classification of builtin/third-party methods as pure or mutating (tables in sa/effects.py, sa/fold.py)"]
    ctx.assumptions = ["regex/lxml/pyahocorasick/hyperscan objects are safe for concurrent reads",
                       "both runs happen in the same calendar year (the two clock reads)", "default cleaning steps"]
    repo = ctx.repo
    typed = Typed.get(repo.root)
    eff = Effects(repo, typed)
    ctx.extra["mypy_typed_expressions"] = typed.n_typed
    reach = eff.reachable([ENTRY])
    # hashing edges (set/dict membership) and import-time builders are part of what runs
    extra = [q for q in eff.funcs if q.split(".")[-1] in ("__hash__", "__eq__") and q.startswith("models.")]
    build = [q for q in eff.funcs if q.startswith("tokenizers._populate_reporter_extractors") or q.startswith("tokenizers.HyperscanTokenizer.hyperscan_db")]
    scope = sorted(set(reach) | set(eff.reachable(extra)) | set(build))
    ctx.extra["functions_in_scope"] = len(scope)
    ctx.extra["call_graph_edges"] = sum(len(eff.funcs[q].calls) for q in scope)
    ctx.need(len(reach) >= 55, f"call graph from {ENTRY} is implausibly small ({len(reach)} functions)")
    for must in ("tokenizers.Tokenizer.tokenize", "tokenizers.AhocorasickTokenizer.get_extractors", "tokenizers.HyperscanTokenizer.extract_tokens",
                 "models.Token.from_match", "models.TokenExtractor.compiled_regex", "helpers.add_defendant", "models.CitationToken.merge",
                 "models.ResourceCitation.guess_edition", "helpers.filter_citations", "find.find_reference_citations_from_markup"):
        ctx.need(must in reach, f"{must} is not reachable from {ENTRY} in the computed call graph")

    # ---- R-C15-3 effects -----------------------------------------------------
    entry_writes = sorted(eff.tw[ENTRY], key=str)
    for root, origin, line, how in entry_writes:
        fs = eff.funcs[origin]
        memo = how.startswith("memo ") or (root[0] == "global" and lazy_global(fs) == root[1])  # the latter is judged as a memo by R-C15-6
        ctx.ob("R-C15-3", f"{origin}/write:{how}", memo,
               f"extraction writes through {root[0]} `{root[1]}` of get_citations ({how} at line {line}): shared state (the default tokenizer, "
               "its extractors, module-level objects, arguments) must not change, except by an idempotent hasattr-guarded memo",
               node=fs.node, mod=fs.mod)
    ctx.ob("R-C15-3", f"{ENTRY}/no-global-or-argument-writes", all(h.startswith("memo ") or (r[0] == "global" and lazy_global(eff.funcs[o]) == r[1]) for r, o, _, h in entry_writes),
           f"transitive write-set of get_citations over non-fresh objects: {[(r, o, h) for r, o, _, h in entry_writes]}",
           node=eff.funcs[ENTRY].node, mod=eff.funcs[ENTRY].mod)
    for q in scope:
        fs = eff.funcs[q]
        for c in fs.unknown_calls:
            key = (q, norm(c)[:60])
            reason = _call_exception(q, c, fs.node)
            ctx.ob("R-C15-3", f"{q}/call:{norm(c.func)[:40]}", reason is not None,
                   reason or "call target cannot be resolved, so its effects are unknown", node=c, mod=fs.mod, nontrivial=False)
        for n in walk_local(fs.node):
            if isinstance(n, (ast.Global, ast.Nonlocal)) and q in reach and not (isinstance(n, ast.Global) and lazy_global(fs) in n.names):
                ctx.ob("R-C15-3", f"{q}/global-decl", False, "global/nonlocal rebinding on the extraction path", node=n, mod=fs.mod)
        for d in fs.node.args.defaults + [k for k in fs.node.args.kw_defaults if k is not None]:
            if isinstance(d, (ast.List, ast.Dict, ast.Set)) or (isinstance(d, ast.Call) and dotted(d.func) in ("list", "dict", "set", "defaultdict")):
                ctx.ob("R-C15-3", f"{q}/mutable-default", False, "mutable default argument is state shared across calls", node=d, mod=fs.mod)
    for fq, c in eff.user_callables:
        if fq not in scope:
            continue
        reason = _user_callable_exception(fq, c, eff.funcs[fq].node)
        ctx.ob("R-C15-3", f"{fq}/callable:{norm(c.func)[:30]}", reason is not None,
               reason or "call through a caller-supplied callable on the extraction path", node=c, mod=eff.funcs[fq].mod, nontrivial=False)
    # memo expressions depend on self only
    for root, origin, line, how in entry_writes:
        if how.startswith("memo "):
            fs = eff.funcs[origin]
            ok = fs.params[:1] == ["self"]
            ctx.ob("R-C15-3", f"{origin}/memo-of-self", ok, "a memo is idempotent only if it caches a function of the object itself", node=fs.node, mod=fs.mod,
                   nontrivial=False)
    # the partial-updaters exception is checked, not just asserted
    # R-C15-5: module-level one-shot iterators.  `x in NAMES` / iteration *consumes* a map/filter/zip/generator object, so what a call
    # sees depends on what earlier calls already consumed -- state shared across calls although nothing is ever assigned
    ONE_SHOT = ("map", "filter", "zip", "iter", "reversed", "enumerate", "itertools.chain", "itertools.islice", "itertools.cycle", "itertools.product")
    n_mod = 0
    for mname, m_ in repo.modules.items():
        if mname == "test_factories":
            continue
        for st in m_.tree.body:
            val = st.value if isinstance(st, (ast.Assign, ast.AnnAssign)) else None
            if val is None:
                continue
            n_mod += 1
            one_shot = isinstance(val, ast.GeneratorExp) or (isinstance(val, ast.Call) and dotted(val.func) in ONE_SHOT)
            if one_shot:
                tgt = norm(st.targets[0]) if isinstance(st, ast.Assign) else norm(st.target)
                ctx.ob("R-C15-5", f"{mname}.{tgt}/one-shot-iterator", False,
                       f"module-level `{tgt} = {norm(val)[:50]}` is an iterator: membership tests and loops consume it, so results depend on how often "
                       "it was used before (wrap it in tuple()/list()/frozenset())", node=st, mod=m_)
    ctx.ob("R-C15-5", "modules/no-one-shot-iterators", True, f"{n_mod} module-level bindings inspected: none is a map/filter/zip/generator object", node=None,
           mod=repo.mod("utils"), nontrivial=False)
    # the cleaners a step name can select are pure
    cm = repo.modules.get("clean")
    if cm is not None:
        tv = cm.toplevel_assign("cleaners_lookup")
        if isinstance(tv, ast.Dict):
            for v in tv.values:
                if isinstance(v, ast.Name) and f"clean.{v.id}" in eff.funcs:
                    ctx.ob("R-C15-3", f"clean.cleaners_lookup/table-cleaner:{v.id}", not eff.tw[f"clean.{v.id}"],
                           f"cleaner `{v.id}` selectable by name writes nothing outside its frame (write-set {sorted(map(str, eff.tw[f'clean.{v.id}']))[:3]})",
                           node=v, mod=cm, nontrivial=False)
    init = repo.func("annotate.SpanUpdater.__init__")
    n_upd = 0
    if init is not None:
        am = repo.mod("annotate")
        # names of the updaters list: self.updaters and its local alias
        ups = {"self.updaters"}
        for x in stmts_local(init.body):
            if isinstance(x, ast.Assign) and any(norm(t) == "self.updaters" for t in x.targets):
                ups |= {norm(t) for t in x.targets}
        for c in walk_local(init):
            if isinstance(c, ast.Call) and isinstance(c.func, ast.Attribute) and norm(c.func.value) in ups and c.func.attr in ("append", "insert", "extend", "__setitem__"):
                el = c.args[-1] if c.args else None
                els = [el]
                if isinstance(el, ast.Name):  # a local that holds the element: every value it is given counts
                    els = [x.value for x in stmts_local(init.body) if isinstance(x, ast.Assign) and any(norm(t) == el.id for t in x.targets)] or [el]
                okp = c.func.attr == "append" and all(isinstance(e_, ast.Call) and dotted(e_.func) in ("partial", "functools.partial") for e_ in els)
                ctx.ob("R-C15-3", f"annotate.SpanUpdater.__init__/updaters-element:{c.lineno - init.lineno}", okp,
                       f"every element stored in the updaters list is partial(<callable>): `{norm(c)[:60]}`", node=c, mod=am, nontrivial=False)
        stored_partials = []
        for c in walk_local(init):
            if isinstance(c, ast.Call) and isinstance(c.func, ast.Attribute) and norm(c.func.value) in ups and c.args:
                el = c.args[-1]
                els = [el]
                if isinstance(el, ast.Name):
                    els = [x.value for x in stmts_local(init.body) if isinstance(x, ast.Assign) and any(norm(t) == el.id for t in x.targets)] or [el]
                stored_partials += [id(e_) for e_ in els]
        for c in walk_local(init):
            # only the partial objects that are stored as updaters (a partial used for something else, e.g. to pre-configure the differ,
            # is an ordinary call and is followed through the call graph)
            if isinstance(c, ast.Call) and dotted(c.func) in ("partial", "functools.partial") and c.args and id(c) in stored_partials:
                f0 = c.args[0]
                n_upd += 1
                if isinstance(f0, ast.Lambda):
                    pure = not any(isinstance(x, (ast.Call, ast.NamedExpr, ast.Await, ast.Yield)) and not (isinstance(x, ast.Call) and dotted(x.func) in ("min", "max", "len", "abs", "int"))
                                   for x in ast.walk(f0.body))
                    what = "lambda"
                elif isinstance(f0, ast.Name) and (f"annotate.SpanUpdater.__init__.{f0.id}" in eff.funcs or f"annotate.{f0.id}" in eff.funcs):
                    fq_ = f"annotate.SpanUpdater.__init__.{f0.id}" if f"annotate.SpanUpdater.__init__.{f0.id}" in eff.funcs else f"annotate.{f0.id}"
                    pure = not eff.tw[fq_]
                    what = f0.id
                else:
                    pure, what = False, norm(f0)[:30]
                ctx.ob("R-C15-3", f"annotate.SpanUpdater.__init__/updater:{what}:{n_upd}", pure, "offset updaters (the callables stored by partial) are pure", node=c, mod=am,
                       nontrivial=False)

    # ---- R-C15-6 memoising decorators ----------------------------------------------
    # functools.lru_cache / cache keep results across calls, keyed by *equality* of the arguments.  That is invisible only if (a) equal
    # arguments are indistinguishable -- builtin immutable values; two citations are equal when volume/reporter/page agree although their
    # metadata differ --, (b) the function is pure, (c) the cached object cannot be changed by whoever receives it
    from ..external import classify as _classify, origin_of as _origin_of

    IMMUT = {"str", "int", "bool", "float", "bytes", "None", "Pattern", "re.Pattern", "frozenset", "FrozenSet", "tuple", "Tuple", "Optional", "Union",
             "typing.Pattern", "Pattern[str]", "re.Pattern[str]", "Type", "type"}

    def _immutable_ann(a):
        if a is None:
            return False
        names = [x.id for x in ast.walk(a) if isinstance(x, ast.Name)] + [x.attr for x in ast.walk(a) if isinstance(x, ast.Attribute)] + \
                [str(x.value) for x in ast.walk(a) if isinstance(x, ast.Constant)]
        return bool(names) and all(x in IMMUT or x == "re" or x == "typing" or x == "Ellipsis" for x in names)

    def _shared_result(fs):
        """is the object a memo hands to every caller immutable, or private and only read by the callers?"""
        res_ok = _immutable_ann(fs.node.returns)
        how_res = f"declared return type: {norm(fs.node.returns) if fs.node.returns else 'none'}"
        if not res_ok:
            # a mutable result is still invisible if nobody who receives it can change it: every call site in the package binds the
            # result (or its unpacked parts) to locals that are only read
            bad_uses = []
            n_sites = 0
            for q2, fs2 in eff.funcs.items():
                for c in [x for x in walk_local(fs2.node) if isinstance(x, ast.Call) and (dotted(x.func) or "").split(".")[-1] == fs.node.name]:
                    n_sites += 1
                    par = getattr(c, "parent", None)
                    names = []
                    if isinstance(par, ast.Assign) and par.value is c:
                        for t in par.targets:
                            names += [e_.id for e_ in (t.elts if isinstance(t, (ast.Tuple, ast.List)) else [t]) if isinstance(e_, ast.Name)]
                            if not all(isinstance(e_, ast.Name) for e_ in (t.elts if isinstance(t, (ast.Tuple, ast.List)) else [t])):
                                bad_uses.append(f"{q2}: stored into {norm(t)[:30]}")
                    elif isinstance(par, (ast.Subscript, ast.Attribute, ast.For, ast.comprehension, ast.Compare)):
                        pass  # read in place
                    else:
                        bad_uses.append(f"{q2}: {norm(par)[:40] if par is not None else '?'}")
                    for nm in names:
                        for u in [x for x in walk_local(fs2.node) if isinstance(x, ast.Name) and x.id == nm and isinstance(x.ctx, ast.Load)]:
                            up = getattr(u, "parent", None)
                            if isinstance(up, ast.Attribute) and isinstance(getattr(up, "parent", None), ast.Call) and up.parent.func is up:
                                if up.attr in MUTATORS:
                                    bad_uses.append(f"{q2}: {nm}.{up.attr}()")
                                continue
                            if isinstance(up, ast.Subscript) and up.value is u:
                                if isinstance(up.ctx, (ast.Store, ast.Del)):
                                    bad_uses.append(f"{q2}: {nm}[..] = ..")
                                continue
                            if isinstance(up, (ast.For, ast.comprehension)) and up.iter is u:
                                continue
                            if isinstance(up, ast.Compare) or (isinstance(up, ast.Call) and dotted(up.func) in ("len", "sorted", "iter", "list", "tuple", "set", "frozenset", "dict", "min", "max", "any", "all", "enumerate", "zip", "bool")):
                                continue
                            if isinstance(up, (ast.If, ast.While, ast.BoolOp, ast.UnaryOp, ast.IfExp)):
                                continue
                            bad_uses.append(f"{q2}: {nm} escapes through {type(up).__name__}")
            res_ok = n_sites > 0 and not bad_uses and fs.node.name.startswith("_")
            how_res += f"; private, {n_sites} call site(s), read-only uses" if res_ok else f"; uses that could change or leak it: {bad_uses[:3]}"
        return res_ok, how_res

    n_memo = 0
    for q, fs in eff.funcs.items():
        for d in fs.node.decorator_list:
            base = d.func if isinstance(d, ast.Call) else d
            if _classify(_origin_of(fs.mod.imports, base)) != "memo":
                continue
            n_memo += 1
            a = fs.node.args
            params = [p for p in a.posonlyargs + a.args + a.kwonlyargs if p.arg not in ("self", "cls")]
            bad = [p.arg for p in params if not _immutable_ann(p.annotation)]
            selfish = any(p.arg in ("self", "cls") for p in a.posonlyargs + a.args)
            ctx.ob("R-C15-6", f"{q}/memo-key", not bad and not selfish and not a.vararg and not a.kwarg,
                   f"`@{norm(base)}` keys its cache by equality of the arguments: every parameter must be annotated with a builtin immutable type "
                   f"(not so: {bad or ('self' if selfish else '*args')}); equal eyecite objects (citations compare by volume/reporter/page) can differ in "
                   "what the function reads, so a later call would get an earlier call's result", node=fs.node, mod=fs.mod)
            # publishing a lazily built module table (itself judged as a memo below) is not an effect of its caller
            tw_ = [w for w in eff.tw[q] if not (w[0][0] == "global" and w[1] in eff.funcs and lazy_global(eff.funcs[w[1]]) == w[0][1])]
            ctx.ob("R-C15-6", f"{q}/memo-pure", not tw_ and not fs.unknown_calls,
                   f"a memoised function must be pure (write-set {sorted(map(str, tw_))[:3]}, unresolved calls {len(fs.unknown_calls)})", node=fs.node, mod=fs.mod)
            res_ok, how_res = _shared_result(fs)
            ctx.ob("R-C15-6", f"{q}/memo-result", res_ok,
                   f"the cached result is shared by every caller, so it must be immutable, or private and only ever read by its callers ({how_res})",
                   node=fs.node, mod=fs.mod)
    # a module variable filled on first use by a parameterless function is the same thing without the decorator
    for q in scope:
        fs = eff.funcs[q]
        G = lazy_global(fs)
        if G is None:
            continue
        n_memo += 1
        others = [w for w in eff.tw[q] if not (w[0] == ("global", G))]
        ctx.ob("R-C15-6", f"{q}/memo-pure", not others and not fs.unknown_calls and not any(k_ == "ambient" and q_ == q for q_, _c, _o, k_ in eff.external_calls),
               f"`{G}` is built once by `{q}`; the builder must be pure apart from publishing it (other writes {sorted(map(str, others))[:3]}, unresolved calls "
               f"{len(fs.unknown_calls)}): then concurrent or repeated first calls build equal values", node=fs.node, mod=fs.mod)
        res_ok, how_res = _shared_result(fs)
        direct = [n for q2, fs2 in eff.funcs.items() if q2 != q for n in walk_local(fs2.node) if isinstance(n, ast.Name) and n.id == G and fs2.mod is fs.mod]
        ctx.ob("R-C15-6", f"{q}/memo-result", res_ok and not direct,
               f"the published object is shared by every caller, so it must be immutable, or private and only ever read by its callers ({how_res}; "
               f"direct uses of `{G}` outside the builder: {len(direct)})", node=fs.node, mod=fs.mod)
    ctx.ob("R-C15-6", "package/memo-decorators", True, f"{n_memo} function(s) wrapped in functools.lru_cache/cache", node=None, mod=repo.mod("utils"), nontrivial=False)

    # ---- R-C15-1 set order -----------------------------------------------------
    n_uses = 0
    set_attrs: Set[str] = set()
    for q in scope:
        fs = eff.funcs[q]
        for n in walk_local(fs.node):
            if isinstance(n, ast.Assign) and isinstance(n.targets[0], ast.Attribute) and norm(n.targets[0].value) == "self":
                t = typed.type_of(fs.mod, n.value)
                if is_set_type(t) or isinstance(n.value, (ast.Set, ast.SetComp)) or (isinstance(n.value, ast.Call) and dotted(n.value.func) in ("set", "frozenset")):
                    set_attrs.add(n.targets[0].attr)
    set_returning = {q.split(".")[-1] for q in eff.funcs
                     if eff.funcs[q].node.returns is not None and norm(eff.funcs[q].node.returns).split("[")[0] in ("Set", "set", "FrozenSet", "frozenset", "AbstractSet")}
    for q in scope:
        fs = eff.funcs[q]
        typed_sets = set()
        for n in walk_local(fs.node):
            if isinstance(n, ast.Name) and isinstance(n.ctx, ast.Store):
                continue
            if isinstance(n, ast.Name) and is_set_type(typed.type_of(fs.mod, n)):
                typed_sets.add(n.id)
        so = SetOrder(fs.node, extra_set_names=typed_sets, set_attrs=set_attrs, set_returning=set_returning)
        for u in so.uses:
            n_uses += 1
            ok = u.verdict == "SAFE"
            reason = None
            if not ok:
                reason = _set_order_exception(q, u.node, fs.node is repo.hyperscan_converter())
            ctx.ob("R-C15-1", f"{q}/set-use", ok or reason is not None,
                   (u.reason if ok else (f"exception: {reason}" if reason else
                    f"{u.reason}: the iteration order of a set depends on PYTHONHASHSEED / object addresses and reaches a value")),
                   node=u.node, mod=fs.mod, nontrivial=not ok or u.reason != "truth test")
    ctx.extra["set_uses_classified"] = n_uses
    ctx.extra["set_valued_attributes"] = sorted(set_attrs)
    # declared return types: an override of get_extractors must not be declared/returning a set
    for q in scope:
        fs = eff.funcs[q]
        if fs.node.returns is not None and norm(fs.node.returns).split("[")[0] in ("Set", "set", "FrozenSet", "frozenset") and q in reach:
            ctx.ob("R-C15-1", f"{q}/returns-set", False, "a function on the extraction path returns a set to a caller that iterates it", node=fs.node, mod=fs.mod)

    # ---- R-C15-2 hash() ----------------------------------------------------------
    from ..hashrules import citation_classes

    cit = set(citation_classes(repo)) | {"Resource"}
    for q, fs in eff.funcs.items():
        for n in walk_local(fs.node):
            if isinstance(n, ast.Call) and dotted(n.func) == "hash" and len(n.args) == 1:
                t = typed.type_of(fs.mod, n.args[0]) or "?"
                is_int = t in ("builtins.int", "int")
                parts = q.split(".")
                in_dunder = parts[-1] == "__hash__"
                cls = parts[1] if len(parts) >= 3 else None
                from ..typed import eyecite_class

                delegates = eyecite_class(t) is not None  # hash(obj) of an eyecite object dispatches to its own (checked) __hash__
                ok = is_int or delegates or (in_dunder and cls not in cit)
                ctx.ob("R-C15-2", f"{q}/hash({norm(n.args[0])[:30]})", ok,
                       f"builtin hash() of a `{t}` is randomised per process; it may only implement __hash__ of helper classes (set/dict "
                       "membership), never a citation's value hash or a returned field", node=n, mod=fs.mod)

    # ---- R-C15-4 ambient reads ------------------------------------------------------
    def ambient_calls(body_owner: str, nodes, mod):
        for n in nodes:
            if isinstance(n, ast.Call):
                d = dotted(n.func) or ""
                from ..external import classify, origin_of

                org = origin_of(mod.imports, n.func)  # `from time import time as now; now()` -> time.time
                if any(d == p.rstrip(".") or d.startswith(p) for p in AMBIENT_PREFIXES) or classify(org) == "ambient":
                    key = next((k for k in AMBIENT_ALLOWED if k[0] == mod.name and k[1] == body_owner and k[2] == norm(n)), None)
                    tmp_only = key is None and hasattr(n, "parent") and _names_temp_file_only(n, None)
                    ctx.ob("R-C15-4", f"{body_owner}/ambient:{norm(n)[:30]}", key is not None or tmp_only,
                           AMBIENT_ALLOWED[key] if key else ("only names a temporary file that is written and then renamed over / removed: no result is computed from it"
                                                             if tmp_only else "ambient input (clock / randomness / environment) on the extraction path"),
                           node=n, mod=mod)
                # a time budget handed to a library makes its result depend on how fast this run happens to be (CPU clock, load from other
                # threads): only "no limit" (0 / None) is an input-independent setting
                for k_ in n.keywords:
                    if k_.arg in ("timelimit", "timeout", "time_limit", "deadline", "max_time", "budget"):
                        v_ = k_.value
                        if isinstance(v_, ast.Name) and mod.toplevel_assign(v_.id) is not None:
                            v_ = mod.toplevel_assign(v_.id)
                        unlimited = isinstance(v_, ast.Constant) and (v_.value is None or v_.value == 0)
                        ctx.ob("R-C15-4", f"{body_owner}/time-budget:{norm(n.func)[:30]}", unlimited,
                               f"`{k_.arg}={norm(k_.value)[:30]}`: the callee watches a clock, so the same input gives a complete result on an idle machine and a "
                               "cut-off one under load", node=n, mod=mod, nontrivial=not unlimited)
                if d == "id" and not body_owner.endswith(".__hash__"):
                    is_memo_key = False
                    ctx.ob("R-C15-4", f"{body_owner}/id()", _id_only_as_key(n), "id() may be used as an identity hash or as a dict key for objects that stay alive, not as a value",
                           node=n, mod=mod, nontrivial=False)
            if isinstance(n, ast.Attribute) and norm(n) == "os.environ":
                ctx.ob("R-C15-4", f"{body_owner}/ambient:os.environ", False, "environment read on the extraction path", node=n, mod=mod)

    for q in scope:
        fs = eff.funcs[q]
        ambient_calls(q, list(walk_local(fs.node)), fs.mod)
    for m in repo.modules.values():
        if m.name == "test_factories":
            continue
        top = []
        for s in m.tree.body:
            if not isinstance(s, (ast.FunctionDef, ast.ClassDef)):
                top += list(ast.walk(s))
        ambient_calls("<module>", top, m)
    rule_persistent_cache(ctx, repo, [(q, eff.funcs[q].mod, eff.funcs[q].node) for q in scope])
    rule_shared_containers(ctx, repo, [(q, eff.funcs[q].mod, eff.funcs[q].node) for q in scope if not q.startswith("tokenizers._populate_reporter_extractors")])
    # ---- R-C15-5 observation: module-level list handed to callers -------------------
    f = repo.need_func(ENTRY)
    shared_returns = [r for r in walk_local(f) if isinstance(r, ast.Return) and isinstance(r.value, ast.Name) and r.value.id in repo.mod("find").imports]
    ctx.extra["shared_objects_returned"] = [norm(r) for r in shared_returns]
    ctx.floor("R-C15-1", 8)
    ctx.floor("R-C15-2", 4)
    ctx.floor("R-C15-3", 4)
    ctx.floor("R-C15-4", 2)


def _key_use(x: ast.AST) -> bool:
    """is expression `x` used only as an identity key: subscript index, dict key, membership / equality operand, set.add / dict.get / setdefault
    argument -- contexts in which only equality of the value matters (id() of live objects is injective), never its magnitude"""
    par = getattr(x, "parent", None)
    if isinstance(par, ast.Subscript) and par.slice is x:
        return True
    if isinstance(par, ast.DictComp) and par.key is x:
        return True
    if isinstance(par, ast.Dict) and x in par.keys:
        return True
    if isinstance(par, ast.Compare) and all(isinstance(o, (ast.In, ast.NotIn, ast.Eq, ast.NotEq, ast.Is, ast.IsNot)) for o in par.ops):
        return True
    if isinstance(par, ast.Call) and isinstance(par.func, ast.Attribute) and par.func.attr in ("add", "discard", "get", "setdefault", "__contains__") and par.args and par.args[0] is x:
        return True
    if isinstance(par, ast.Tuple):
        return _key_use(par)
    if isinstance(par, ast.Assign) and len(par.targets) == 1 and isinstance(par.targets[0], ast.Name) and par.value is x:
        name = par.targets[0].id
        fn = par
        while fn is not None and not isinstance(fn, (ast.FunctionDef, ast.AsyncFunctionDef, ast.Lambda)):
            fn = getattr(fn, "parent", None)
        if fn is None:
            return False
        loads = [y for y in ast.walk(fn) if isinstance(y, ast.Name) and y.id == name and isinstance(y.ctx, ast.Load)]
        stores = [y for y in ast.walk(fn) if isinstance(y, ast.Name) and y.id == name and isinstance(y.ctx, ast.Store)]
        return len(stores) == 1 and bool(loads) and all(_key_use(y) for y in loads)
    return False


def _id_only_as_key(n: ast.Call) -> bool:
    par = getattr(n, "parent", None)
    if isinstance(par, ast.Return):
        return True
    return _key_use(n)
