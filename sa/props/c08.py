"""C08 -- Resolution is online (DESIGN 2/C08)."""
from __future__ import annotations

from ..core import Ctx
from .. import foldrules as fr


def run(ctx: Ctx):
    ctx.level = "proof"
    ctx.explanation = (
        "State S_i = (RES, RFC, LAST) after i iterations of the single fold in resolve.resolve_citations. "
        "O1: the input is consumed only by that fold; O2: RES grows only by appending the fold variable at one site and "
        "is returned as is; O7: the fold body reads nothing but the fold variable, the fold state, resolver parameters "
        "and module-level names; O8: no function reachable from the default resolvers (incl. __hash__/__eq__) writes a "
        "citation, the fold state or a module-level object; O9: no set iteration order, id() or ambient input reaches a "
        "resolver result; O10: RFC is append-only and non-full resolutions come from RFC-as-of-now or LAST (O3). "
        "Hence S_i = F(S_{i-1}, citations[i]) with F deterministic and RES only extended at the tail: resolving a prefix "
        "equals the restriction of resolving the whole list."
    )
    ctx.trusted = [
        "the checker (sa/core.py, sa/paths.py, sa/fold.py, sa/effects.py, sa/setorder.py, sa/foldrules.py)",
        "Python semantics of list.append, dict insertion order, defaultdict(list)",
        "determinism and purity of re.match/re.sub, str methods, set/len, json.dumps, hashlib.sha256",
    ]
    ctx.assumptions = [
        "default resolvers only (user-supplied resolver callables are outside the claim)",
        "callee resolution by name over-approximates virtual dispatch inside eyecite; builtin-type methods are classified by the mutator table in sa/fold.py",
    ]
    R = fr.OnlineRules(ctx)
    ctx.guard(R.o1_single_fold)
    ctx.guard(R.o2_single_append_site)
    ctx.guard(R.o3_resolver_provenance)
    ctx.guard(R.o7_body_frame)
    ctx.guard(R.o8_callee_frame)
    ctx.guard(R.o9_no_order_nondeterminism)
    ctx.guard(R.dynamic_features_absent)
    ctx.floor("O1", 3)
    ctx.floor("O2", 8)
    ctx.floor("O3", 10)
    ctx.floor("O10", 5)
    ctx.floor("O7", 10)
    ctx.floor("O8", 12)
    ctx.floor("O9", 5)
