"""C07 -- Resolution never guesses between candidates; id. follows only its
predecessor (DESIGN 2/C07)."""
from __future__ import annotations

import ast
from typing import Dict, List, Optional, Set, Tuple

from ..core import AnalysisError, Ctx, Locals, assigned_names, dotted, names_in, norm, presence_test, stmts_local, walk_local
from ..fold import LAST, NONE, PAIRS, RESV, CITV, Prov, resolver_call_roles
from ..foldrules import FoldRules, isinstance_test
from ..paths import cond_paths, enumerate_paths, guards_of, stmt_of


def leaves(e: Optional[ast.AST]) -> List[Optional[ast.AST]]:
    """Value leaves of a return expression (IfExp / `a or b` decomposed)."""
    if e is None:
        return [None]
    if isinstance(e, ast.IfExp):
        return leaves(e.body) + leaves(e.orelse)
    if isinstance(e, ast.BoolOp):
        out = []
        for v in e.values:
            out += leaves(v)
        return out
    return [e]


class C07Rules(FoldRules):
    def helper_set(self) -> Dict[str, Tuple[ast.FunctionDef, Dict[str, str]]]:
        """Default short/supra/reference resolvers and every resolve.py
        function they call, with parameter roles propagated."""
        r = self.r
        call_roles = resolver_call_roles(r)
        full = self.full_resolver_param()
        out: Dict[str, Tuple[ast.FunctionDef, Dict[str, str]]] = {}
        todo = []
        for param, fn in self.default_resolver_funcs().items():
            if param == full:
                continue
            rl = call_roles.get(param, {}).get("__list__") or []
            ps = [a.arg for a in fn.args.args]
            todo.append((fn, {ps[i]: rl[i] for i in range(min(len(ps), len(rl)))}))
        while todo:
            fn, roles = todo.pop()
            if fn.name in out:
                continue
            out[fn.name] = (fn, roles)
            pv = Prov(self.repo, fn, roles)
            for n in walk_local(fn):
                if isinstance(n, ast.Call) and isinstance(n.func, ast.Name):
                    callee = self.repo.func(f"resolve.{n.func.id}")
                    if callee is not None and callee.name not in out:
                        cps = [a.arg for a in callee.args.args]
                        roles2 = {}
                        for i, a in enumerate(n.args):
                            if i < len(cps):
                                v = pv.of(a)
                                v.discard("EMPTY")
                                roles2[cps[i]] = next(iter(v)) if len(v) == 1 else "OTHER:multi"
                        todo.append((callee, roles2))
        return out

    # ---- R-C07-1 --------------------------------------------------------------
    def r1_uniqueness_guard(self):
        ctx = self.ctx
        n_sel = 0
        for name, (fn, roles) in sorted(self.helper_set().items()):
            pv = Prov(self.repo, fn, roles)
            for ret in [n for n in walk_local(fn) if isinstance(n, ast.Return)]:
                for leaf in leaves(ret.value):
                    v = pv.of(leaf) if leaf is not None else {NONE}
                    v.discard("EMPTY")
                    if RESV not in v:
                        continue
                    if isinstance(leaf, ast.Call) and isinstance(leaf.func, ast.Name) and self.repo.func(f"resolve.{leaf.func.id}") is not None:
                        ctx.ob("R-C07-1", f"resolve.{name}/delegate->{leaf.func.id}", leaf.func.id in self.helper_set(),
                               "delegation to another guarded selection (checked on its own)", node=ret, mod=self.m, nontrivial=False)
                        continue
                    n_sel += 1
                    ok, why = self._guarded_selection(fn, pv, ret, leaf)
                    ctx.ob("R-C07-1", f"resolve.{name}/select", ok,
                           "an element taken from a candidate collection must be selected under `len(D) == 1` where D is the "
                           f"collection de-duplicated by resource ({why})", node=ret, mod=self.m, statement=norm(leaf)[:120])
            # returning from inside the scan loop = first match wins
            for loop in [n for n in walk_local(fn) if isinstance(n, (ast.For, ast.While))]:
                for s in stmts_local(loop.body):
                    if isinstance(s, ast.Return) and s.value is not None:
                        v = pv.of(s.value)
                        if RESV in v:
                            ctx.ob("R-C07-1", f"resolve.{name}/first-match", False,
                                   "returning a candidate from inside the scan loop picks the first match", node=s, mod=self.m)
            # .pop()/next() on candidate collections
            for n in walk_local(fn):
                if isinstance(n, ast.Call) and (
                    (isinstance(n.func, ast.Attribute) and n.func.attr == "pop") or dotted(n.func) == "next"
                ):
                    tgt = n.func.value if isinstance(n.func, ast.Attribute) else (n.args[0] if n.args else None)
                    if tgt is not None:
                        v = pv.of(tgt)
                        if any(x in v for x in (PAIRS, f"LIST[{RESV}]")):
                            ctx.ob("R-C07-1", f"resolve.{name}/arbitrary-element", False,
                                   "pop()/next() takes an arbitrary candidate", node=n, mod=self.m)
        ctx.extra["guarded_selections"] = n_sel

    def _guarded_selection(self, fn, pv: Prov, ret: ast.Return, leaf: ast.AST) -> Tuple[bool, str]:
        # leaf must be C[0] or C[0][1]
        e = leaf
        if isinstance(e, ast.Subscript) and isinstance(e.value, ast.Subscript):
            inner = e.value
            proj = True
        elif isinstance(e, ast.Subscript):
            inner = e
            proj = False
        else:
            return False, f"not an indexed selection: {norm(leaf)[:50]}"
        if not (isinstance(inner.slice, ast.Constant) and inner.slice.value in (0, -1)):
            return False, "index is not a constant first/last"
        if not isinstance(inner.value, ast.Name):
            return False, "collection is not a local name"
        C = inner.value.id
        # the guard: innermost enclosing test on the taken side
        test, positive = self._enclosing_test(fn, ret, leaf)
        G = self._len_eq_1(test, positive) if test is not None else None
        if G is None:
            # any condition that dominates the return (guard clauses, merged tests), not only the innermost enclosing `if`
            gs, _n = guards_of(enumerate_paths(fn.body), ret)
            for c_, o_ in gs:
                G = self._len_eq_1(c_, o_)
                if G is not None:
                    test = c_
                    break
        if G is None:
            return False, (f"guard is `{norm(test)[:60]}`, not a len(..) == 1 test" if test is not None else "no dominating len(..) == 1 condition")
        # a local holding the de-duplicated collection: `unique = {r for _, r in C}` ... `len(unique) == 1`
        if isinstance(G, ast.Name) and G.id != C:
            G = Locals(fn).expand(G, test, depth=1)
        # (a) G is C and C was de-duplicated through set()
        if isinstance(G, ast.Name) and G.id == C:
            dedups = [
                s for s in stmts_local(fn.body)
                if isinstance(s, ast.Assign) and any(isinstance(t, ast.Name) and t.id == C for t in s.targets)
                and self._is_dedup(s.value)
            ]
            if not dedups:
                return False, f"`{C}` is not de-duplicated (list(set(..))) before the test"
            from ..core import order_index

            oi = order_index(fn)
            last = max(dedups, key=lambda s: oi[id(s)])
            later = [
                n for n in walk_local(fn)
                if isinstance(n, ast.Call) and isinstance(n.func, ast.Attribute) and isinstance(n.func.value, ast.Name)
                and n.func.value.id == C and n.func.attr in ("append", "extend", "insert") and oi[id(n)] > oi[id(last)]
            ]
            if later or oi[id(last)] > oi[id(ret)]:
                return False, f"`{C}` grows again after the de-duplication"
            return True, f"len({C}) == 1 after {norm(last)[:50]}"
        # (b) G is set(<resource projection of C>)
        if isinstance(G, ast.Call) and dotted(G.func) in ("set", "frozenset") and len(G.args) == 1:
            a = G.args[0]
            if isinstance(a, (ast.GeneratorExp, ast.ListComp, ast.SetComp)) and len(a.generators) == 1:
                g = a.generators[0]
                if isinstance(g.iter, ast.Name) and g.iter.id == C and not g.ifs:
                    v = pv.of(a.elt)
                    if v == {RESV} and proj:
                        return True, f"len(set(resource projection of {C})) == 1"
                    return False, f"projection is {sorted(v)}, selection {'is' if proj else 'is not'} the resource component"
        if isinstance(G, ast.SetComp) and len(G.generators) == 1 and isinstance(G.generators[0].iter, ast.Name) and G.generators[0].iter.id == C:
            v = pv.of(G.elt)
            if v == {RESV} and proj and not G.generators[0].ifs:
                return True, f"len({{resource projection of {C}}}) == 1"
        return False, f"guard counts `{norm(G)[:50]}`, which is not the de-duplicated resources of `{C}`"

    @staticmethod
    def _is_dedup(v: ast.AST) -> bool:
        if isinstance(v, ast.Call) and dotted(v.func) in ("list", "tuple", "sorted") and len(v.args) == 1:
            a = v.args[0]
            if isinstance(a, ast.Call) and dotted(a.func) in ("set", "frozenset", "dict.fromkeys"):
                return True
            if isinstance(a, ast.SetComp):
                return True
        return False

    def _enclosing_test(self, fn, ret: ast.Return, leaf: ast.AST):
        cur = leaf
        while cur is not ret:
            par = cur.parent
            if isinstance(par, ast.IfExp):
                if par.body is cur:
                    return par.test, True
                if par.orelse is cur:
                    return par.test, False
            cur = par
        cur = ret
        while cur is not fn:
            par = cur.parent
            if isinstance(par, ast.If):
                if cur in par.body:
                    return par.test, True
                if cur in par.orelse:
                    return par.test, False
            cur = par
        return None, True

    @staticmethod
    def _len_eq_1(test: ast.AST, positive: bool) -> Optional[ast.AST]:
        """The expression whose length is tested to be exactly 1 on the taken
        side, else None."""
        if isinstance(test, ast.BoolOp) and isinstance(test.op, ast.And) and positive:
            for v in test.values:
                g = C07Rules._len_eq_1(v, True)
                if g is not None:
                    return g
            return None
        if isinstance(test, ast.UnaryOp) and isinstance(test.op, ast.Not):
            return C07Rules._len_eq_1(test.operand, not positive)
        if isinstance(test, ast.Compare) and len(test.ops) == 1:
            op = test.ops[0]
            l, r = test.left, test.comparators[0]
            want = ast.Eq if positive else ast.NotEq
            if isinstance(op, want):
                for a, b in ((l, r), (r, l)):
                    if isinstance(b, ast.Constant) and b.value == 1 and isinstance(a, ast.Call) and dotted(a.func) == "len" and len(a.args) == 1:
                        return a.args[0]
        return None

    def _check_addition(self, name, fn, pv, thecit, app, arg, F, R, guards, alternatives=None):
        """guards: conditions common to every path reaching the addition; alternatives: per path, all conditions taken before it
        (an `A or B` guard reaches the addition on two paths, each with its own matching predicate)"""
        ctx = self.ctx
        same_tuple = norm(arg) in (R, f"({F}, {R})")
        alts = alternatives or [guards]
        per = []
        unknown = []
        for gl in alts:
            kinds = []
            for (c, o) in gl:
                if isinstance(c, ast.Compare) and isinstance(c.left, ast.Name) and norm(c).endswith(" is None") and self._hoisted(fn, c.left) is not c.left:
                    continue  # `if x is None: x = <look-up>`: the lazy binding of a hoisted operand, not a filter
                k = self._classify_guard(c, o, F, thecit, fn, pv)
                if k is None:
                    unknown.append(f"{norm(c)[:50]}={o}")
                else:
                    kinds.append(k)
            per.append(kinds)
        unknown = sorted(set(unknown))
        kinds = sorted(set().union(*[set(k) for k in per])) if per else []
        ctx.ob("R-C07-2", f"resolve.{name}/candidate:same-tuple", same_tuple,
               f"the resource added must come from the same pair as the citation tested (adds {norm(arg)[:40]})", node=app, mod=self.m)
        ctx.ob("R-C07-2", f"resolve.{name}/candidate:no-extra-filter", not unknown,
               f"every condition guarding the addition of a candidate must be a matching predicate between the "
               f"citation being resolved and the same pair; unrecognised: {unknown}", node=app, mod=self.m)
        if name == self.r.resolvers.get(self._param_for("ShortCaseCitation"), ""):
            need = {"isinstance:FullCaseCitation", "eq:corrected_reporter", "eq:volume"}
            ctx.ob("R-C07-2", f"resolve.{name}/candidate:reporter+volume", all(need <= set(k) for k in per),
                   f"short-form candidates need isinstance(.., FullCaseCitation), equal corrected_reporter() and equal volume; found {kinds}",
                   node=app, mod=self.m)
        else:
            ok = all(any(k.startswith("contains:") or k == "intersects" for k in ks) for ks in per)
            ctx.ob("R-C07-2", f"resolve.{name}/candidate:name-match", ok,
                   f"name-based candidates need a containment / intersection test against the same pair's party names; found {kinds}",
                   node=app, mod=self.m)

    # ---- R-C07-2 --------------------------------------------------------------
    def r2_candidate_predicates(self):
        ctx = self.ctx
        helpers = self.helper_set()
        n_app = 0
        for name, (fn, roles) in sorted(helpers.items()):
            pv = Prov(self.repo, fn, roles)
            thecit = [p for p, v in roles.items() if v == "THECIT"]
            for loop in [n for n in walk_local(fn) if isinstance(n, ast.For)]:
                it = pv.of(loop.iter)
                it.discard("EMPTY")
                if it != {PAIRS}:
                    continue
                if not (isinstance(loop.target, ast.Tuple) and len(loop.target.elts) == 2 and all(isinstance(t, ast.Name) for t in loop.target.elts)):
                    ctx.ob("R-C07-2", f"resolve.{name}/scan-target", False, "scan over (citation, resource) pairs must unpack both", node=loop, mod=self.m)
                    continue
                F, R = loop.target.elts[0].id, loop.target.elts[1].id
                paths = enumerate_paths(loop.body)
                # a collection that is (re)created inside the scan body is scratch space of one iteration (e.g. the set of this pair's
                # names), not the candidate list
                scratch = {x for st_ in stmts_local(loop.body) if isinstance(st_, (ast.Assign, ast.AnnAssign)) for x in assigned_names(st_)}
                appends = [
                    n for n in walk_local(loop)
                    if isinstance(n, ast.Call) and isinstance(n.func, ast.Attribute) and n.func.attr in ("append", "add")
                    and isinstance(n.func.value, ast.Name) and n.args and n.func.value.id not in scratch
                ]
                for app in appends:
                    st = stmt_of(app)
                    guards, npaths = guards_of(paths, st)
                    n_app += 1
                    alts = []
                    for p_ in paths:
                        idx_ = next((i_ for i_, e_ in enumerate(p_.events) if e_[0] == "stmt" and (e_[1] is st or getattr(e_[1], "_orig", None) is st)), None)
                        if idx_ is not None:
                            def _in_other_inner_loop(node_):
                                cur_ = getattr(node_, "parent", None)
                                while cur_ is not None and cur_ is not loop:
                                    if isinstance(cur_, (ast.For, ast.While)) and not any(x_ is st for x_ in ast.walk(cur_)):
                                        return True
                                    cur_ = getattr(cur_, "parent", None)
                                return False
                            # conditions inside an inner loop that finished before the addition (building this pair's scratch data) do not
                            # decide whether the addition happens
                            alts.append([(e_[1], e_[2]) for e_ in p_.events[:idx_] if e_[0] == "cond" and not _in_other_inner_loop(e_[1])])
                    self._check_addition(name, fn, pv, thecit, app, app.args[0], F, R, guards, alts)
                # completeness: no `continue`/`break` other than on a failed isinstance
                for p in paths:
                    if p.exit in ("continue", "break", "return"):
                        conds = [(norm(ev[1]), ev[2]) for ev in p.events if ev[0] == "cond"]
                        cev = [ev for ev in p.events if ev[0] == "cond"]
                        # a pair may be skipped only because a matching predicate (or the isinstance test) does not hold for it: the last
                        # condition, read as what would have had to hold to go on, and the earlier ones as they came out, are all of that kind
                        def _pred(ev_, needed):
                            it_ = isinstance_test(ev_[1])
                            if it_ is not None:
                                return True
                            return self._classify_guard(ev_[1], needed, F, thecit, fn, pv) is not None
                        lazy_init = lambda ev_: isinstance(ev_[1], ast.Compare) and norm(ev_[1]).endswith(" is None") and isinstance(ev_[1].left, ast.Name) \
                            and self._hoisted(fn, ev_[1].left) is not ev_[1].left  # noqa: E731
                        cev_ = [ev_ for ev_ in cev if not lazy_init(ev_)]
                        ok = p.exit == "continue" and len(cev_) >= 1 and _pred(cev_[-1], not cev_[-1][2]) and all(_pred(ev_, ev_[2]) for ev_ in cev_[:-1])
                        ctx.ob("R-C07-2", f"resolve.{name}/scan-exit", ok,
                               f"the candidate scan may skip a pair only because it is not a FullCaseCitation; path conditions {conds[:4]} -> {p.exit}",
                               node=p.exit_node, mod=self.m)
            # comprehension form of the same scan: [(f, r) for f, r in pairs if <matching predicates>]
            for comp in [n for n in walk_local(fn) if isinstance(n, (ast.ListComp, ast.SetComp)) and len(n.generators) == 1 and n.generators[0].ifs]:
                g = comp.generators[0]
                it = pv.of(g.iter)
                it.discard("EMPTY")
                if it != {PAIRS}:
                    continue
                if not (isinstance(g.target, ast.Tuple) and len(g.target.elts) == 2 and all(isinstance(t, ast.Name) for t in g.target.elts)):
                    ctx.ob("R-C07-2", f"resolve.{name}/scan-target", False, "scan over (citation, resource) pairs must unpack both", node=comp, mod=self.m)
                    continue
                F, R = g.target.elts[0].id, g.target.elts[1].id
                guards = []
                for c in g.ifs:
                    for ev, res in cond_paths(c):
                        if res:
                            guards_c = [(e[1], e[2]) for e in ev]
                            break
                    else:
                        guards_c = []
                    # a conjunction is true on exactly one evaluation path: all atoms as taken there
                    if isinstance(c, ast.BoolOp) and isinstance(c.op, ast.Or):
                        guards_c = [(c, True)]
                    guards.extend(guards_c)
                n_app += 1
                self._check_addition(name, fn, pv, thecit, comp, comp.elt, F, R, guards)
        ctx.extra["candidate_additions"] = n_app
        ctx.need(n_app >= 3, f"expected >=3 candidate additions (one per name/reporter scan), found {n_app}")

    def r2b_shortform_selects_among_candidates(self):
        """R-C07-2b: a short-form citation may only be resolved to a case with the same normalised reporter and volume.  In the short-form
        resolver every selection helper (a function that picks a resource out of a list of pairs) must be handed the list that passed the
        reporter+volume predicates, never the complete list of earlier full citations (that is what the supra resolver does, rightly)."""
        ctx = self.ctx
        sp = self._param_for("ShortCaseCitation")
        fn = self.default_resolver_funcs().get(sp) if sp else None
        if fn is None:
            ctx.ob("R-C07-2", "resolve/short-form-resolver:located", False, "short-form resolver not found in the fold", node=self.r.FOLD, mod=self.m)
            return
        helpers = self.helper_set()
        roles = helpers.get(fn.name, (fn, {}))[1]
        pairs_params = [p_ for p_, v_ in roles.items() if v_ == PAIRS]
        n = 0
        for c in [x for x in walk_local(fn) if isinstance(x, ast.Call) and isinstance(x.func, ast.Name) and self.repo.func(f"resolve.{x.func.id}") is not None]:
            raw = [a for a in c.args if isinstance(a, ast.Name) and a.id in pairs_params]
            n += 1
            ctx.ob("R-C07-2", f"resolve.{fn.name}/selection-over-candidates:{c.func.id}", not raw,
                   f"`{norm(c)[:70]}` picks a resource for a short-form citation: it must choose among the pairs that matched reporter and volume, not among all "
                   f"earlier full citations (`{raw[0].id if raw else ''}` is the complete list)", node=c, mod=self.m)
        ctx.extra["shortform_selection_calls"] = n

    def _param_for(self, cls: str) -> str:
        """resolver parameter called under isinstance(CIT, cls) in the fold."""
        r = self.r
        for n in walk_local(r.FOLD):
            if isinstance(n, ast.If):
                it = isinstance_test(n.test)
                if it and it[0] == r.CIT and it[1] == [cls]:
                    for s in n.body:
                        if isinstance(s, ast.Assign) and isinstance(s.value, ast.Call) and isinstance(s.value.func, ast.Name) and s.value.func.id in r.resolvers:
                            return s.value.func.id
        return ""

    @staticmethod
    def _hoisted(fn, e: ast.AST) -> ast.AST:
        """operand of a matching predicate with hoisted look-ups put back: a local bound once to an expression (`short_volume =
        short.groups.get('volume')`), or lazily (`x = None` ... `if x is None: x = E` right before the use), stands for that expression"""
        from ..core import acopy

        if not isinstance(e, ast.Name):
            return e
        binds = [s_ for s_ in stmts_local(fn.body) if isinstance(s_, (ast.Assign, ast.AnnAssign)) and s_.value is not None and e.id in assigned_names(s_)]
        params = {a.arg for a in fn.args.args + fn.args.kwonlyargs}
        if e.id in params:
            return e
        real = [b for b in binds if not (isinstance(b.value, ast.Constant) and b.value.value is None)]
        if len(real) != 1 or any(not isinstance(b, (ast.Assign, ast.AnnAssign)) for b in binds):
            return e
        b = real[0]
        if len(binds) == 2:
            # the lazy form: the real binding sits directly under `if <name> is None:`
            par = getattr(b, "parent", None)
            if not (isinstance(par, ast.If) and norm(par.test) == f"{e.id} is None" and not par.orelse and len(par.body) == 1):
                return e
        elif len(binds) != 1:
            return e
        # the expression may only depend on parameters (it is evaluated once, outside the scan or at its first use)
        if not all(n_ in params for n_ in names_in(b.value) if n_ not in ("None", "True", "False")):
            return e
        return acopy(b.value)

    def _classify_guard(self, c: ast.AST, outcome: bool, F: str, thecit: List[str], fn, pv) -> Optional[str]:
        # `a != b` not holding is `a == b` holding; `not x` likewise
        if isinstance(c, ast.UnaryOp) and isinstance(c.op, ast.Not):
            return self._classify_guard(c.operand, not outcome, F, thecit, fn, pv)
        if isinstance(c, ast.Compare) and len(c.ops) == 1 and isinstance(c.ops[0], ast.NotEq):
            eq = ast.copy_location(ast.Compare(left=c.left, ops=[ast.Eq()], comparators=list(c.comparators)), c)
            return self._classify_guard(eq, not outcome, F, thecit, fn, pv)
        if isinstance(c, ast.Compare) and len(c.ops) == 1 and isinstance(c.ops[0], ast.Eq):
            l2, r2 = self._hoisted(fn, c.left), self._hoisted(fn, c.comparators[0])
            if l2 is not c.left or r2 is not c.comparators[0]:
                c = ast.copy_location(ast.Compare(left=l2, ops=[ast.Eq()], comparators=[r2]), c)
        if isinstance(c, ast.Name):
            # a named boolean local: `same_volume = a.groups.get("volume") == b.groups.get("volume")`
            e = Locals(fn).expand(c, c, depth=1)
            if not isinstance(e, ast.Name):
                c = e
        if isinstance(c, ast.Call) and dotted(c.func) == "any" and len(c.args) == 1 and isinstance(c.args[0], ast.GeneratorExp) and outcome:
            # any(getattr(F.metadata, p) and X in getattr(F.metadata, p) for p in ("defendant", "plaintiff"))
            g = c.args[0]
            if len(g.generators) == 1 and isinstance(g.generators[0].target, ast.Name) and isinstance(g.generators[0].iter, (ast.Tuple, ast.List)) \
                    and all(isinstance(x, ast.Constant) and isinstance(x.value, str) for x in g.generators[0].iter.elts) and not g.generators[0].ifs:
                v = g.generators[0].target.id
                atoms = g.elt.values if isinstance(g.elt, ast.BoolOp) and isinstance(g.elt.op, ast.And) else [g.elt]
                fld = f"getattr({F}.metadata, {v})"
                has_in = any(isinstance(a_, ast.Compare) and len(a_.ops) == 1 and isinstance(a_.ops[0], ast.In) and norm(a_.comparators[0]) == fld
                             and F not in names_in(a_.left) for a_ in atoms)
                others = all(norm(a_) == fld or (isinstance(a_, ast.Compare) and norm(a_.comparators[0]) == fld) for a_ in atoms)
                if has_in and others:
                    return "contains:" + "|".join(x.value for x in g.generators[0].iter.elts)
            return None
        it = isinstance_test(c)
        if it and it[0] == F and outcome:
            return "isinstance:" + "|".join(it[1])
        if isinstance(c, ast.Compare) and len(c.ops) == 1 and outcome:
            l, r = c.left, c.comparators[0]
            if isinstance(c.ops[0], ast.Eq):
                nl, nr = norm(l), norm(r)
                for S in thecit:
                    for a, b in ((nl, nr), (nr, nl)):
                        if a.startswith(S + ".") and b.startswith(F + ".") and a[len(S):] == b[len(F):]:
                            if "corrected_reporter()" in a:
                                return "eq:corrected_reporter"
                            if "volume" in a:
                                return "eq:volume"
                            return "eq:" + a[len(S) + 1:]
                return None
            if isinstance(c.ops[0], ast.In):
                # X in F.metadata.<field>
                nr = norm(r)
                if nr.startswith(F + ".metadata."):
                    fld = nr.split(".")[-1]
                    # X must derive from a parameter (the antecedent), not from the pair itself
                    if F not in names_in(l):
                        return "contains:" + fld
                return None
        if isinstance(c, ast.Attribute) and outcome and norm(c).startswith(F + ".metadata."):
            return "truthy:" + c.attr
        if isinstance(c, ast.BinOp) and isinstance(c.op, ast.BitAnd) and outcome:
            # set intersection between values of this pair's metadata and the reference's names
            roots = [self._roots(fn, side) for side in (c.left, c.right)]
            if any(F in r_ for r_ in roots) and any(set(thecit) & r_ for r_ in roots):
                return "intersects"
            return None
        # negations from elif chains: a failed earlier alternative
        if not outcome:
            if isinstance(c, ast.Compare) and len(c.ops) == 1 and isinstance(c.ops[0], ast.In) and norm(c.comparators[0]).startswith(F + ".metadata."):
                return "alt-failed"
            if isinstance(c, ast.Attribute) and norm(c).startswith(F + ".metadata."):
                return "alt-failed"
        return None

    def _roots(self, fn, e: ast.AST, depth=0) -> Set[str]:
        """names an expression depends on, through local single assignments."""
        out = set()
        for nm in names_in(e):
            out.add(nm)
            if depth < 4:
                for s in stmts_local(fn.body):
                    if isinstance(s, (ast.Assign, ast.AnnAssign)) and nm in assigned_names(s) and s.value is not None:
                        out |= self._roots(fn, s.value, depth + 1)
                for n in walk_local(fn):
                    if isinstance(n, ast.Call) and isinstance(n.func, ast.Attribute) and n.func.attr in ("add", "append", "update") and isinstance(n.func.value, ast.Name) and n.func.value.id == nm and depth < 4:
                        for a in n.args:
                            out |= self._roots(fn, a, depth + 1)
        return out

    # ---- R-C07-4 --------------------------------------------------------------
    def r4_id_discipline(self):
        r, ctx = self.r, self.ctx
        # (a) LAST = KEY on every completed iteration, after the last assignment to KEY
        n_paths, ok = 0, True
        bad_exit = None
        for p in self.body_paths():
            if p.exit == "raise":
                continue
            n_paths += 1
            last_key_assign, last_last_assign = -1, -1
            for i, ev in enumerate(p.events):
                if ev[0] == "stmt":
                    if isinstance(ev[1], (ast.Assign, ast.AnnAssign, ast.AugAssign)):
                        an = assigned_names(ev[1])
                        if r.KEY in an:
                            last_key_assign = i
                        if r.LAST in an and isinstance(getattr(ev[1], "value", None), ast.Name) and ev[1].value.id == r.KEY:
                            last_last_assign = i
                        elif r.LAST in an:
                            last_last_assign = -2  # assigned from something else
            if last_last_assign < 0 or last_last_assign < last_key_assign or last_key_assign < 0:
                # (also: the resolution must be computed *in this iteration* -- a path that assigns nothing to it carries the previous
                # citation's resolution over, and the citation is filed under a case it has nothing to do with)
                ok = False
                bad_exit = p.exit_node or r.FOLD
        ctx.ob("R-C07-4a", f"{self.q}/{r.LAST}:every-iteration", ok and n_paths > 0,
               f"`{r.LAST} = {r.KEY}` must execute on every path through the fold body, after the resolution is computed "
               f"(an unresolved citation resets it); paths={n_paths}", node=bad_exit or (r.last_assigns[0] if r.last_assigns else r.FOLD), mod=self.m)
        # (b) _resolve_id_citation
        idp = self._param_for("IdCitation")
        ctx.need(idp, "id-citation branch of the fold not found")
        fn = self.repo.need_func(f"resolve.{r.resolvers[idp]}")
        rl = resolver_call_roles(r).get(idp, {}).get("__list__") or []
        ps = [a.arg for a in fn.args.args]
        roles = {ps[i]: rl[i] for i in range(min(len(ps), len(rl)))}
        lastp = next((p for p, v in roles.items() if v == LAST), None)
        resp = next((p for p, v in roles.items() if v == "RESMAP"), None)
        idc = next((p for p, v in roles.items() if v == "THECIT"), None)
        ctx.ob("R-C07-4b", f"resolve.{fn.name}/roles", bool(lastp and idc),
               f"id resolver must receive the id citation and the previous resolution (roles {roles})", node=fn, mod=self.m, nontrivial=False)
        if not lastp:
            return
        paths = enumerate_paths(fn.body)
        validator = None
        n_ret_last = 0
        for p in paths:
            if p.exit != "return":
                ctx.ob("R-C07-4b", f"resolve.{fn.name}/exit", p.exit == "fall", "unexpected exit", node=p.exit_node or fn, mod=self.m, nontrivial=False)
                continue
            rv = p.exit_node.value
            if rv is None or (isinstance(rv, ast.Constant) and rv.value is None):
                continue
            is_last = isinstance(rv, ast.Name) and rv.id == lastp
            if not is_last:
                ctx.ob("R-C07-4b", f"resolve.{fn.name}/return", False, "id resolver may return only the previous resolution or None", node=p.exit_node, mod=self.m)
                continue
            n_ret_last += 1
            tested_last = any(ev[0] == "cond" and presence_test(ev[1], ev[2]) == (lastp, True) for ev in p.events)
            val_false = None
            for ev in p.events:
                if ev[0] == "cond" and isinstance(ev[1], ast.Call) and isinstance(ev[1].func, ast.Name) and self.repo.func(f"resolve.{ev[1].func.id}") is not None:
                    args = [norm(a) for a in ev[1].args]
                    if idc in args and not ev[2]:
                        validator = ev[1]
                        val_false = True
            ctx.ob("R-C07-4b", f"resolve.{fn.name}/return-last", tested_last and bool(val_false),
                   "a path returning the previous resolution must have tested it truthy and passed the pin-cite validity check "
                   f"(tested={tested_last}, validated={bool(val_false)})", node=p.exit_node, mod=self.m)
        ctx.ob("R-C07-4b", f"resolve.{fn.name}/reaches-last", n_ret_last > 0, "some path returns the previous resolution", node=fn, mod=self.m, nontrivial=False)
        if validator is None:
            return
        # antecedent argument = first member of the previous resolution's list
        ante = [a for a in validator.args if norm(a) != idc]
        okante = False
        if ante and resp:
            roots = self._expand(fn, ante[0])
            okante = f"{resp}[{lastp}][0]" in roots
            if not okante:
                # the same through a local that holds the group: `prev = RES.get(last)` / `RES[last]` ... `prev[0]`
                import re as _re2
                for m_ in _re2.finditer(r"(\w+)\[0\]", roots):
                    if f"<= {resp}.get({lastp})" in self._expand(fn, ast.Name(id=m_.group(1), ctx=ast.Load())) or \
                            f"<= {resp}[{lastp}]" in self._expand(fn, ast.Name(id=m_.group(1), ctx=ast.Load())):
                        okante = True
        ctx.ob("R-C07-4b", f"resolve.{fn.name}/antecedent", okante,
               "the pin cite must be validated against the first (full) citation of the previous resolution's group",
               node=validator, mod=self.m)
        # (c) the validator
        self._validator(self.repo.need_func(f"resolve.{validator.func.id}"), validator)

    def _expand(self, fn, e: ast.AST) -> str:
        """source text of e with local single-assignment names expanded."""
        t = norm(e)
        for _ in range(3):
            for s in stmts_local(fn.body):
                if isinstance(s, ast.Assign) and len(s.targets) == 1 and isinstance(s.targets[0], ast.Name):
                    nm = s.targets[0].id
                    if nm in t.replace("(", " ").replace(")", " ").replace(",", " ").split():
                        t = t + " <= " + norm(s.value)
        return t

    def _validator(self, fn: ast.FunctionDef, call: ast.Call):
        ctx = self.ctx
        ps = [a.arg for a in fn.args.args]
        ctx.need(len(ps) == 2, f"{fn.name}: expected (full_cite, id_cite)")
        # which parameter is the id citation
        idx_id = [i for i, a in enumerate(call.args) if isinstance(a, ast.Name)]
        FULL, IDC = ps[0], ps[1]
        if idx_id and idx_id[0] == 0 and len(call.args) == 2 and not isinstance(call.args[1], ast.Name):
            FULL, IDC = ps[1], ps[0]
        q = f"resolve.{fn.name}"
        paths = enumerate_paths(fn.body)
        # locals
        PAGE = PIN = MATCH = None
        LOCS = Locals(fn)
        self._locs = LOCS
        for s in stmts_local(fn.body):
            if isinstance(s, ast.Assign) and len(s.targets) == 1 and isinstance(s.targets[0], ast.Name):
                v = s.value
                if isinstance(v, ast.Call) and dotted(v.func) == "int" and v.args:
                    t = norm(v.args[0])
                    te = LOCS.text(v.args[0], s)
                    if te.startswith(FULL + ".groups") and "page" in te:
                        PAGE = s.targets[0].id
                    elif MATCH and (t.startswith(MATCH + "[") or t.startswith(MATCH + ".group(")):
                        PIN = s.targets[0].id
                if isinstance(v, ast.Call) and dotted(v.func) in ("re.match", "re.search", "re.fullmatch") and len(v.args) >= 2 and IDC in names_in(v.args[1]) and "pin_cite" in norm(v.args[1]):
                    MATCH = s.targets[0].id
        ctx.ob("R-C07-4c", f"{q}/bindings", bool(PAGE and PIN and MATCH),
               f"validator must parse the antecedent page and the numeric prefix of the pin cite (page={PAGE}, pin={PIN}, match={MATCH})",
               node=fn, mod=self.m, nontrivial=False)
        if not (PAGE and PIN and MATCH):
            return
        # classify every return path
        saw = {"placeholder": 0, "nonnumeric": 0, "lower": 0, "upper": 0, "valid": 0}
        allok = True
        for p in paths:
            if p.exit != "return":
                allok = False
                continue
            rv = p.exit_node.value
            val = rv.value if isinstance(rv, ast.Constant) else "?"
            conds = [(ev[1], ev[2]) for ev in p.events if ev[0] == "cond"]
            tags = set()
            for c, o in conds:
                t = norm(c)
                if t in (f"{FULL}.groups.get('page') is None", f"{FULL}.groups['page'] is None") and o:
                    tags.add("placeholder")
                if isinstance(c, ast.Name) and c.id == MATCH and not o:
                    tags.add("nonnumeric")
                if t in (f"{MATCH} is None",) and o:
                    tags.add("nonnumeric")
                if t in (f"{MATCH} is not None",) and not o:
                    tags.add("nonnumeric")
                b = self._bound_kind(c, PIN, PAGE, o)
                if b:
                    tags.add(b)
            for t in tags:
                saw[t] += 1
            if tags and val is not True:
                allok = False
                ctx.ob("R-C07-4c", f"{q}/reject:{'+'.join(sorted(tags))}", False,
                       f"a path on which the pin cite is implausible ({sorted(tags)}) must return True (invalid), returns {val}",
                       node=p.exit_node, mod=self.m)
            if not tags and val is False:
                saw["valid"] += 1
        for k in ("placeholder", "nonnumeric", "lower", "upper"):
            ctx.ob("R-C07-4c", f"{q}/has:{k}", saw[k] > 0,
                   {"placeholder": "an antecedent with a placeholder (None) page must be rejected",
                    "nonnumeric": "a pin cite without a numeric prefix must be rejected",
                    "lower": "a pin cite before the first page must be rejected (lower bound `pin < page`)",
                    "upper": "a pin cite implausibly far beyond the first page must be rejected (upper bound `pin > page + K`, K a positive constant)"}[k],
                   node=fn, mod=self.m)
        ctx.ob("R-C07-4c", f"{q}/reject-paths-return-true", allok, "all rejecting paths return True", node=fn, mod=self.m, nontrivial=False)

    def _bound_kind(self, c: ast.AST, PIN: str, PAGE: str, outcome: bool = True) -> Optional[str]:
        """'lower' if (c, outcome) says pin < page, 'upper' if it says pin > page + K (K a positive constant)"""
        if not (isinstance(c, ast.Compare) and len(c.ops) == 1):
            return None
        l, r, op = c.left, c.comparators[0], type(c.ops[0])
        if op not in (ast.Lt, ast.Gt, ast.LtE, ast.GtE):
            return None
        # normalise to PIN on the left
        if isinstance(r, ast.Name) and r.id == PIN:
            l, r = r, l
            op = {ast.Lt: ast.Gt, ast.Gt: ast.Lt, ast.LtE: ast.GtE, ast.GtE: ast.LtE}[op]
        if not (isinstance(l, ast.Name) and l.id == PIN):
            return None
        if not outcome:
            op = {ast.Lt: ast.GtE, ast.GtE: ast.Lt, ast.Gt: ast.LtE, ast.LtE: ast.Gt}[op]
        locs = getattr(self, "_locs", None)
        if isinstance(r, ast.Name) and r.id != PAGE and locs is not None:
            r = locs.expand(r, c, stop={PAGE, PIN})
        if op in (ast.Lt, ast.LtE) and isinstance(r, ast.Name) and r.id == PAGE:
            return "lower"
        if op in (ast.Gt, ast.GtE) and isinstance(r, ast.BinOp) and isinstance(r.op, ast.Add):
            a, b = r.left, r.right
            for x, y in ((a, b), (b, a)):
                if isinstance(x, ast.Name) and x.id == PAGE:
                    k = self._const_int(y)
                    if k is not None and k > 0:
                        return "upper"
        return None

    def _const_int(self, e: ast.AST) -> Optional[int]:
        if isinstance(e, ast.Constant) and isinstance(e.value, int):
            return e.value
        if isinstance(e, ast.Name):
            v = self.m.toplevel_assign(e.id)
            if isinstance(v, ast.Constant) and isinstance(v.value, int):
                # a module constant must not be rebound anywhere
                return v.value
        return None


def run(ctx: Ctx):
    ctx.level = "other"
    ctx.explanation = (
        "Structural decision of every clause: R-C07-1 every selection of one candidate is under `len(D) == 1` for the "
        "resource-de-duplicated collection D (otherwise None / delegation); R-C07-2 candidates are added only under the "
        "matching predicates (same corrected reporter and volume for short forms; party-name containment / name "
        "intersection for supra and reference), taken from the same (citation, resource) pair, with no other filter; "
        "R-C07-3 (= O3) nothing but None, a resource of an earlier pair or the previous resolution can be returned; "
        "R-C07-4 `last = resolution` runs on every path through the fold body after the resolution is computed, the id "
        "resolver returns the previous resolution only when it is truthy and the pin-cite check passed against the first "
        "member of its group, and the pin-cite check rejects placeholder pages, non-numeric pins and both sides of the "
        "page window.  The numeric window is decided as presence and two-sidedness of the comparison, not by evaluating it."
    )
    ctx.trusted = ["the checker (sa/*.py)", "Python semantics of set(), len(), list indexing"]
    ctx.assumptions = [
        "default resolvers only",
        "whether strip_punct/containment is the right notion of a name match is value-level and not decided",
        "the window width (150) is not judged, only that it is a positive constant",
    ]
    R = C07Rules(ctx)
    ctx.guard(R.o1_single_fold)
    ctx.guard(R.o3_resolver_provenance)
    ctx.guard(R.r1_uniqueness_guard)
    ctx.guard(R.r2_candidate_predicates)
    ctx.guard(R.r2b_shortform_selects_among_candidates)
    ctx.guard(R.r4_id_discipline)
    ctx.guard(R.dynamic_features_absent)
    # the id. resolver and the value hash recognise a placeholder page by `page is None`; that is only as good as the normalisation that turns every
    # placeholder spelling the page pattern accepts into None (shared with C16)
    from .c16 import rule_placeholder_normalisation
    ctx.guard(rule_placeholder_normalisation, ctx, "R-C07-6")
    ctx.floor("R-C07-1", 3)
    ctx.floor("R-C07-2", 10)
    ctx.floor("R-C07-4a", 1)
    ctx.floor("R-C07-4b", 4)
    ctx.floor("R-C07-4c", 5)
    ctx.floor("O3", 10)
