"""C14 -- The Hyperscan tokenizer is a drop-in replacement (structural part,
DESIGN 2/C14)."""
from __future__ import annotations

import ast
import hashlib
import re as _re
from typing import Any, Dict, List, Optional, Set, Tuple

from .. import materialize, rx
from ..core import Ctx, Locals, assigned_names, dotted, names_in, norm, stmts_local, walk_local
from ..guards import guarded
from ..paths import enumerate_paths
from .c12 import from_match_rules
from .c13 import ext_name

NONASCII_PROBES = ["“", "é", "§", "—"]  # quote, accented letter, section sign, dash (all inside C14's domain)


def single_position_wide_atoms(e: Dict[str, Any]) -> List[Tuple[str, str]]:
    """atoms of the pattern that consume exactly one *character* in Python but
    one *byte* under Hyperscan's byte mode, can match a multi-byte character,
    and are not under an unbounded repeat (so the match cannot re-align):
    returns [(kind, text)]."""
    out = []

    def walk(items, unbounded):
        for op, av in items:
            n = str(op)
            if n == "IN":
                items_ = tuple((str(o), a if not isinstance(a, list) else tuple(a)) for o, a in av)
                neg = any(k == "NEGATE" for k, _ in items_)
                only_cat = all(k in ("CATEGORY", "NEGATE") for k, _ in items_)
                if only_cat:
                    continue  # \s \d \w and negations: outside C14's domain unless they coincide
                p = rx.Pred("IN", items_, bool(e["flags"] & _re.I))
                if neg and not unbounded and any(p.matches(ch) for ch in NONASCII_PROBES):
                    out.append(("negated-class", "[^...]"))
            elif n == "NOT_LITERAL" and not unbounded:
                out.append(("negated-class", "[^c]"))
            elif n == "ANY" and not unbounded:
                out.append(("dot", "."))
            elif n == "SUBPATTERN":
                walk(av[3], unbounded)
            elif n == "BRANCH":
                for b in av[1]:
                    walk(b, unbounded)
            elif n in ("MAX_REPEAT", "MIN_REPEAT"):
                lo_, hi_, sub_ = av
                if hi_ != rx.MAXREPEAT and hi_ > 1:
                    # a counted repeat of a wide atom counts characters in Python and bytes under byte mode: `[^\sa-z]{,3}` admits three
                    # curly quotes for `re` and one for Hyperscan.  (A kind of its own: it is not covered by the known finding about single atoms.)
                    for op2, av2 in list(sub_):
                        n2 = str(op2)
                        wide = n2 in ("NOT_LITERAL", "ANY")
                        if n2 == "IN":
                            it2 = tuple((str(o), a if not isinstance(a, list) else tuple(a)) for o, a in av2)
                            if not all(k in ("CATEGORY", "NEGATE") for k, _ in it2):
                                p2 = rx.Pred("IN", it2, bool(e["flags"] & _re.I))
                                wide = any(p2.matches(ch) for ch in NONASCII_PROBES)
                        if wide and len(list(sub_)) == 1:
                            out.append(("counted-repeat", f"{{{lo_},{hi_}}}"))
                walk(av[2], unbounded or av[1] == rx.MAXREPEAT)

    walk(rx.parse(e["regex"], e["flags"]), False)
    return out


def multibyte_hazards(e: Dict[str, Any]) -> List[str]:
    """non-ASCII literal as the direct operand of a repeat other than `?`
    (convert_regex only rewrites `c?`), or a non-ASCII member of a character
    class (a byte set under byte mode)."""
    out = []
    # bracket classes as written: the parser also turns an alternation of single characters `(?:-|–)` into a set, and that is an alternation of
    # byte *sequences* for Hyperscan, which is fine
    src = e["regex"]
    written = []
    i = 0
    while i < len(src):
        if src[i] == "\\":
            i += 2
            continue
        if src[i] == "[":
            j = i + 1
            if j < len(src) and src[j] == "^":
                j += 1
            if j < len(src) and src[j] == "]":
                j += 1
            while j < len(src) and src[j] != "]":
                j += 2 if src[j] == "\\" else 1
            written.append(src[i:j + 1])
            i = j + 1
            continue
        i += 1

    def walk(items):
        for op, av in items:
            n = str(op)
            if n in ("MAX_REPEAT", "MIN_REPEAT"):
                lo, hi, sub = av
                sub = list(sub)
                if len(sub) == 1 and str(sub[0][0]) == "LITERAL" and sub[0][1] > 127 and not (lo == 0 and hi == 1):
                    out.append(f"{chr(sub[0][1])}{{{lo},{hi if hi != rx.MAXREPEAT else ''}}}")
                walk(sub)
            elif n == "IN":
                members = [chr(a) for o, a in av if str(o) == "LITERAL" and a > 127]
                for o, a in av:
                    if str(o) == "RANGE" and a[1] > 127:
                        members.append(f"{chr(a[0])}-{chr(a[1])}")
                if members and any(any(ch in w for ch in "".join(members) if ord(ch) > 127) for w in written):
                    out.append("[" + "".join(chr(a) if str(o) == "LITERAL" else "" for o, a in av) + "]")
            elif n == "SUBPATTERN":
                walk(av[3])
            elif n == "BRANCH":
                for b in av[1]:
                    walk(b)

    walk(rx.parse(e["regex"], e["flags"]))
    return out


def rule_patterns(ctx: Ctx, data):
    repo = ctx.repo
    tm = repo.mod("tokenizers")
    db = repo.need_func("tokenizers.HyperscanTokenizer.hyperscan_db")
    # does the flag expression include HS_FLAG_UTF8?
    comp0 = [n for n in walk_local(db) if isinstance(n, ast.Call) and norm(n.func).endswith(".compile") and any(k.arg == "flags" for k in n.keywords)]
    FLAGS = norm(next(k.value for k in comp0[0].keywords if k.arg == "flags")) if comp0 else "flags"
    flag_src = " ".join(norm(s) for s in stmts_local(db.body) if isinstance(s, ast.Assign) and norm(s.targets[0]) == FLAGS)
    utf8 = "HS_FLAG_UTF8" in flag_src
    ctx.extra["hyperscan_flags_expression"] = flag_src[:200]
    kinds: Dict[str, List[int]] = {}
    hazards: List[Tuple[Dict[str, Any], str]] = []
    for e in data["extractors"]:
        for kind, _ in set(single_position_wide_atoms(e)):
            kinds.setdefault(kind, []).append(e["i"])
        for h in multibyte_hazards(e):
            hazards.append((e, h))
    ctx.extra["patterns_with_single_position_wide_atom"] = {k: len(v) for k, v in kinds.items()}
    witnesses = {"negated-class": "“1 U.S. 1”", "dot": "see 12 Am. Jur. p“ 34 x"}
    for kind in sorted(set(kinds) | {"negated-class", "counted-repeat"}):
        n = len(kinds.get(kind, []))
        ctx.ob("R-C14-2", f"tokenizers.HyperscanTokenizer.hyperscan_db/byte-mode x {kind}", utf8 or n == 0,
               f"{n} patterns contain a one-character {kind} atom that can match a multi-byte character; the patterns are compiled from UTF-8 bytes "
               f"without HS_FLAG_UTF8, so the atom consumes one *byte* of such a neighbour, the match starts or ends inside a character and the hit is "
               f"dropped by the decode guard -- Hyperscan misses a candidate the reference tokenizer reports",
               node=db, mod=tm, witness=witnesses.get(kind))
    seen = set()
    for e, h in hazards:
        # identified by the edition and the offending fragment (not by a digest of the whole pattern: an unrelated change to the template
        # variables would make the same defect look new)
        name = ext_name(e).split("#")[0]
        key = (name, h)
        if key in seen:
            continue
        seen.add(key)
        ctx.ob("R-C14-3", f"extractor:{name}/{h}", utf8,
               f"`{h}`: a non-ASCII member of a character class / repeated multi-byte literal becomes a byte set / half-character repeat in byte mode "
               "(convert_regex only rewrites `c?`); Hyperscan under-reports where Python matches", mod=tm, statement=e["regex"][:160],
               witness="Pub. L. 107-56, §§ 2 et seq." if "Pub" in e["regex"] else None)
    if not hazards:
        ctx.ob("R-C14-3", "extractors/multibyte-under-quantifier", True, "no pattern has a non-ASCII class member or repeated multi-byte literal", mod=tm,
               nontrivial=False)
    # positive fixture: the detector must fire on a synthetic pattern on every run
    fix = {"regex": "(§{1,2}[§x])", "flags": 0}
    ctx.need(len(multibyte_hazards(fix)) == 2, "multibyte_hazards self-check failed on the fixture pattern")
    ctx.need([k for k, _ in single_position_wide_atoms({"regex": "a[^bx]c.", "flags": 0})] == ["negated-class", "dot"]
             and not single_position_wide_atoms({"regex": "a[^bx]*c\\S+", "flags": 0}),
             "single_position_wide_atoms self-check failed on the fixture pattern")
    # convert_regex handles `c?` for multi-byte c
    cr = ctx.repo.hyperscan_converter()
    okc = cr is not None and any(isinstance(n, ast.Call) and dotted(n.func) == "re.sub" and "(?:\\\\1)?" in norm(n) for n in walk_local(cr))
    # R-C14-8: Hyperscan does not know the `{,n}` spelling of a bounded repeat (it reads it as literal text), so the converter's `{,n}` -> `{0,n}`
    # rewrite must be applied on every path that returns a pattern -- as long as any extractor pattern uses that spelling
    n_open = sum(1 for e in data["extractors"] if _re.search(r"\{,\d+\}", e["regex"]))
    if cr is not None:
        from ..paths import enumerate_paths
        rew = [s_ for s_ in stmts_local(cr.body) if isinstance(s_, ast.Assign) and any(
            isinstance(c_, ast.Call) and dotted(c_.func) in ("re.sub", "regex.sub") and c_.args and isinstance(c_.args[0], ast.Constant)
            and isinstance(c_.args[0].value, str) and "\\{," in c_.args[0].value for c_ in ast.walk(s_.value))]
        skipping = [p_ for p_ in enumerate_paths(cr.body) if p_.exit == "return" and not any(ev_[0] == "stmt" and ev_[1] in rew for ev_ in p_.events)]
        conds = sorted({norm(ev_[1])[:40] for p_ in skipping for ev_ in p_.events if ev_[0] == "cond"})
        ctx.ob("R-C14-8", "tokenizers.HyperscanTokenizer.hyperscan_db.convert_regex/open-lower-bound-rewritten", (bool(rew) and not skipping) or n_open == 0,
               f"{n_open} extractor patterns write a bounded repeat as `{{,n}}`; every path through the converter must rewrite it to `{{0,n}}` "
               f"({len(skipping)} returning path(s) skip the rewrite; conditions on them: {conds}): otherwise Hyperscan compiles a pattern that looks for the "
               "literal characters and never reports the candidate", node=(skipping[0].exit_node if skipping else cr), mod=tm)
    ctx.ob("R-C14-3", "tokenizers.HyperscanTokenizer.hyperscan_db.convert_regex/optional-multibyte", bool(okc),
           "`c?` for a multi-byte c is rewritten to `(?:c)?` before compiling", node=cr or db, mod=tm)


def rule_revalidation(ctx: Ctx):
    repo = ctx.repo
    tm = repo.mod("tokenizers")
    fn = repo.need_func("tokenizers.HyperscanTokenizer.extract_tokens")
    q = "tokenizers.HyperscanTokenizer.extract_tokens"
    ys = [y for y in walk_local(fn) if isinstance(y, ast.Yield)]
    ok = bool(ys)
    for y in ys:
        c = y.value
        good = isinstance(c, ast.Call) and isinstance(c.func, ast.Attribute) and c.func.attr == "get_token" and c.args and isinstance(c.args[0], ast.Name)
        if not good:
            ok = False
            continue
        m = c.args[0]
        defs = [s for s in stmts_local(fn.body) if isinstance(s, ast.Assign) and any(isinstance(t, ast.Name) and t.id == m.id for t in s.targets)]
        rematch = len(defs) == 1 and isinstance(defs[0].value, ast.Call) and norm(defs[0].value.func).endswith("compiled_regex.match")
        ctx.ob("R-C14-1", f"{q}/re-match", rematch, "every Hyperscan hit is re-matched with the extractor's own compiled Python pattern on the hit's substring "
               "(so groups, type and editions of a surviving candidate are those of the reference tokenizer)", node=defs[0] if defs else y, mod=tm)
        ctx.ob("R-C14-1", f"{q}/re-match-checked", guarded(fn, m, {m.id}),
               "the re-match may fail (Hyperscan and Python disagree on the substring): the token is built only when it succeeded", node=y, mod=tm)
        same_ext = norm(c.func.value) == norm(defs[0].value.func).split(".compiled_regex")[0] if defs else False
        ctx.ob("R-C14-1", f"{q}/same-extractor", same_ext, "the token is built by the extractor whose pattern matched", node=y, mod=tm, nontrivial=False)
    ctx.ob("R-C14-1", f"{q}/yields", ok, "tokens come from get_token(match) only", node=fn, mod=tm, nontrivial=False)
    # hits index self.extractors positionally
    on = next((n for n in walk_local(fn) if isinstance(n, ast.FunctionDef)), None)
    okidx = on is not None and any(isinstance(n, ast.Subscript) and norm(n.value) == "self.extractors" and norm(n.slice) == on.args.args[0].arg for n in walk_local(on))
    ctx.ob("R-C14-1", f"{q}/hit-id-is-extractor-position", okidx, "the match id reported by Hyperscan indexes self.extractors", node=on or fn, mod=tm)
    # every hit the callback records reaches the re-validation: the candidate list is filled by the callback only and is neither rebound,
    # filtered nor shrunk before the loop that re-matches its entries (dropping "redundant" hits changes which tokens exist: the reference
    # tokenizer decides overlaps on the tokens, not on raw pattern matches)
    if on is not None:
        hits = {norm(c_.func.value) for c_ in walk_local(on) if isinstance(c_, ast.Call) and isinstance(c_.func, ast.Attribute) and c_.func.attr in ("append", "add")}
        # ... and the callback records every hit it is given: no path through it skips the recording (a hit dropped for its length, its position or
        # its pattern id is a candidate the reference tokenizer still reports)
        from ..paths import enumerate_paths
        rec = [s_ for s_ in stmts_local(on.body) if isinstance(s_, ast.Expr) and isinstance(s_.value, ast.Call) and isinstance(s_.value.func, ast.Attribute)
               and s_.value.func.attr in ("append", "add")]
        skipping = [p_ for p_ in enumerate_paths(on.body) if p_.exit in ("fall", "return") and not any(ev_[0] == "stmt" and ev_[1] in rec for ev_ in p_.events)]
        conds = sorted({norm(ev_[1])[:50] for p_ in skipping for ev_ in p_.events if ev_[0] == "cond"})
        ctx.ob("R-C14-1", f"{q}/callback-records-every-hit", bool(rec) and not skipping,
               f"every path through the scan callback records the hit ({len(skipping)} path(s) return without recording; conditions on them: {conds})",
               node=(skipping[0].exit_node if skipping and skipping[0].exit_node is not None else on), mod=tm)
        for H in sorted(hits):
            binds = [s_ for s_ in stmts_local(fn.body) if isinstance(s_, (ast.Assign, ast.AnnAssign, ast.AugAssign)) and H in assigned_names(s_)]
            shrinks = [c_ for c_ in walk_local(fn) if isinstance(c_, ast.Call) and isinstance(c_.func, ast.Attribute) and norm(c_.func.value) == H
                       and c_.func.attr in ("pop", "remove", "clear", "discard", "sort", "reverse", "difference_update", "intersection_update")]
            loops = [l_ for l_ in walk_local(fn) if isinstance(l_, ast.For) and norm(l_.iter) == H and any(isinstance(y_, ast.Yield) for y_ in ast.walk(l_))]
            okh = len(binds) == 1 and norm(binds[0].value) in ("[]", "list()", "set()") and not shrinks and len(loops) == 1
            ctx.ob("R-C14-1", f"{q}/{H}:every-hit-is-revalidated", okh,
                   f"`{H}` starts empty, is filled by the scan callback only and is iterated as it is by the loop that re-matches and yields "
                   f"(bindings {[norm(b_)[:40] for b_ in binds]}, shrinking calls {[norm(c_)[:30] for c_ in shrinks]}, yielding loops over it: {len(loops)})",
                   node=(binds[1] if len(binds) > 1 else shrinks[0] if shrinks else fn), mod=tm)
    rule_offset_table(ctx, "R-C14-7")


def rule_offset_table(ctx: Ctx, rule: str = "R-C14-7"):
    """byte offsets of Hyperscan hits become str offsets by *strict* decoding of the bytes in between; an offset that splits a character cannot be
    decoded and is dropped.  (Shared with C02: a lenient decode counts the stray bytes of a split character as characters and every later
    offset drifts.)"""
    repo = ctx.repo
    tm = repo.mod("tokenizers")
    fn = repo.need_func("tokenizers.HyperscanTokenizer.extract_tokens")
    q = "tokenizers.HyperscanTokenizer.extract_tokens"
    # byte offset -> str offset by decoding; undecodable offsets are dropped
    dec = [n for n in walk_local(fn) if isinstance(n, ast.Call) and isinstance(n.func, ast.Attribute) and n.func.attr == "decode"]
    okd = False
    LOC = Locals(fn)
    lens = [n for n in walk_local(fn) if isinstance(n, ast.Call) and dotted(n.func) == "len" and len(n.args) == 1]
    for d in dec:
        tr = d
        in_try = False
        while tr is not fn:
            tr = tr.parent
            if isinstance(tr, ast.Try) and any(h.type is not None and "UnicodeDecodeError" in norm(h.type) and any(isinstance(s, ast.Continue) for s in h.body) for h in tr.handlers):
                in_try = True
        # the bytes decoded are a slice (directly, or a local holding the slice)
        sl = LOC.expand(d.func.value, d)
        # ... and its length is what is counted: len(<the decode call>) directly or through a local
        counted = any(l.args[0] is d or norm(LOC.expand(l.args[0], l)) == norm(LOC.expand(d, d)) for l in lens)
        if counted and in_try and isinstance(sl, ast.Subscript) and isinstance(sl.slice, ast.Slice):
            okd = True
    lenient = [d for d in dec if any(isinstance(a, ast.Constant) and a.value in ("replace", "ignore", "backslashreplace") for a in list(d.args) + [k.value for k in d.keywords])]
    ctx.ob(rule, f"{q}/strict-decoding-only", not lenient,
           f"every decode that counts characters is strict ({[norm(d)[:50] for d in lenient]}): a lenient error handler turns the stray bytes of a split character "
           "into characters of their own and the offsets of all later hits drift", node=lenient[0] if lenient else fn, mod=tm)
    ctx.ob(rule, f"{q}/byte-to-str-offsets-by-decoding", okd,
           "str offsets are obtained by decoding the bytes between consecutive hit offsets (len(bytes[a:b].decode())), and an offset that splits a "
           "character (UnicodeDecodeError) is dropped: offsets of kept hits are exact for every text", node=dec[0] if dec else fn, mod=tm)
    table = next((norm(x.targets[0].value) for x in stmts_local(fn.body) if isinstance(x, ast.Assign) and isinstance(x.targets[0], ast.Subscript)
                  and isinstance(x.targets[0].value, ast.Name)), None)
    lookups = [n for n in walk_local(fn) if isinstance(n, ast.Compare) and any(isinstance(o, (ast.In, ast.NotIn)) for o in n.ops) and table and norm(n.comparators[0]) == table]
    ctx.ob(rule, f"{q}/misaligned-hits-discarded", len(lookups) >= 2, "a hit is used only if both of its offsets decoded", node=lookups[0] if lookups else fn, mod=tm)


def rule_cache(ctx: Ctx):
    repo = ctx.repo
    tm = repo.mod("tokenizers")
    db = repo.need_func("tokenizers.HyperscanTokenizer.hyperscan_db")
    q = "tokenizers.HyperscanTokenizer.hyperscan_db"
    # exception family of the installed library (a library fact, introspected)
    try:
        import hyperscan  # type: ignore

        fam = sorted(n for n in dir(hyperscan) if isinstance(getattr(hyperscan, n), type) and issubclass(getattr(hyperscan, n), hyperscan.error))
        root_name = "error"
    except Exception:  # noqa: BLE001
        fam, root_name = [], "error"
    ctx.extra["hyperscan_exception_family"] = fam
    tries = [t for t in walk_local(db) if isinstance(t, ast.Try) and any(isinstance(n, ast.Call) and norm(n.func).endswith("loadb") for s in t.body for n in ast.walk(s))]
    ctx.ob("R-C14-4", f"{q}/cache-load-try", len(tries) == 1, "the cache load is inside one try statement", node=tries[0] if tries else db, mod=tm, nontrivial=False)
    if tries:
        t = tries[0]
        caught = [norm(h.type) if h.type is not None else "<bare>" for h in t.handlers]
        covers = any(c in ("hyperscan.error", "hyperscan.HyperscanError", "Exception", "<bare>") for c in caught)
        ctx.ob("R-C14-4", f"{q}/handler-covers-library-errors", covers,
               f"a cache file that cannot be used (truncated, corrupted, other version/platform/mode) raises a subclass of hyperscan.{root_name} "
               f"({len(fam)} classes, e.g. DatabaseVersionError); the handlers {caught} must cover the root of that family so that every such fault "
               "falls back to recompiling", node=t, mod=tm)
        DBV = None
        for s in t.body:
            if isinstance(s, ast.Assign) and isinstance(s.value, ast.Call) and norm(s.value.func).endswith("loadb"):
                DBV = norm(s.targets[0])
        for h in t.handlers:
            if h.type is not None and "TypeError" in norm(h.type):
                continue
            leaves_unset = not any(DBV in assigned_names(s) for s in h.body)
            ctx.ob("R-C14-4", f"{q}/handler-leaves-db-unset", leaves_unset, "a failed load leaves the database variable unset", node=h, mod=tm, nontrivial=False)
        # compile block reached whenever the variable is unset
        comp = [n for n in walk_local(db) if isinstance(n, ast.If) and DBV and norm(n.test) in (f"not {DBV}", f"{DBV} is None") and
                any(isinstance(x, ast.Call) and norm(x.func).endswith(".compile") for s in n.body for x in ast.walk(s))]
        okc = len(comp) == 1 and comp[0].parent in [n for n in walk_local(db) if isinstance(n, ast.If)] + [db]
        init_none = any(isinstance(s, ast.Assign) and norm(s.targets[0]) == DBV and norm(s.value) == "None" for s in stmts_local(db.body))
        ctx.ob("R-C14-4", f"{q}/recompile-when-unset", okc and init_none,
               f"`{DBV}` starts as None and `if not {DBV}:` compiles the database: absent cache, failed load and disabled cache all end in a fresh compile",
               node=comp[0] if comp else db, mod=tm)
        # the scratch set-up on a None database must not raise out
        for t2 in [x for x in walk_local(db) if isinstance(x, ast.Try) and x is not t]:
            if any("Scratch" in norm(s) for s in t2.body):
                c2 = [norm(h.type) if h.type is not None else "<bare>" for h in t2.handlers]
                ctx.ob("R-C14-4", f"{q}/scratch-on-failed-load", "AttributeError" in c2 or "Exception" in c2 or "<bare>" in c2,
                       f"setting `.scratch` on an unset database raises AttributeError, which is caught ({c2})", node=t2, mod=tm, nontrivial=False)
    # R-C14-4b: whatever is read from the cache file is interpreted only by hyperscan.loadb inside the guarded try
    loads = [n for n in walk_local(db) if isinstance(n, ast.Call) and norm(n.func).endswith("loadb")]
    okflow, why = bool(loads), "no loadb call"
    for ld in loads:
        a0 = ld.args[0] if ld.args else None
        if not isinstance(a0, ast.Name):
            okflow, why = False, f"loadb argument `{norm(a0) if a0 is not None else '?'}`"
            continue
        defs = [s_ for s_ in stmts_local(db.body) if isinstance(s_, ast.Assign) and norm(s_.targets[0]) == a0.id]
        # `= None` next to the read (the file could not be read: nothing to load) is not an interpretation of the bytes
        none_defs = [d_ for d_ in defs if isinstance(d_.value, ast.Constant) and d_.value.value is None]
        defs = [d_ for d_ in defs if d_ not in none_defs]
        if not (len(defs) == 1 and isinstance(defs[0].value, ast.Call) and isinstance(defs[0].value.func, ast.Attribute) and defs[0].value.func.attr == "read_bytes"
                and not defs[0].value.args):
            okflow, why = False, f"`{a0.id}` is not the raw result of <cache file>.read_bytes(): {[norm(x)[:60] for x in defs]}"
            continue
        other = [n for n in walk_local(db) if isinstance(n, ast.Name) and n.id == a0.id and isinstance(n.ctx, ast.Load)
                 and not (isinstance(n.parent, ast.Call) and norm(n.parent.func).endswith("loadb"))
                 and not (isinstance(n.parent, ast.Compare) and len(n.parent.ops) == 1 and isinstance(n.parent.ops[0], (ast.Is, ast.IsNot))
                          and isinstance(n.parent.comparators[0], ast.Constant) and n.parent.comparators[0].value is None)]
        if other:
            okflow, why = False, f"`{a0.id}` is also used by `{norm(other[0].parent)[:50]}`"
    ctx.ob("R-C14-4", f"{q}/cache-bytes-only-into-guarded-load", okflow,
           "the bytes of the cache file are handed, unprocessed, only to hyperscan.loadb inside the try whose handlers cover the library's errors; any other "
           f"interpretation of a possibly truncated/corrupted file (header parsing, checksums, helpers) can raise something the handlers do not cover ({why})",
           node=loads[0] if loads else db, mod=tm)
    # R-C14-6 cache key: both lists, order-preserving
    fp = [s for s in stmts_local(db.body) if isinstance(s, ast.Assign) and isinstance(s.value, ast.Call) and "hashlib." in norm(s.value) and "hexdigest" in norm(s.value)]
    comp_call = [n for n in walk_local(db) if isinstance(n, ast.Call) and norm(n.func).endswith(".compile") and n.keywords]
    okk, why = False, "fingerprint / compile call not found"
    if fp and comp_call:
        kw = {k.arg: norm(k.value) for k in comp_call[0].keywords}
        exprs, flags = kw.get("expressions"), kw.get("flags")
        src = norm(fp[0].value)
        uses = exprs is not None and flags is not None and f"str({exprs})" in src and f"str({flags})" in src
        reorder = any(w in src for w in ("sorted(", "set(", "frozenset(", "zip("))
        okk = uses and not reorder
        why = f"key = `{src[:100]}`; compile(expressions={exprs}, flags={flags})"
    ctx.ob("R-C14-6", f"{q}/cache-key", okk,
           "the cache key is a digest of str(<expressions>) and str(<flags>), the very lists passed to compile, in their order (Hyperscan match ids are "
           f"positions in that list): {why}", node=fp[0] if fp else db, mod=tm)
    # expressions / flags are built from self.extractors in order
    kw0 = {k.arg: norm(k.value) for k in comp_call[0].keywords} if comp_call else {}
    for name in (kw0.get("expressions", "expressions"), kw0.get("flags", "flags")):
        d = [s for s in stmts_local(db.body) if isinstance(s, ast.Assign) and norm(s.targets[0]) == name]
        okl = len(d) == 1 and isinstance(d[0].value, ast.ListComp) and norm(d[0].value.generators[0].iter) == "self.extractors" and not d[0].value.generators[0].ifs
        ctx.ob("R-C14-6", f"{q}/{name}-in-extractor-order", okl, f"`{name}` has one entry per extractor, in the order of self.extractors", node=d[0] if d else db, mod=tm)
    memo = [n for n in walk_local(db) if isinstance(n, ast.If) and norm(n.test) == "not hasattr(self, '_db')"]
    ctx.ob("R-C14-6", f"{q}/memo", bool(memo), "compiled once per tokenizer instance", node=db, mod=tm, nontrivial=False)


def rule_db_is_own(ctx: Ctx):
    """R-C14-9: the database a HyperscanTokenizer scans with is compiled (or loaded, under a key that is a digest of the patterns -- R-C14-4) from
    that tokenizer's own extractors.  A store shared between instances is only sound when keyed by content; object identity (`id(x)`) is not content:
    an address is reused once its object is collected, and the next tokenizer silently scans with the previous one's patterns."""
    repo = ctx.repo
    tm = repo.mod("tokenizers")
    mglobals = set()
    for s_ in tm.tree.body:
        if isinstance(s_, (ast.Assign, ast.AnnAssign)) and s_.value is not None:
            v = s_.value
            if isinstance(v, (ast.Dict, ast.List, ast.Set)) or (isinstance(v, ast.Call) and (dotted(v.func) or "").split(".")[-1] in
                                                                  ("dict", "list", "set", "defaultdict", "OrderedDict", "WeakValueDictionary", "WeakKeyDictionary")):
                mglobals |= assigned_names(s_)
    n = 0
    for qual, mod, fn in repo.all_funcs():
        if not qual.startswith("tokenizers.HyperscanTokenizer."):
            continue
        n += 1
        ids = [c for c in walk_local(fn) if isinstance(c, ast.Call) and isinstance(c.func, ast.Name) and c.func.id == "id"]
        shared = [x for x in walk_local(fn) if isinstance(x, ast.Name) and x.id in mglobals]
        ctx.ob("R-C14-9", f"{qual}/own-database", not ids and not shared,
               "the tokenizer's database and scan state come from its own extractors: no object identity used as a key "
               f"({[norm(c)[:30] for c in ids][:2]}) and no module-level container shared between instances ({sorted({x.id for x in shared})})",
               node=(ids or shared or [fn])[0], mod=tm, nontrivial=bool(ids or shared) or qual.endswith("hyperscan_db"))
    ctx.ob("R-C14-9", "tokenizers.HyperscanTokenizer/methods", n >= 3, f"{n} methods examined", node=None, mod=tm, nontrivial=False)


def run(ctx: Ctx):
    ctx.level = "other"
    ctx.explanation = (
        "Decided: R-C14-1 every Hyperscan hit is re-matched with the extractor's own Python pattern on the hit's substring, the re-match is checked, "
        "the token is built by the same get_token/from_match as the reference with the slice origin as offset (shared with C12), hit ids index "
        "self.extractors; R-C14-7 byte->str offsets come from decoding and misaligned hits are dropped; R-C14-2 byte/character class soundness of "
        "all ~6,800 generated patterns (atoms that consume one character in Python but one byte in Hyperscan's byte mode and cannot re-align) given the "
        "flag expression; R-C14-3 non-ASCII class members / repeated multi-byte literals; R-C14-4 the cache-load handlers cover the root of the "
        "library's exception family (introspected), a failed load leaves the database unset and unset always leads to a fresh compile; R-C14-6 the "
        "cache key digests the very expression and flag lists passed to compile, order-preserving.  NOT decided: candidate-by-candidate agreement "
        "(needs Hyperscan's matching semantics on concrete texts); that a loaded cache database behaves like a freshly compiled one; atomicity of "
        "the cache write (observation: write_bytes is not atomic; a truncated file is rejected by loadb, R-C14-4)."
    )
    ctx.trusted = ["the checker", "re._parser", "the installed hyperscan module's exception hierarchy",
                   "hyperscan.loadb signals every unusable database through a subclass of hyperscan.error"]
    ctx.assumptions = ["texts in C14's domain (no non-ASCII whitespace/digits/case variants): \\s \\d \\w atoms are not judged"]
    data = materialize.load(ctx.repo.root)
    ctx.guard(rule_revalidation, ctx)
    ctx.guard(from_match_rules, ctx, "R-C14-1b")
    ctx.guard(rule_patterns, ctx, data)
    ctx.guard(rule_cache, ctx)
    ctx.guard(rule_db_is_own, ctx)
    ctx.floor("R-C14-1", 4)
    ctx.floor("R-C14-2", 1)
    ctx.floor("R-C14-4", 4)
    ctx.floor("R-C14-6", 3)
