"""C06 -- Resolution output is a faithful, ordered partition (DESIGN 2/C06).

Obligations O1..O6 on resolve.resolve_citations, its default resolvers and
models.Resource.  Shared pieces live in sa.foldrules so that C07/C08 reuse
exactly the same decisions.
"""
from __future__ import annotations

from ..core import Ctx
from .. import foldrules as fr


def run(ctx: Ctx):
    ctx.level = "proof"
    ctx.explanation = (
        "Structural induction over the single left fold in resolve.resolve_citations: "
        "O1 one loop over the input, O2 one append site RES[key].append(loop var) under a truthiness guard "
        "and no other mutation of RES (own body and, transitively, callees), O3 provenance of every value a "
        "default resolver returns (None | resource component of an earlier (citation, resource) pair | LAST), "
        "O4 full-citation branch always reaches the append with a truthy Resource, O5 dispatch classes pairwise "
        "unrelated and the fall-through yields None, O6 Resource equality = hash equality of the wrapped citation "
        "and the citation hash read-sets (shared with C16).  Each obligation is decided on /repo's AST on every run."
    )
    ctx.trusted = [
        "the checker (sa/core.py, sa/paths.py, sa/fold.py, sa/effects.py, sa/foldrules.py, sa/hashrules.py)",
        "Python semantics of list.append, dict insertion order, defaultdict(list)",
        "no sha256 / hash(int) collisions",
    ]
    ctx.assumptions = [
        "default resolvers (user-supplied resolver callables are outside the claim)",
        "citation classes are the ones defined in eyecite/models.py (no monkey-patching)",
    ]
    R = fr.FoldRules(ctx)
    ctx.guard(R.o1_single_fold)
    ctx.guard(R.o2_single_append_site)
    ctx.guard(R.o3_resolver_provenance)
    ctx.guard(R.o4_full_branch)
    ctx.guard(R.o5_dispatch_classes)
    ctx.guard(R.o6_resource_equality)
    ctx.guard(R.dynamic_features_absent)
    ctx.floor("O1", 3)
    ctx.floor("O2", 8)
    ctx.floor("O3", 10)
    ctx.floor("O5", 10)
    ctx.floor("O6-H1", 10)
