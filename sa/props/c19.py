"""C19 -- Markup mode only adds well-founded reference citations
(structural part, DESIGN 2/C19)."""
from __future__ import annotations

import ast
from typing import List, Optional

from ..core import Ctx, Locals, presence_test, assigned_names, dotted, names_in, norm, stmts_local, walk_local
from ..paths import enumerate_paths, guards_of, stmt_of
from ..typed import Typed, eyecite_class
from .c03 import rule_filter

MARKUP_ATTRS = ("markup_text", "plain_to_markup", "markup_to_plain")


def rule_document_text(ctx: Ctx, rule: str = "R-C19-1"):
    """the document's plain text is clean_text(<plain or markup input>, <the caller's steps, in the caller's order>)"""
    repo = ctx.repo
    mm = repo.mod("models")
    # plain_text of the document: derived by clean_text in __post_init__ only
    pi = repo.need_func("models.Document.__post_init__")
    pts = [s for s in stmts_local(pi.body) if isinstance(s, ast.Assign) and norm(s.targets[0]) == "self.plain_text"]
    # the steps may be held in a local that is a list copy of self.clean_steps (`steps = list(self.clean_steps) if .. is not None else []`)
    step_names = {"self.clean_steps"}
    cand = {s.targets[0].id for s in stmts_local(pi.body) if isinstance(s, ast.Assign) and len(s.targets) == 1 and isinstance(s.targets[0], ast.Name)}

    def _copy_of_steps(a):
        return (isinstance(a, ast.Call) and dotted(a.func) in ("list", "tuple") and len(a.args) == 1 and norm(a.args[0]) == "self.clean_steps") \
            or (isinstance(a, (ast.List, ast.Tuple)) and not a.elts) or norm(a) == "self.clean_steps"
    for nm in sorted(cand):
        binds = [x for x in stmts_local(pi.body) if isinstance(x, (ast.Assign, ast.AugAssign, ast.AnnAssign, ast.For)) and nm in assigned_names(x)]
        alts = []
        for x in binds:
            if not (isinstance(x, ast.Assign) and len(x.targets) == 1 and isinstance(x.targets[0], ast.Name)):
                alts = None
                break
            alts += [x.value.body, x.value.orelse] if isinstance(x.value, ast.IfExp) else [x.value]
        if alts and all(_copy_of_steps(a) for a in alts) and any("self.clean_steps" in norm(a) for a in alts):
            step_names.add(nm)
    okp = bool(pts) and all(isinstance(s.value, ast.Call) and dotted(s.value.func) == "clean_text" and norm(s.value.args[1]) in step_names
                            and norm(s.value.args[0]) in ("self.plain_text", "self.markup_text") for s in pts)
    ctx.ob(rule, "models.Document.__post_init__/plain-text", okp,
           "the cleaned text is clean_text(<plain or markup input>, self.clean_steps): the same function the plain-text call computes", node=pi, mod=mm)
    # the steps are typed Iterable and may be a one-shot iterator: outside the markup branch nothing consumes `self.clean_steps` (membership test,
    # loop, materialising call) except the clean_text call itself or a list()/tuple() copy that everything else then uses
    eaters = []
    for x in walk_local(pi):
        if not (isinstance(x, ast.Attribute) and norm(x) == "self.clean_steps" and isinstance(x.ctx, ast.Load)):
            continue
        par = x.parent
        while isinstance(par, (ast.BoolOp, ast.IfExp)) and not (isinstance(par, ast.IfExp) and par.test is x):
            x, par = par, par.parent
        consuming = (isinstance(par, ast.Compare) and any(isinstance(o, (ast.In, ast.NotIn)) for o in par.ops) and par.left is not x) \
            or (isinstance(par, (ast.For, ast.comprehension)) and par.iter is x) \
            or (isinstance(par, ast.Call) and x in par.args and dotted(par.func) not in ("clean_text", "list", "tuple", "bool", "isinstance"))
        if not consuming:
            continue
        g = par
        in_markup = False
        while g is not None and g is not pi:
            if isinstance(g, ast.If) and "markup_text" in norm(g.test):
                in_markup = True
            g = getattr(g, "parent", None)
        if not in_markup:
            eaters.append(par)
    ctx.ob(rule, "models.Document.__post_init__/steps-consumed-by-the-cleaner", not eaters,
           "in plain mode the (possibly one-shot) iterable of steps reaches clean_text unconsumed: an earlier membership test or loop over it leaves "
           f"the cleaner with no steps, and every offset then indexes the uncleaned input ({[norm(e)[:50] for e in eaters][:3]})",
           node=eaters[0] if eaters else pi, mod=mm)
    return pi, step_names


def rule_noninterference(ctx: Ctx, typed: Typed):
    repo = ctx.repo
    allowed = {"models.Document.__post_init__", "find.find_reference_citations_from_markup", "find.extract_reference_citations", "find.get_citations"}
    n = 0
    for qual, mod, fn in repo.all_funcs():
        for x in walk_local(fn):
            if isinstance(x, ast.Attribute) and x.attr in MARKUP_ATTRS and isinstance(x.ctx, ast.Load):
                t = eyecite_class(typed.type_of(mod, x.value))
                if t not in (None, "Document") and norm(x.value) != "self":
                    continue
                n += 1
                ok = qual in allowed
                if qual == "find.get_citations":
                    ok = False  # get_citations only forwards the markup_text *parameter* to Document
                if qual == "find.extract_reference_citations":
                    par = x.parent
                    ok = isinstance(par, ast.If) and par.test is x  # truthiness test deciding whether to look at markup at all
                ctx.ob("R-C19-1", f"{qual}/reads:{x.attr}", ok,
                       "the markup text and its offset translators may be read only to derive the cleaned text (Document.__post_init__) and to find "
                       "reference citations; everything else must be a function of the cleaned plain text alone", node=x, mod=mod)
    ctx.extra["markup_reads"] = n
    # words / citation_tokens come from tokenizing the cleaned plain text only
    mm = repo.mod("models")
    tk = repo.need_func("models.Document.tokenize")
    S = tk.args.args[0].arg
    st = [s for s in stmts_local(tk.body) if isinstance(s, ast.Assign)]
    ok = len(st) == 1 and isinstance(st[0].value, ast.Call) and isinstance(st[0].value.func, ast.Attribute) and st[0].value.func.attr == "tokenize" \
        and [norm(a) for a in st[0].value.args] == [f"{S}.plain_text"] and norm(st[0].targets[0]) == f"({S}.words, {S}.citation_tokens)"
    ctx.ob("R-C19-1", "models.Document.tokenize/from-plain-text", ok, "words and citation tokens are tokenizer.tokenize(self.plain_text)", node=tk, mod=mm)
    for qual, mod, fn in repo.all_funcs():
        for x in walk_local(fn):
            if isinstance(x, ast.Attribute) and x.attr in ("words", "citation_tokens") and isinstance(x.ctx, ast.Store) and qual != "models.Document.tokenize":
                ctx.ob("R-C19-1", f"{qual}/writes:{x.attr}", False, "token lists of the document are written outside Document.tokenize", node=x, mod=mod)
    pi, step_names = rule_document_text(ctx, "R-C19-1")
    # R-C19-6 markup requires the html step
    guard = [n for n in walk_local(pi) if isinstance(n, ast.If) and any(isinstance(s, ast.Raise) for s in n.body) and (
        any(f"'html' not in {sn}" in norm(n.test) for sn in step_names)
        or (isinstance(n.test, ast.UnaryOp) and isinstance(n.test.op, ast.Not) and isinstance(n.test.operand, ast.Call) and dotted(n.test.operand.func) == "any"
            and "== 'html'" in norm(n.test) and any(f"in {sn}" in norm(n.test) for sn in step_names)))]
    ctx.ob("R-C19-6", "models.Document.__post_init__/html-step-required", bool(guard),
           "markup input without the html cleaning step is rejected (raises)", node=guard[0] if guard else pi, mod=mm, nontrivial=False)


def rule_only_references(ctx: Ctx):
    repo = ctx.repo
    fm = repo.mod("find")
    for name in ("extract_pincited_reference_citations", "find_reference_citations_from_markup"):
        fn = repo.need_func(f"find.{name}")
        rets = [r for r in walk_local(fn) if isinstance(r, ast.Return)]
        outs = {norm(r.value) for r in rets if isinstance(r.value, ast.Name)}
        ok = len(outs) == 1 and all(isinstance(r.value, ast.Name) or norm(r.value) == "[]" for r in rets)
        L = next(iter(outs)) if outs else None
        apps = [n for n in walk_local(fn) if isinstance(n, ast.Call) and isinstance(n.func, ast.Attribute) and norm(n.func.value) == L
                and n.func.attr in ("append", "extend", "insert")]
        for a in apps:
            v = a.args[0] if a.args else None
            fresh = False
            if isinstance(v, ast.Name):
                defs = [s for s in stmts_local(fn.body) if isinstance(s, ast.Assign) and norm(s.targets[0]) == v.id]
                fresh = len(defs) == 1 and isinstance(defs[0].value, ast.Call) and dotted(defs[0].value.func) == "ReferenceCitation"
            elif isinstance(v, ast.Call):
                fresh = dotted(v.func) == "ReferenceCitation"
            ctx.ob("R-C19-2", f"find.{name}/appends-new-ReferenceCitation", fresh and a.func.attr == "append",
                   f"only freshly constructed ReferenceCitation objects are collected (`{norm(a)[:50]}`)", node=a, mod=fm)
        ctx.ob("R-C19-2", f"find.{name}/returns-its-list", ok and bool(apps), "returns the collected list (or an empty one)", node=fn, mod=fm, nontrivial=False)
    er = repo.need_func("find.extract_reference_citations")
    C = er.args.args[0].arg
    okc = True
    for p in enumerate_paths(er.body):
        if p.exit != "return":
            continue
        rv = p.exit_node.value
        if norm(rv) == "[]":
            continue
        is_full = any(ev[0] == "cond" and norm(ev[1]) == f"isinstance({C}, FullCaseCitation)" and ev[2] for ev in p.events)
        if not is_full:
            okc = False
    ctx.ob("R-C19-2", "find.extract_reference_citations/only-for-full-case-citations", okc,
           "reference citations are derived only from a FullCaseCitation", node=er, mod=fm)
    # references are looked for only in what follows the citation
    first = [n for n in walk_local(er) if isinstance(n, ast.If) and "len(" in norm(n.test) and "span()" in norm(n.test)]
    ctx.ob("R-C19-2", "find.extract_reference_citations/nothing-after-end-of-text", bool(first), "no search when the citation ends the text", node=er, mod=fm,
           nontrivial=False)


def rule_name_sources(ctx: Ctx):
    """R-C19-9: the names a reference citation may be founded on are the full citation's parties and resolved case names -- nothing else that
    happens to be stored in its metadata (an antecedent guess, a court, a year).  The keys the two reference extractors read with getattr come
    from a table; every entry must be a party field or a resolved-name field."""
    repo = ctx.repo
    fm = repo.mod("find")
    n = 0
    for name in ("extract_pincited_reference_citations", "find_reference_citations_from_markup"):
        fn = repo.need_func(f"find.{name}")
        for g in [x for x in walk_local(fn) if isinstance(x, ast.Call) and dotted(x.func) == "getattr" and len(x.args) >= 2 and ".metadata" in norm(x.args[0])]:
            key = g.args[1]
            keys = None
            src = norm(key)
            if isinstance(key, ast.Constant):
                keys = [key.value]
            elif isinstance(key, ast.Name):
                its = [x.iter for x in ast.walk(fn) if isinstance(x, (ast.For, ast.comprehension)) and isinstance(x.target, ast.Name) and x.target.id == key.id]
                if len(its) == 1:
                    it = its[0]
                    src = norm(it)
                    if isinstance(it, (ast.List, ast.Tuple)):
                        keys = [e.value if isinstance(e, ast.Constant) else None for e in it.elts]
                    elif isinstance(it, ast.Attribute) and isinstance(it.value, ast.Name) and it.value.id in repo.classes:
                        for st in repo.classes[it.value.id].node.body:
                            if isinstance(st, (ast.Assign, ast.AnnAssign)) and norm(st.targets[0] if isinstance(st, ast.Assign) else st.target) == it.attr \
                                    and isinstance(st.value, (ast.List, ast.Tuple)):
                                keys = [e.value if isinstance(e, ast.Constant) else None for e in st.value.elts]
                    elif isinstance(it, ast.Name):
                        for m_ in repo.modules.values():
                            for st in m_.tree.body:
                                if isinstance(st, ast.Assign) and norm(st.targets[0]) == it.id and isinstance(st.value, (ast.List, ast.Tuple)):
                                    keys = [e.value if isinstance(e, ast.Constant) else None for e in st.value.elts]
            n += 1
            foreign = [k for k in (keys or [None]) if not (isinstance(k, str) and (k in ("plaintiff", "defendant") or k.startswith("resolved_case_name")))]
            ctx.ob("R-C19-9", f"find.{name}/name-fields:{src[:40]}", keys is not None and not foreign,
                   f"names are read from metadata fields {keys} (`{src[:50]}`); a reference citation must be founded on a party or a resolved case name, "
                   f"not on {foreign}", node=g, mod=fm)
    ctx.ob("R-C19-9", "find/name-reads", n >= 2, f"{n} getattr reads of name fields inspected", node=None, mod=fm, nontrivial=False)


def rule_name_guards(ctx: Ctx):
    repo = ctx.repo
    fm = repo.mod("find")
    sites = []
    for name in ("extract_pincited_reference_citations", "find_reference_citations_from_markup"):
        fn = repo.need_func(f"find.{name}")
        # where a regex alternative is built from a metadata value
        found = False
        for n in walk_local(fn):
            # comprehension form: [rf"(?P<{key}>{re.escape(value)})" for key in ... if (value := getattr(...)) and is_valid_name(value)]
            if isinstance(n, ast.ListComp) and any("getattr" in norm(i) for g in n.generators for i in g.ifs):
                found = True
                conds = " and ".join(norm(i) for g in n.generators for i in g.ifs)
                W = next((x.target.id for g in n.generators for i in g.ifs for x in ast.walk(i) if isinstance(x, ast.NamedExpr)), "value")
                esc = f"re.escape({W})" in norm(n.elt)
                ok = f"is_valid_name({W})" in conds and f"{W} := getattr" in conds and esc
                ctx.ob("R-C19-4", f"find.{name}/name-guard", ok,
                       f"a pattern alternative is built from a party / resolved name only if the value is truthy and passes is_valid_name, and it is "
                       f"re.escape()d (conditions `{conds[:90]}`, escaped={esc})", node=n, mod=fm)
                sites.append(("comp", ok))
            # two-step form: {key: value for key in .. if (value := getattr(..)) and is_valid_name(value)} collects the validated names,
            # and the alternatives are built from that dict's items with re.escape
            if isinstance(n, ast.DictComp) and any("getattr" in norm(i) for g in n.generators for i in g.ifs):
                conds = " and ".join(norm(i) for g in n.generators for i in g.ifs)
                W = next((x.target.id for g in n.generators for i in g.ifs for x in ast.walk(i) if isinstance(x, ast.NamedExpr)), "value")
                par = getattr(n, "parent", None)
                D = par.targets[0].id if isinstance(par, ast.Assign) and len(par.targets) == 1 and isinstance(par.targets[0], ast.Name) else None
                builders = [c_ for c_ in walk_local(fn) if isinstance(c_, ast.ListComp) and len(c_.generators) == 1 and norm(c_.generators[0].iter) == f"{D}.items()"
                            and isinstance(c_.generators[0].target, ast.Tuple) and len(c_.generators[0].target.elts) == 2]
                rebound = [x for x in stmts_local(fn.body) if isinstance(x, (ast.Assign, ast.AugAssign)) and D in assigned_names(x) and x is not par] if D else [1]
                mutated = [c_ for c_ in walk_local(fn) if isinstance(c_, ast.Call) and isinstance(c_.func, ast.Attribute) and norm(c_.func.value) == D
                           and c_.func.attr in ("update", "setdefault", "pop", "clear", "popitem")] + [x for x in walk_local(fn) if isinstance(x, ast.Subscript)
                           and isinstance(x.ctx, (ast.Store, ast.Del)) and norm(x.value) == D]
                if D and builders and norm(n.value) == W:
                    found = True
                    V2 = norm(builders[0].generators[0].target.elts[1])
                    esc = f"re.escape({V2})" in norm(builders[0].elt)
                    ok = f"is_valid_name({W})" in conds and f"{W} := getattr" in conds and esc and not rebound and not mutated and not builders[0].generators[0].ifs
                    ctx.ob("R-C19-4", f"find.{name}/name-guard", ok,
                           f"the names collected in `{D}` are truthy and pass is_valid_name (`{conds[:90]}`); the alternatives are built from its items, "
                           f"re.escape()d ({esc}); `{D}` is not changed in between", node=n, mod=fm)
                    sites.append(("comp", ok))
            # statement form: regexes.append(...) in a loop with `continue` guards
            if isinstance(n, ast.Call) and isinstance(n.func, ast.Attribute) and n.func.attr == "append" and n.args \
                    and "?P<" in norm(n.args[0]):
                found = True
                st = stmt_of(n)
                loop = st
                while loop is not None and not isinstance(loop, ast.For):
                    loop = getattr(loop, "parent", None)
                guards, cnt = guards_of(enumerate_paths(loop.body), st) if loop is not None else ([], 0)
                texts = [(norm(c), o) for c, o in guards]
                W = next((c_.args[0].id for c_, o_ in guards if o_ and isinstance(c_, ast.Call) and dotted(c_.func) == "is_valid_name" and len(c_.args) == 1
                          and isinstance(c_.args[0], ast.Name)), "value")
                valid = any(c == f"is_valid_name({W})" and o for c, o in texts)
                truthy = any((f"{W} := getattr" in c and o) or (presence_test(c_, o) == (W, True)) for (c, o), (c_, _) in zip(texts, guards))
                # the value is escaped before it is interpolated
                esc = any(isinstance(s, ast.Assign) and norm(s.targets[0]) == W and f"re.escape({W}" in norm(s.value) for s in stmts_local(loop.body)) if loop else False
                # ... or in place, inside the appended alternative, with no other use of the raw value there
                # ... or word by word: every use of the raw name sits in `re.escape(w) for w in <name>.split()`, whether that comprehension is
                # joined at once, kept in a local list and joined later, or written inside the appended alternative itself
                if not esc:
                    def _esc_words(g_):
                        return isinstance(g_, (ast.GeneratorExp, ast.ListComp)) and len(g_.generators) == 1 and isinstance(g_.generators[0].target, ast.Name) \
                            and norm(g_.elt) == f"re.escape({g_.generators[0].target.id})" and not g_.generators[0].ifs \
                            and norm(g_.generators[0].iter) in (f"{W}.split()", f"{W}.strip().split()")

                    def _safe_value(v_):
                        if _esc_words(v_):
                            return True
                        return isinstance(v_, ast.Call) and isinstance(v_.func, ast.Attribute) and v_.func.attr == "join" and isinstance(v_.func.value, ast.Constant) \
                            and len(v_.args) == 1 and _esc_words(v_.args[0])
                    safe = {s_.targets[0].id for s_ in (stmts_local(loop.body) if loop else []) if isinstance(s_, ast.Assign) and len(s_.targets) == 1
                            and isinstance(s_.targets[0], ast.Name) and _safe_value(s_.value)}
                    inline = [g_ for g_ in ast.walk(n.args[0]) if _esc_words(g_)]
                    raw = [x for x in ast.walk(n.args[0]) if isinstance(x, ast.Name) and x.id == W and not any(any(y is x for y in ast.walk(g_)) for g_ in inline)]
                    used = {x.id for x in ast.walk(n.args[0]) if isinstance(x, ast.Name)}
                    if not raw and (inline or (safe & used)):
                        esc = True
                if not esc and f"re.escape({W}" in norm(n.args[0]):
                    raw_uses = [x for x in ast.walk(n.args[0]) if isinstance(x, ast.Name) and x.id == W and not (
                        isinstance(getattr(x, "parent", None), ast.Call) and dotted(x.parent.func) == "re.escape")
                        and not (isinstance(getattr(x, "parent", None), ast.Attribute) and isinstance(getattr(x.parent, "parent", None), ast.Call)
                                 and isinstance(getattr(x.parent.parent, "parent", None), ast.Call) and dotted(x.parent.parent.parent.func) == "re.escape")]
                    esc = not raw_uses
                # what is_valid_name judges must be the citation's own name, not a trimmed / rewritten copy: a name that fails the rule
                # (e.g. ends in a period) could pass once altered, and the pattern would then be built from a string the rule never saw
                from ..core import order_index

                oi = order_index(loop) if loop is not None else {}
                vcalls = [c_ for c_, o_ in guards if o_ and isinstance(c_, ast.Call) and dotted(c_.func) == "is_valid_name"]
                altered = [s for s in (stmts_local(loop.body) if loop is not None else []) if isinstance(s, (ast.Assign, ast.AugAssign))
                           and W in assigned_names(s) and vcalls and oi.get(id(s), 0) < oi.get(id(vcalls[0]), 0)
                           and not (isinstance(s, ast.Assign) and isinstance(s.value, ast.Call) and dotted(s.value.func) == "getattr" and ".metadata" in norm(s.value.args[0]))]
                ok = valid and truthy and esc and not altered
                ctx.ob("R-C19-4", f"find.{name}/name-guard", ok,
                       f"a pattern alternative is built from a name only under truthiness and is_valid_name of the name as stored in the citation, after "
                       f"re.escape (guards {texts}, escaped={esc}, rewritten before the validity test: {[norm(a_)[:40] for a_ in altered]})",
                       node=n, mod=fm)
                sites.append(("stmt", ok))
        ctx.ob("R-C19-4", f"find.{name}/name-pattern-site", found, "site building the name pattern located", node=fn, mod=fm, nontrivial=False)
    for name in ("extract_pincited_reference_citations", "find_reference_citations_from_markup"):
        fn = repo.need_func(f"find.{name}")
        for c in [x for x in walk_local(fn) if isinstance(x, ast.Call) and (dotted(x.func) or "").split(".")[-1] in ("finditer", "compile", "search", "match")
                  and (dotted(x.func) or "").startswith(("re.", "regex.")) or (isinstance(x, ast.Call) and isinstance(x.func, ast.Attribute) and x.func.attr == "finditer")]:
            flagged = [k for k in c.keywords if k.arg == "flags"] or (len(c.args) > 2 and dotted(c.func) in ("re.finditer", "re.search", "re.match")) or (
                len(c.args) > 1 and dotted(c.func) == "re.compile")
            ctx.ob("R-C19-4", f"find.{name}/case-sensitive-name-match", not flagged,
                   "the name alternatives passed is_valid_name (which requires an upper-case initial); matching them with flags (IGNORECASE) would accept "
                   f"spellings that never passed the rule (`{norm(c)[:60]}`)", node=c, mod=fm, nontrivial=bool(flagged))
    iv = repo.need_func("utils.is_valid_name")
    P = iv.args.args[0].arg
    need = [f"isinstance({P}, str)", f"len({P}) > 2", f"{P}[0].isupper()", f"not {P}.endswith('.')", f"not {P}.isdigit()", f"{P}.lower() not in DISALLOWED_NAMES"]
    LV = Locals(iv)

    def true_atoms(e: ast.AST, outcome: bool, depth=0) -> List[str]:
        """atoms (source text) that hold when e evaluates to `outcome`"""
        if isinstance(e, ast.Name) and depth < 3:
            x = LV.expand(e, e, depth=1)
            if not isinstance(x, ast.Name):
                return true_atoms(x, outcome, depth + 1)
        if isinstance(e, ast.BoolOp) and isinstance(e.op, ast.And) and outcome:
            return [a for v in e.values for a in true_atoms(v, True, depth)]
        if isinstance(e, ast.BoolOp) and isinstance(e.op, ast.Or) and not outcome:
            return [a for v in e.values for a in true_atoms(v, False, depth)]
        if isinstance(e, ast.UnaryOp) and isinstance(e.op, ast.Not):
            return true_atoms(e.operand, not outcome, depth)
        if isinstance(e, ast.Compare) and len(e.ops) == 1 and not outcome:
            neg = {ast.In: "not in", ast.NotIn: "in", ast.Gt: "<=", ast.LtE: ">", ast.Lt: ">=", ast.GtE: "<", ast.Eq: "!=", ast.NotEq: "=="}.get(type(e.ops[0]))
            return [f"{norm(e.left)} {neg} {norm(e.comparators[0])}"] if neg else []
        return [norm(e)] if outcome else [f"not {norm(e)}"]

    got: List[str] = []
    ok_conj, n_true = True, 0
    for p in enumerate_paths(iv.body):
        if p.exit != "return":
            ok_conj = False
            continue
        rv = p.exit_node.value
        if rv is None or (isinstance(rv, ast.Constant) and not rv.value):
            continue  # a path that answers "not valid"
        atoms = [a for ev in p.events if ev[0] == "cond" for a in true_atoms(ev[1], ev[2])]
        if not (isinstance(rv, ast.Constant) and rv.value is True):
            atoms += true_atoms(rv, True)
        n_true += 1
        got = atoms
        # the stop-list test may go through a module-level table derived from DISALLOWED_NAMES (a lower-cased frozenset of it)
        um_ = repo.mod("utils")
        for a_ in list(atoms):
            pre_ = f"{P}.lower() not in "
            if a_.startswith(pre_) and a_ != need[-1]:
                tbl = um_.toplevel_assign(a_[len(pre_):])
                if tbl is not None and any(isinstance(x, ast.Name) and x.id == "DISALLOWED_NAMES" for x in ast.walk(tbl)):
                    atoms.append(need[-1])
        if not all(x in atoms for x in need):
            ok_conj = False
    ctx.ob("R-C19-4", "utils.is_valid_name/conjunction", ok_conj and n_true >= 1,
           f"the validity rule is the conjunction {need} (found {got})", node=iv, mod=repo.mod("utils"))


def rule_rebasing(ctx: Ctx):
    repo = ctx.repo
    fm = repo.mod("find")
    # plain: scan text[END:], every stored offset = match offset + END
    fn = repo.need_func("find.extract_pincited_reference_citations")
    C = fn.args.args[0].arg
    origin = None
    sl = None
    L = Locals(fn)
    for s in stmts_local(fn.body):
        if isinstance(s, ast.Assign) and isinstance(s.value, ast.Subscript) and isinstance(s.value.slice, ast.Slice) and s.value.slice.upper is None \
                and s.value.slice.lower is not None and L.text(s.value.slice.lower, s).startswith(f"{C}.span()"):
            sl, origin = s, L.text(s.value.slice.lower, s)
    okp = origin in (f"{C}.span()[-1]", f"{C}.span()[1]")
    ctx.ob("R-C19-5", "find.extract_pincited_reference_citations/scans-after-citation", okp,
           f"the text scanned starts at the end of the full citation's span (`{origin}`), so every reference lies after it", node=sl or fn, mod=fm)
    if origin:
        O = origin
        ctor = [n for n in walk_local(fn) if isinstance(n, ast.Call) and dotted(n.func) in ("ReferenceCitation", "CaseReferenceToken")]
        # the two names unpacked from <match>.span()
        SP = next(([norm(e) for e in s_.targets[0].elts] for s_ in stmts_local(fn.body) if isinstance(s_, ast.Assign) and isinstance(s_.targets[0], ast.Tuple)
                   and len(s_.targets[0].elts) == 2 and isinstance(s_.value, ast.Call) and isinstance(s_.value.func, ast.Attribute) and s_.value.func.attr == "span"
                   and not s_.value.args), ["?", "?"])
        A, B = SP
        bad = []
        nchk = 0
        for c in ctor:
            for kw in c.keywords:
                if kw.arg in ("start", "end", "span_start", "span_end", "full_span_start", "full_span_end"):
                    nchk += 1
                    want = (f"{A} + {O}", f"{O} + {A}") if kw.arg.endswith("start") else (f"{B} + {O}", f"{O} + {B}")
                    if L.text(kw.value, c) not in want:
                        bad.append(f"{kw.arg}={norm(kw.value)}")
        ctx.ob("R-C19-5", "find.extract_pincited_reference_citations/offsets-rebased", not bad and nchk >= 6,
               f"every offset of a reference found in the slice is rebased by the slice origin ({nchk} offsets; not rebased: {bad})", node=fn, mod=fm)
        # start/end come from match.span() of the scan over the slice
    # markup: origin is the *translated* start; every stored offset is translated back from origin + match position
    fn = repo.need_func("find.find_reference_citations_from_markup")
    origin = None
    for s in stmts_local(fn.body):
        if isinstance(s, ast.Assign) and isinstance(s.value, ast.Call) and norm(s.value.func).endswith("plain_to_markup.update"):
            origin = norm(s.targets[0])
            okarg = norm(s.value.args[0]).endswith(".span()[0]") and norm(s.value.args[1]) == "bisect_right"
            ctx.ob("R-C19-5", "find.find_reference_citations_from_markup/origin-translated", okarg,
                   "the markup scan starts at the markup position of the citation's start (plain offset translated with plain_to_markup)", node=s, mod=fm)
    scans = [n for n in walk_local(fn) if isinstance(n, ast.Call) and (dotted(n.func) or "").endswith("finditer")]
    oks = False
    for sc in scans:
        txt = sc.args[1] if dotted(sc.func) in ("re.finditer",) and len(sc.args) > 1 else (sc.args[0] if sc.args else None)
        if isinstance(txt, ast.Subscript) and isinstance(txt.slice, ast.Slice) and txt.slice.lower is not None and origin and norm(txt.slice.lower) == origin \
                and norm(txt.value).endswith(".markup_text") and len(sc.args) <= 2:
            oks = True
    ctx.ob("R-C19-5", "find.find_reference_citations_from_markup/scans-from-origin", oks and origin is not None,
           f"the style-tag pattern is run over markup_text[{origin}:]", node=scans[0] if scans else fn, mod=fm)
    back = [n for n in walk_local(fn) if isinstance(n, ast.Call) and norm(n.func).endswith("markup_to_plain.update")]
    MV = next((n.target.id for n in walk_local(fn) if isinstance(n, ast.For) and isinstance(n.target, ast.Name) and isinstance(n.iter, ast.Call)
               and (dotted(n.iter.func) or "").endswith("finditer")), "match")
    okb = len(back) >= 4 and all(norm(b.args[0]).startswith(f"{origin} + {MV}.") for b in back)
    sides = {}
    for s in stmts_local(fn.body):
        if isinstance(s, ast.Assign) and isinstance(s.value, ast.Call) and norm(s.value.func).endswith("markup_to_plain.update"):
            sides[norm(s.targets[0])] = (norm(s.value.args[0]), norm(s.value.args[1]))
    ctx.ob("R-C19-5", "find.find_reference_citations_from_markup/offsets-translated-back", okb,
           f"every stored offset is markup_to_plain.update({origin} + match position, side) ({len(back)} translations: {sides})", node=back[0] if back else fn, mod=fm)
    ctor = [n for n in walk_local(fn) if isinstance(n, ast.Call) and dotted(n.func) in ("ReferenceCitation", "CaseReferenceToken")]
    bad = []
    for c in ctor:
        for kw in c.keywords:
            if kw.arg in ("start", "end", "span_start", "span_end", "full_span_start", "full_span_end") and norm(kw.value) not in sides:
                bad.append(f"{kw.arg}={norm(kw.value)}")
    ctx.ob("R-C19-5", "find.find_reference_citations_from_markup/ctor-offsets", not bad and bool(ctor),
           f"offsets given to the reference citation are the translated ones (others: {bad})", node=ctor[0] if ctor else fn, mod=fm)
    # the token text is the plain text at the plain span
    tok = [c for c in ctor if dotted(c.func) == "CaseReferenceToken"]
    def _plain_slice(v):
        if ".plain_text[" in norm(v):
            return True
        if isinstance(v, ast.Name):  # through a local that holds the slice
            ds = [x.value for x in stmts_local(fn.body) if isinstance(x, ast.Assign) and len(x.targets) == 1 and norm(x.targets[0]) == v.id]
            return len(ds) == 1 and isinstance(ds[0], ast.Subscript) and norm(ds[0].value).endswith(".plain_text") and isinstance(ds[0].slice, ast.Slice)
        return False
    okt = any(any(kw.arg == "data" and _plain_slice(kw.value) for kw in c.keywords) for c in tok)
    ctx.ob("R-C19-5", "find.find_reference_citations_from_markup/token-text-from-plain", okt,
           "the reference token's text is sliced from the cleaned plain text at its plain offsets", node=tok[0] if tok else fn, mod=fm, nontrivial=False)


def rule_append_order(ctx: Ctx, rule="R-C19-7"):
    """the current citation is appended last in its iteration, so citations[-1]
    is the immediately preceding citation when the next token is examined
    (parallel-citation detection relies on it)."""
    repo = ctx.repo
    fm = repo.mod("find")
    gc = repo.need_func("find.get_citations")
    loops = [s for s in gc.body if isinstance(s, ast.For)]
    if len(loops) != 1:
        ctx.ob(rule, "find.get_citations/loop", False, "main loop not found", node=gc, mod=fm)
        return
    loop = loops[0]
    L = CV = None
    for st in loop.body:  # the append is a top-level statement of the loop body
        if isinstance(st, ast.Expr) and isinstance(st.value, ast.Call) and isinstance(st.value.func, ast.Attribute) and st.value.func.attr == "append" \
                and len(st.value.args) == 1 and isinstance(st.value.args[0], ast.Name) and isinstance(st.value.func.value, ast.Name):
            L, CV = st.value.func.value.id, st.value.args[0].id
    ok, n_app, why = L is not None, 0, "no top-level `<list>.append(<citation>)` in the loop"
    for p in enumerate_paths(loop.body):
        ops = []
        for ev in p.events:
            if ev[0] == "stmt":
                for n in ast.walk(ev[1]):
                    if isinstance(n, ast.Call) and isinstance(n.func, ast.Attribute) and norm(n.func.value) == L and n.func.attr in ("append", "extend", "insert"):
                        ops.append(n.func.attr + ":" + norm(n.args[0])[:20])
        tag = f"append:{CV}"[:27]
        if any(o == tag for o in ops):
            n_app += 1
            if ops[-1] != tag or ops.count(tag) != 1:
                ok, why = False, f"list operations in one iteration: {ops}"
        elif ops:
            ok, why = False, f"an iteration extends the list without appending its citation: {ops}"
    ctx.ob(rule, "find.get_citations/current-citation-appended-last", ok and n_app > 0,
           f"in each iteration the reference citations found for a full citation are added before it and `{L}.append({CV})` is the last list "
           f"operation ({n_app} paths)" if ok else why, node=loop, mod=fm)


def rule_offset_maps(ctx: Ctx):
    """R-C19-8: the two offset maps of a Document translate between *that document's* plain and markup text.  Reference citations found
    in the markup are placed in the plain text through them, so a map built for another pair of texts (a cached one, one keyed by only
    one of the two texts) puts references on unrelated characters."""
    repo = ctx.repo
    mm = repo.mod("models")
    fn = repo.need_func("models.Document.__post_init__")
    S = fn.args.args[0].arg
    want = {"plain_to_markup": (f"{S}.plain_text", f"{S}.markup_text"), "markup_to_plain": (f"{S}.markup_text", f"{S}.plain_text")}
    seen = set()
    for st in stmts_local(fn.body):
        if not isinstance(st, (ast.Assign, ast.AnnAssign)):
            continue
        tgts = st.targets if isinstance(st, ast.Assign) else [st.target]
        flat = []
        for t in tgts:
            flat += list(t.elts) if isinstance(t, (ast.Tuple, ast.List)) else [t]
        for t in flat:
            if isinstance(t, ast.Attribute) and norm(t.value) == S and t.attr in want:
                v = st.value
                direct = len(flat) == 1 and isinstance(v, ast.Call) and dotted(v.func) == "SpanUpdater" and len(v.args) >= 2 \
                    and (norm(v.args[0]), norm(v.args[1])) == want[t.attr]
                seen.add(t.attr)
                ctx.ob("R-C19-8", f"models.Document.__post_init__/{t.attr}", direct,
                       f"`{S}.{t.attr}` is `SpanUpdater({want[t.attr][0]}, {want[t.attr][1]})`, built here from this document's own two texts "
                       f"(found `{norm(v)[:60] if v is not None else None}`)", node=st, mod=mm)
    # nobody else stores them
    for q, m, f in repo.all_funcs():
        for n in walk_local(f):
            if isinstance(n, ast.Attribute) and n.attr in want and isinstance(n.ctx, ast.Store) and not (q == "models.Document.__post_init__"):
                ctx.ob("R-C19-8", f"{q}/{n.attr}:foreign-store", False, "the offset maps are written only by Document.__post_init__", node=n, mod=m)
    ctx.ob("R-C19-8", "models.Document.__post_init__/both-maps-built", seen == set(want), f"both maps are built (found {sorted(seen)})", node=fn, mod=mm, nontrivial=False)


def run(ctx: Ctx):
    ctx.level = "other"
    ctx.explanation = (
        "R-C19-1 non-interference: markup_text / plain_to_markup / markup_to_plain are read only in Document.__post_init__ (to derive the cleaned "
        "text with clean_text) and on the reference paths; words/citation_tokens come from tokenizer.tokenize(self.plain_text) only -- every "
        "non-reference citation is a function of the cleaned text alone; R-C19-2 only freshly built ReferenceCitation objects are produced on the "
        "reference paths, only for a FullCaseCitation; R-C19-3 references never displace other citations (= R-C03-4); R-C19-4 both pattern-building "
        "sites guard each name by truthiness + is_valid_name and re.escape it; R-C19-5 scans start after the full citation and every stored offset "
        "is rebased (plain) / translated back from origin + match position (markup), the markup origin being the translated citation start; "
        "R-C19-6 markup requires the html step; R-C19-7 the current citation is appended last in its iteration.  NOT decided: offset round trips "
        "plain<->markup (diff values), that the style-tag regex finds the right occurrences."
    )
    ctx.trusted = ["the checker", "mypy receiver types"]
    ctx.assumptions = ["SpanUpdater translation correctness is value-level (C10)"]
    typed = Typed.get(ctx.repo.root)
    ctx.guard(rule_noninterference, ctx, typed)
    ctx.guard(rule_only_references, ctx)
    ctx.guard(rule_filter, ctx)
    ctx.guard(rule_name_guards, ctx)
    ctx.guard(rule_name_sources, ctx)
    ctx.guard(rule_rebasing, ctx)
    ctx.guard(rule_append_order, ctx)
    ctx.guard(rule_offset_maps, ctx)
    ctx.floor("R-C19-1", 6)
    ctx.floor("R-C19-2", 4)
    ctx.floor("R-C19-4", 3)
    ctx.floor("R-C19-5", 6)
