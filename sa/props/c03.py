"""C03 -- Citations come back in document order, unique and non-overlapping
(structural part, DESIGN 2/C03)."""
from __future__ import annotations

import ast
from typing import List, Optional

from ..core import Ctx, assigned_names, dotted, names_in, norm, stmts_local, walk_local
from ..motroles import bind as bind_mot
from ..paths import enumerate_paths, guards_of


def position_key(lam: ast.AST) -> Optional[str]:
    """is `lambda c: K` a key built from the citation's own position?"""
    if not isinstance(lam, ast.Lambda) or len(lam.args.args) != 1:
        return None
    v = lam.args.args[0].arg
    own = {f"{v}.span()", f"{v}.span()[0]", f"{v}.token.start", f"{v}.span_start", f"{v}.span()[1]", f"{v}.token.end"}
    b = lam.body
    first = b.elts[0] if isinstance(b, ast.Tuple) and b.elts else b
    t = norm(first)
    if t in (f"{v}.span()", f"{v}.span()[0]", f"{v}.token.start"):
        return t
    return None


def rule_filter(ctx: Ctx):
    repo = ctx.repo
    m = repo.mod("helpers")
    fn = repo.need_func("helpers.filter_citations")
    q = "helpers.filter_citations"
    P = fn.args.args[0].arg
    rets = [r for r in walk_local(fn) if isinstance(r, ast.Return)]
    OUT = None
    for r in rets:
        if isinstance(r.value, ast.Name) and r.value.id != P:
            OUT = r.value.id
    ctx.ob("R-C03-2", f"{q}/roles", OUT is not None, f"output list located ({OUT})", node=fn, mod=m, nontrivial=False)
    if OUT is None:
        return
    # empty input is returned as is
    for r in rets:
        if isinstance(r.value, ast.Name) and r.value.id == P:
            g = r.parent
            ok = isinstance(g, ast.If) and norm(g.test) in (f"not {P}",)
            ctx.ob("R-C03-2", f"{q}/early-return", ok, "the only early return hands back an empty input", node=r, mod=m, nontrivial=False)
    SORTED = None
    seed = [s for s in fn.body if isinstance(s, (ast.Assign, ast.AnnAssign)) and OUT in assigned_names(s)]
    okseed = len(seed) == 1 and isinstance(seed[0].value, ast.List) and len(seed[0].value.elts) == 1 and isinstance(seed[0].value.elts[0], ast.Subscript) \
        and norm(seed[0].value.elts[0].slice) == "0" and isinstance(seed[0].value.elts[0].value, ast.Name)
    if okseed:
        SORTED = seed[0].value.elts[0].value.id
    ctx.ob("R-C03-2", f"{q}/{OUT}:seed", okseed, f"output starts as [<sorted>[0]] ({norm(seed[0])[:60] if seed else '?'})", node=seed[0] if seed else fn, mod=m)
    if SORTED is None:
        return
    sdef = [s for s in fn.body if isinstance(s, ast.Assign) and SORTED in assigned_names(s)]
    key = None
    oks = False
    src = None
    if len(sdef) == 1 and isinstance(sdef[0].value, ast.Call) and dotted(sdef[0].value.func) == "sorted" and len(sdef[0].value.args) == 1:
        c = sdef[0].value
        src = norm(c.args[0])
        key = next((k.value for k in c.keywords if k.arg == "key"), None)
        rev = next((k.value for k in c.keywords if k.arg == "reverse"), None)
        oks = rev is None and key is not None
    ctx.ob("R-C03-2", f"{q}/{SORTED}:sorted", oks, f"the working list is sorted(<citations>, key=K) ascending ({norm(sdef[0])[:80] if sdef else '?'})",
           node=sdef[0] if sdef else fn, mod=m)
    # R-C03-5: K is the citation's own position
    pk = position_key(key) if key is not None else None
    ctx.ob("R-C03-5", f"{q}/sort-key", pk is not None,
           f"order by K implies order by position only if K is the citation's own position (span()/span()[0]/token.start); K = `{norm(key)[:60] if key is not None else '?'}`. "
           "full_span() is not: a later citation's backward name scan can start before an earlier citation "
           "('A v. B, 550 U.S. at 556, 127 S.Ct. 1955')", node=key or fn, mod=m, witness="A v. B, 550 U.S. at 556, 127 S.Ct. 1955" if pk is None else None)
    # R-C03-3: de-duplicate by span before sorting
    dd = [s for s in fn.body if isinstance(s, ast.Assign) and src and norm(s.targets[0]) == src]
    okd = False
    for s in dd:
        v = s.value
        inner = v.args[0] if isinstance(v, ast.Call) and dotted(v.func) == "list" and v.args else v
        if isinstance(inner, ast.Call) and isinstance(inner.func, ast.Attribute) and inner.func.attr == "values" and isinstance(inner.func.value, ast.DictComp):
            dc = inner.func.value
            g = dc.generators[0]
            e = norm(g.target)
            okd = norm(dc.key) == f"{e}.span()" and norm(dc.value) == e and norm(g.iter) == P and not g.ifs and fn.body.index(s) < fn.body.index(sdef[0])
    # ... or by a loop filling a dict keyed by span(), whose condition decides which of two citations with identical spans survives
    keep_pref = None  # (reference may replace non-reference?, every span gets an entry?)
    why_pref = "the de-duplication is a dict comprehension: of two citations with identical spans the later one survives, whatever its kind"
    for s in dd:
        v = s.value
        inner = v.args[0] if isinstance(v, ast.Call) and dotted(v.func) == "list" and v.args else v
        if not (isinstance(inner, ast.Call) and isinstance(inner.func, ast.Attribute) and inner.func.attr == "values" and isinstance(inner.func.value, ast.Name)):
            continue
        D = inner.func.value.id
        dloops = [l for l in fn.body if isinstance(l, ast.For) and norm(l.iter) == P and isinstance(l.target, ast.Name) and fn.body.index(l) < fn.body.index(s)]
        dinit = [x for x in fn.body if isinstance(x, (ast.Assign, ast.AnnAssign)) and D in assigned_names(x)]
        if len(dloops) != 1 or len(dinit) != 1 or norm(dinit[0].value) not in ("{}", "dict()"):
            continue
        dl = dloops[0]
        e = dl.target.id
        stores = [x for x in stmts_local(dl.body) if isinstance(x, ast.Assign) and isinstance(x.targets[0], ast.Subscript) and norm(x.targets[0].value) == D]
        others = [x for x in walk_local(dl) if isinstance(x, ast.Call) and isinstance(x.func, ast.Attribute) and norm(x.func.value) == D
                  and x.func.attr not in ("get",)] + [x for x in walk_local(dl) if isinstance(x, ast.Delete)]
        kdefs = {norm(x.targets[0]): x for x in stmts_local(dl.body) if isinstance(x, ast.Assign) and isinstance(x.targets[0], ast.Name)
                 and norm(x.value) in (f"{D}.get({e}.span())", f"{D}.get({e}.span(), None)")}
        if len(stores) != 1 or others or len(kdefs) != 1 or norm(stores[0].targets[0].slice) != f"{e}.span()" or norm(stores[0].value) != e:
            why_pref = f"the de-duplication loop is not `kept = {D}.get(c.span())` + one guarded `{D}[c.span()] = c`"
            continue
        K = next(iter(kdefs))
        okd = fn.body.index(s) < fn.body.index(sdef[0])
        # evaluate the guard of the store for every combination of (slot empty, c is a reference, kept is a reference)
        import itertools
        from ..core import eval_bool
        # the conditions the store is nested in (each an `if` without else whose body holds it; `if not C: continue` guards before it)
        gs = []
        cur_ = stores[0]
        while getattr(cur_, "parent", None) is not None and cur_.parent is not dl:
            par_ = cur_.parent
            if isinstance(par_, ast.If):
                gs.append((par_.test, cur_ in par_.body))
            cur_ = par_
        top_ = cur_
        for prev_ in dl.body[:dl.body.index(top_)]:
            if isinstance(prev_, ast.If) and not prev_.orelse and len(prev_.body) == 1 and isinstance(prev_.body[0], ast.Continue):
                gs.append((prev_.test, False))
        cond_true = lambda env: all((eval_bool(c_, env) is True) if o_ else (eval_bool(c_, env) is False) for c_, o_ in gs)  # noqa: E731
        ref_replaces = always_enters = None
        unknown = False
        for empty, cref, kref in itertools.product([False, True], repeat=3):
            if empty and kref:
                continue
            env = {f"{K} is None": empty, f"isinstance({e}, ReferenceCitation)": cref, f"isinstance({K}, ReferenceCitation)": kref, K: not empty}
            vals = [eval_bool(c_, env) for c_, _o in gs]
            if any(v_ is None for v_ in vals):
                unknown = True
                break
            st = cond_true(env)
            if empty and not st:
                always_enters = False
            if not empty and cref and not kref and st:
                ref_replaces = True
        if unknown:
            why_pref = f"the guard of `{norm(stores[0])[:40]}` uses a condition this rule cannot evaluate ({[norm(c_)[:40] for c_, _ in gs]})"
        else:
            keep_pref = (bool(ref_replaces), always_enters is not False)
            why_pref = f"guard {[norm(c_)[:50] for c_, _ in gs]}: reference replaces non-reference={bool(ref_replaces)}, empty slot always filled={always_enters is not False}"
    ctx.ob("R-C03-3", f"{q}/dedupe-by-span", okd, "before sorting, the list is rebuilt from a dict keyed by span(): no two results have identical spans",
           node=dd[0] if dd else fn, mod=m)
    ctx.ob("R-C03-3", f"{q}/dedupe-keeps-non-references", keep_pref == (False, True),
           "of two citations with identical spans a reference citation never replaces a citation of another kind, and every span keeps one citation: merging "
           f"references into a result with filter_citations(citations + references) keeps every non-reference citation ({why_pref})",
           node=dd[0] if dd else fn, mod=m, witness="Smith v. Gilmer, 1 U.S. 1 (1990). ... relied on Gilmer at 70 (resolved name 'Gilmer'): ShortCaseCitation and ReferenceCitation at (60, 72)")
    # the loop
    loops = [s for s in fn.body if isinstance(s, ast.For) and norm(s.iter) == f"{SORTED}[1:]"]
    okl = len(loops) == 1 and norm(loops[0].iter) == f"{SORTED}[1:]" and isinstance(loops[0].target, ast.Name)
    ctx.ob("R-C03-2", f"{q}/loop", okl, f"one loop over {SORTED}[1:]", node=loops[0] if loops else fn, mod=m)
    if not okl:
        return
    loop = loops[0]
    CIT = loop.target.id
    LASTS = {norm(s.targets[0]) for s in stmts_local(loop.body) if isinstance(s, ast.Assign) and norm(s.value) == f"{OUT}[-1]"}
    paths = enumerate_paths(loop.body)
    ok2 = ok4 = True
    why2 = why4 = ""
    n_app = n_skip = n_pop = 0
    for p in paths:
        ops = []
        conds = []
        for ev in p.events:
            if ev[0] == "cond":
                conds.append((norm(ev[1]), ev[2]))
            elif ev[0] == "stmt":
                for n in ast.walk(ev[1]):
                    if isinstance(n, ast.Call) and isinstance(n.func, ast.Attribute) and norm(n.func.value) == OUT:
                        if n.func.attr == "append" and len(n.args) == 1 and norm(n.args[0]) == CIT:
                            ops.append("append")
                        elif n.func.attr == "pop" and (not n.args or norm(n.args[0]) == "-1"):
                            ops.append("pop")
                            inner = n
                            while inner is not loop and not isinstance(inner, (ast.While, ast.For)):
                                inner = inner.parent
                            if inner is not loop:
                                # repeated removal: each iteration must re-test the element it removes
                                test = inner.test if isinstance(inner, ast.While) else None
                                conj = [norm(v) for v in (test.values if isinstance(test, ast.BoolOp) and isinstance(test.op, ast.And) else [test])] if test is not None else []
                                isref = f"isinstance({OUT}[-1], ReferenceCitation)" in conj
                            else:
                                isref = any(c == f"isinstance({OUT}[-1], ReferenceCitation)" and o for c, o in conds) or \
                                    any(c in {f"isinstance({l}, ReferenceCitation)" for l in LASTS} and o for c, o in conds)
                            if not isref:
                                ok4, why4 = False, f"`{norm(n)}` removes an element that is not known to be a ReferenceCitation (conditions {conds[-4:]})"
                        else:
                            ops.append(f"other:{norm(n)[:40]}")
                if isinstance(ev[1], (ast.Assign, ast.AugAssign, ast.Delete)):
                    for t in (ev[1].targets if isinstance(ev[1], (ast.Assign, ast.Delete)) else [ev[1].target]):
                        if isinstance(t, ast.Subscript) and norm(t.value) == OUT or norm(t) == OUT:
                            ops.append(f"other:{norm(ev[1])[:40]}")
        if any(o.startswith("other") for o in ops):
            ok2, why2 = False, f"unsupported change of the output list: {ops}"
        if ops.count("append") > 1 or ("pop" in ops and (not ops or ops[-1] != "append")):
            ok2, why2 = False, f"output operations {ops}: after removing tail elements the current citation must be appended (exactly once)"
        n_pop += ops.count("pop")
        if "append" in ops:
            n_app += 1
        else:
            n_skip += 1
            if not any(c == f"isinstance({CIT}, ReferenceCitation)" and o for c, o in conds):
                ok4, why4 = False, f"a path drops the current citation although it is not known to be a ReferenceCitation (conditions {conds})"
    # R-C03-9: an overlap that involves a reference citation never survives.  On a path where the overlap test held and the last kept citation is
    # known to be a reference, that reference is popped (or the current one skipped); where the current citation is known to be a reference and
    # the last is not, the current one is skipped.  (Overlaps between two non-references are parallel citations sharing a case name; the
    # property's quantifier lets those stand.)
    ok9, why9, n9 = True, "", 0
    OV = None
    for st_ in stmts_local(loop.body):
        if isinstance(st_, ast.Assign) and isinstance(st_.value, ast.Call) and dotted(st_.value.func) == "overlapping_citations" and isinstance(st_.targets[0], ast.Name):
            OV = st_.targets[0].id
    for p in paths:
        conds = [(norm(ev[1]), ev[2]) for ev in p.events if ev[0] == "cond"]
        overl = any((c == OV or c.startswith("overlapping_citations(")) and o for c, o in conds) if OV or True else False
        if not overl:
            continue
        last_ref = any(c in {f"isinstance({l}, ReferenceCitation)" for l in LASTS} and o for c, o in conds)
        cur_ref = any(c == f"isinstance({CIT}, ReferenceCitation)" and o for c, o in conds)
        if not (last_ref or cur_ref):
            continue
        n9 += 1
        popped = appended = False
        for ev in p.events:
            if ev[0] == "stmt" or ev[0] == "loop":
                for n in ast.walk(ev[1]):
                    if isinstance(n, ast.Call) and isinstance(n.func, ast.Attribute) and norm(n.func.value) == OUT:
                        popped = popped or n.func.attr == "pop"
                        appended = appended or n.func.attr == "append"
        if last_ref and appended and not popped:
            ok9, why9 = False, f"the current citation is appended next to an overlapping reference citation that stays in the list (conditions {conds[-5:]})"
        if cur_ref and not last_ref and appended:
            ok9, why9 = False, f"an overlapping reference citation is appended (conditions {conds[-5:]})"
    ctx.ob("R-C03-9", f"{q}/overlap-with-a-reference-is-resolved", ok9 and n9 >= 2,
           f"on all {n9} paths with an overlap involving a reference citation one of the two is removed" if ok9 else why9, node=loop, mod=m)
    ctx.ob("R-C03-2", f"{q}/output-is-subsequence-of-sorted", ok2 and n_app > 0,
           f"every path appends the loop variable at most once at the tail, after any tail pops ({len(paths)} paths, {n_app} appending, {n_pop} pops): "
           "the result is a sub-sequence of the sorted list, hence ordered by K" if ok2 else why2, node=loop, mod=m)
    ctx.ob("R-C03-4", f"{q}/only-references-are-dropped", ok4 and n_skip + n_pop > 0,
           f"every removal ({n_pop} pops, {n_skip} skip paths) is of a ReferenceCitation: every non-reference citation is kept" if ok4 else why4, node=loop, mod=m)
    for r in rets:
        if not (isinstance(r.value, ast.Name) and r.value.id in (OUT, P)):
            ctx.ob("R-C03-2", f"{q}/return", False, f"returns `{norm(r.value)[:50]}`", node=r, mod=m)


def rule_pipeline(ctx: Ctx):
    repo = ctx.repo
    fm = repo.mod("find")
    gc = repo.need_func("find.get_citations")
    q = "find.get_citations"
    rets = [r for r in walk_local(gc) if isinstance(r, ast.Return)]
    L = None
    for r in rets:
        if isinstance(r.value, ast.Name) and r.value.id not in fm.imports:
            L = r.value.id
    ctx.ob("R-C03-1", f"{q}/result-list", L is not None, "returned list located", node=gc, mod=fm, nontrivial=False)
    if L is None:
        return
    ok, why, n = True, "", 0
    for p in enumerate_paths(gc.body):
        if p.exit != "return":
            continue
        rv = p.exit_node.value
        if isinstance(rv, ast.Name) and rv.id in fm.imports:
            continue  # the constant joke citation
        n += 1
        filtered = False
        for ev in p.events:
            if ev[0] != "stmt":
                continue
            s = ev[1]
            if isinstance(s, ast.Assign) and norm(s.targets[0]) == L and isinstance(s.value, ast.Call):
                f = dotted(s.value.func)
                if f == "filter_citations" and norm(s.value.args[0]) == L:
                    filtered = True
                    continue
                if filtered and f == "disambiguate_reporters" and norm(s.value.args[0]) == L:
                    continue
                if filtered:
                    ok, why = False, f"after filtering the list is rebuilt by `{norm(s)[:60]}`"
            elif filtered:
                for x in ast.walk(s):
                    if isinstance(x, ast.Call) and isinstance(x.func, ast.Attribute) and norm(x.func.value) == L and x.func.attr in (
                            "append", "extend", "insert", "sort", "reverse", "pop", "remove"):
                        ok, why = False, f"`{norm(x)[:50]}` after filter_citations"
                if L in assigned_names(s) and not isinstance(s, (ast.If, ast.For, ast.While)):
                    ok, why = False, f"`{norm(s)[:50]}` after filter_citations"
        if not filtered:
            ok, why = False, "a path returns the list without passing it through filter_citations"
    ctx.ob("R-C03-1", f"{q}/passes-through-filter", ok and n > 0,
           f"on all {n} return path(s) the list goes through filter_citations and afterwards only through the order-preserving ambiguity filter"
           if ok else why, node=gc, mod=fm)
    # ... which is order-preserving only if it is what its name says: a filter (comprehension over its parameter, or an append-only loop that
    # keeps or skips each element in turn) -- not something that sets elements aside and adds them back later
    from ..core import filter_semantics
    hm = repo.mod("helpers")
    dr = repo.func("helpers.disambiguate_reporters")
    if dr is not None:
        shape = filter_semantics(dr, ["isinstance({v}, ResourceCitation)", "{v}.edition_guess"])
        ctx.ob("R-C03-1", "helpers.disambiguate_reporters/order-preserving-filter", shape is not None,
               "the step applied after filter_citations returns a sub-sequence of its argument in the argument's order (a filtering comprehension / "
               "append-only filter loop over the parameter)", node=dr, mod=hm)
    # R-C03-6: span-extending scans stop at special tokens
    epc = repo.need_func("helpers.extract_pin_cite")
    calls = [n for n in walk_local(epc) if isinstance(n, ast.Call) and dotted(n.func) == "match_on_tokens"]
    okso = len(calls) == 1 and any(k.arg == "strings_only" and isinstance(k.value, ast.Constant) and k.value.value is True for k in calls[0].keywords)
    ctx.ob("R-C03-6", "helpers.extract_pin_cite/stops-at-special-tokens", okso,
           "the scan whose length extends span() over the pin cite must stop at the next special token (strings_only=True); otherwise the span "
           "swallows a later citation token that is also returned on its own ('Id. § 5')", node=calls[0] if calls else epc, mod=hm)
    mot = repo.need_func("helpers.match_on_tokens")
    stops = False
    for n in walk_local(mot):
        if isinstance(n, ast.If) and "strings_only" in norm(n.test) and f"isinstance({bind_mot(mot)['token']}, str)" in norm(n.test) \
                and any(isinstance(s, ast.Break) for s in n.body):
            # exactly the two conjuncts: a third one ("... and not a section token") lets a special token into a span-extending scan
            conj = sorted(norm(v) for v in (n.test.values if isinstance(n.test, ast.BoolOp) and isinstance(n.test.op, ast.And) else [n.test]))
            stops = conj == sorted(["strings_only", f"not isinstance({bind_mot(mot)['token']}, str)"])
    ctx.ob("R-C03-6", "helpers.match_on_tokens/strings_only-breaks", stops, "`strings_only and not isinstance(token, str)` ends the scan", node=mot, mod=hm)
    # where the scanned end becomes span_end
    for name in ("_extract_shortform_citation", "_extract_supra_citation", "_extract_id_citation"):
        f = repo.need_func(f"find.{name}")
        uses = [n for n in walk_local(f) if isinstance(n, ast.Call) and dotted(n.func) == "extract_pin_cite"]
        ctx.ob("R-C03-6", f"find.{name}/span-from-extract_pin_cite", len(uses) == 1, "span end comes from extract_pin_cite", node=f, mod=fm, nontrivial=False)


def rule_reference_extents(ctx: Ctx):
    """R-C03-7: filter_citations decides overlaps on full_span().  That finds every overlap of the spans themselves only if each citation's
    full span contains its span.  For citations built from tokens this is R-C02-3/4; reference citations are built with explicit offsets, so:
    at every ReferenceCitation(...) construction the full span's ends are the span's own ends (same expressions), and nothing stores a
    reference's full-span fields afterwards."""
    repo = ctx.repo
    fm = repo.mod("find")
    n = 0
    for q, mod, fn in repo.all_funcs():
        for c in [x for x in walk_local(fn) if isinstance(x, ast.Call) and dotted(x.func) == "ReferenceCitation"]:
            kw = {k.arg: k.value for k in c.keywords if k.arg}
            n += 1
            pairs = [("full_span_start", "span_start"), ("full_span_end", "span_end")]
            from ..core import Locals

            LW = Locals(fn)

            def _contains(a_expr, b_expr, which):
                """same expression, or both are <map>.update(origin + M.<which>(..), side) of the same map with the full-span one taken from the whole
                match and the span one from a group of the same match (a group lies inside its match; the offset map is monotone)"""
                if norm(a_expr) == norm(b_expr):
                    return True
                ea, eb = LW.expand(a_expr, c), LW.expand(b_expr, c)
                if norm(ea) == norm(eb):
                    return True
                def parts(e_):
                    if isinstance(e_, ast.Call) and isinstance(e_.func, ast.Attribute) and e_.func.attr == "update" and len(e_.args) == 2 \
                            and isinstance(e_.args[0], ast.BinOp) and isinstance(e_.args[0].op, ast.Add):
                        pos = e_.args[0].right
                        if isinstance(pos, ast.Call) and isinstance(pos.func, ast.Attribute) and pos.func.attr == which and isinstance(pos.func.value, ast.Name):
                            return norm(e_.func.value), norm(e_.args[0].left), pos.func.value.id, [norm(x_) for x_ in pos.args]
                    return None
                pa, pb = parts(ea), parts(eb)
                return pa is not None and pb is not None and pa[:3] == pb[:3] and pa[3] in ([], ["0"]) and pb[3] not in ([],)
            bad = [f"{a}={norm(kw[a])[:30]} vs {b}={norm(kw[b])[:30]}" for a, b in pairs if a in kw and b in kw
                   and not _contains(kw[a], kw[b], "start" if a.endswith("start") else "end")]
            missing = [a for a, b in pairs if (a in kw) != (b in kw)]
            ctx.ob("R-C03-7", f"{q}/ReferenceCitation:full-span-is-span", not bad and not missing,
                   "a reference citation is built with full_span_start == span_start and full_span_end == span_end (same expressions), so the overlap test on "
                   f"full spans sees every overlap of its span (differences: {bad or missing})", node=c, mod=mod)
        # stores into full-span fields of something that is a reference citation
        for st in [x for x in walk_local(fn) if isinstance(x, (ast.Assign, ast.AugAssign))]:
            tgts = st.targets if isinstance(st, ast.Assign) else [st.target]
            flat = []
            for t in tgts:
                flat += list(t.elts) if isinstance(t, (ast.Tuple, ast.List)) else [t]
            for t in flat:
                if isinstance(t, ast.Attribute) and t.attr in ("full_span_start", "full_span_end") and mod.name == "find" and not q.endswith("__init__"):
                    ctx.ob("R-C03-7", f"{q}/store:{norm(t)[:40]}", False,
                           f"`{norm(t)}` is rewritten after construction in the reference-extraction code: a full span that no longer contains the citation's own span "
                           "hides an overlap from filter_citations", node=st, mod=mod)
    ctx.ob("R-C03-7", "find/reference-constructions", n >= 2, f"{n} ReferenceCitation constructions inspected", node=None, mod=fm, nontrivial=False)


def rule_overlap_predicate(ctx: Ctx):
    """R-C03-10: `overlapping_citations` is the interval-intersection test.  Its body touches the four offsets through comparisons, max and min only,
    so its value is a function of their relative order; the expression is evaluated (an interpreter over the syntax tree, not the library) for every
    arrangement of (start_1, end_1, start_2, end_2) on four ranks with start < end and compared with `max(starts) < min(ends)`."""
    import itertools

    repo = ctx.repo
    hm = repo.mod("helpers")
    fn = repo.func("helpers.overlapping_citations")
    if fn is None:
        ctx.ob("R-C03-10", "helpers.overlapping_citations/located", False, "overlap predicate not found", node=None, mod=hm)
        return
    ps = [a.arg for a in fn.args.args]

    class _No(Exception):
        pass

    def ev(e, env):
        if isinstance(e, ast.Constant) and isinstance(e.value, (int, bool)):
            return e.value
        if isinstance(e, ast.Name):
            if e.id in env:
                return env[e.id]
            raise _No(e.id)
        if isinstance(e, ast.Tuple):
            return tuple(ev(x, env) for x in e.elts)
        if isinstance(e, ast.Subscript) and isinstance(e.slice, ast.Constant):
            return ev(e.value, env)[e.slice.value]
        if isinstance(e, ast.Call) and dotted(e.func) in ("max", "min") and not e.keywords:
            vals = [ev(a, env) for a in e.args]
            return (max if dotted(e.func) == "max" else min)(vals)
        if isinstance(e, ast.BoolOp):
            vs = [ev(v, env) for v in e.values]
            return all(vs) if isinstance(e.op, ast.And) else any(vs)
        if isinstance(e, ast.UnaryOp) and isinstance(e.op, ast.Not):
            return not ev(e.operand, env)
        if isinstance(e, ast.Compare):
            left = ev(e.left, env)
            for op, c in zip(e.ops, e.comparators):
                right = ev(c, env)
                r = {ast.Lt: left < right, ast.LtE: left <= right, ast.Gt: left > right, ast.GtE: left >= right, ast.Eq: left == right, ast.NotEq: left != right}.get(type(op))
                if r is None:
                    raise _No(type(op).__name__)
                if not r:
                    return False
                left = right
            return True
        if isinstance(e, ast.IfExp):
            return ev(e.body, env) if ev(e.test, env) else ev(e.orelse, env)
        raise _No(type(e).__name__)

    def run(env):
        from ..core import effective_body
        for st in effective_body(fn):
            if isinstance(st, ast.Expr) and isinstance(st.value, ast.Constant):
                continue
            if isinstance(st, ast.Assign) and len(st.targets) == 1:
                v = ev(st.value, env)
                t = st.targets[0]
                if isinstance(t, ast.Name):
                    env[t.id] = v
                elif isinstance(t, ast.Tuple) and all(isinstance(x, ast.Name) for x in t.elts) and isinstance(v, tuple) and len(v) == len(t.elts):
                    for x, vv in zip(t.elts, v):
                        env[x.id] = vv
                else:
                    raise _No("assignment")
            elif isinstance(st, ast.Return):
                return bool(ev(st.value, env))
            elif isinstance(st, ast.If):
                body = st.body if ev(st.test, env) else st.orelse
                for s2 in body:
                    if isinstance(s2, ast.Return):
                        return bool(ev(s2.value, env))
                    raise _No("statement in branch")
            else:
                raise _No(type(st).__name__)
        raise _No("no return")

    bad, n, why = [], 0, ""
    try:
        for s1, e1, s2, e2 in itertools.product(range(4), repeat=4):
            if s1 >= e1 or s2 >= e2:
                continue  # citations have non-empty spans; formulations that differ only on empty ones are equivalent here
            n += 1
            got = run({ps[0]: (s1, e1), ps[1]: (s2, e2)})
            if got != (max(s1, s2) < min(e1, e2)):
                bad.append(((s1, e1), (s2, e2), got))
    except _No as e:
        why = f"the body uses `{e}`, outside comparisons / max / min of the four offsets"
    ctx.ob("R-C03-10", "helpers.overlapping_citations/is-interval-intersection", not bad and not why and len(ps) == 2,
           why or (f"agrees with max(starts) < min(ends) on all {n} order arrangements of the four offsets" if not bad else
                   f"differs from interval intersection on {len(bad)} of {n} arrangements, e.g. spans {bad[0][0]} and {bad[0][1]} give {bad[0][2]} "
                   "(a span nested strictly inside the previous one is not seen as overlapping, or touching spans are)"), node=fn, mod=hm)


def run(ctx: Ctx):
    ctx.level = "other"
    ctx.explanation = (
        "R-C03-1 every list returned by get_citations passed through filter_citations and afterwards only through order-preserving removal; "
        "R-C03-2 filter_citations' output is a sub-sequence of sorted(<citations>, key=K) (seeded with element 0, per iteration only tail pops "
        "followed by one append of the loop variable) -- ordered by K for every input, by loop shape; R-C03-3 de-duplicated through a dict "
        "keyed by span(); R-C03-4 every pop / skip is of a ReferenceCitation, so every non-reference citation is kept; R-C03-5 K is the "
        "citation's own position; R-C03-6 the scans that extend span() over a pin cite stop at the next special token.  NOT decided: that "
        "spans of distinct citations never overlap in general (depends on how far a pin cite extends vs. where the next token starts) and "
        "idempotence beyond the structure above."
    )
    ctx.trusted = ["the checker", "sorted() orders by the key; dict keeps one value per key"]
    ctx.assumptions = ["tokens never overlap (C12)"]
    ctx.guard(rule_filter, ctx)
    ctx.guard(rule_pipeline, ctx)
    ctx.guard(rule_reference_extents, ctx)
    ctx.guard(rule_overlap_predicate, ctx)
    ctx.floor("R-C03-2", 5)
    ctx.floor("R-C03-6", 3)
