"""Normalisation: helpers that a maintainer *extracted* are inlined back.

The rules are written against the functions of the reference tree
(sa/reference_funcs.txt, frozen).  A function that is not in that list is an
"extra": a helper somebody factored out of one of the known functions.  Before
any rule runs, every call of an extra in a supported position is replaced by
the extra's body (parameters substituted or bound, locals renamed on clash,
`return` lowered into an assignment to the call's target), repeatedly, so a
rule sees the same statements whether or not the helper exists.  This is a
semantics-preserving source-to-source rewrite (call-by-value inlining) of the
tree that is analysed; it never touches /repo.

Not inlined (the call is left as it is and the extra stays a function of its
own, analysed like any other): decorated functions other than static/class
methods (e.g. lru_cache changes behaviour), recursive helpers, helpers of
another module, generators used other than by `yield from`, *args/**kwargs,
a `return` inside a loop/try/with when the call is not in tail position.
"""
from __future__ import annotations

from .core import acopy
import ast
import copy
from pathlib import Path
from typing import Dict, List, Optional, Set, Tuple

REFERENCE: Set[str] = set((Path(__file__).parent / "reference_funcs.txt").read_text().split())


REFERENCE_NAMES: Set[str] = set((Path(__file__).parent / "reference_names.txt").read_text().split())


class Unsupported(Exception):
    pass


def _relocate(nodes, at: ast.AST):
    """code copied from a helper takes the *line* of the call it replaces, so rules that order statements by line see it where it now
    executes; the original position is kept in `_tpos` for type look-ups (sa/typed.py) and is what diagnostics of sub-expressions lose"""
    for root in nodes:
        for n in ast.walk(root):
            if getattr(n, "lineno", None) is None:
                continue
            if not hasattr(n, "_tpos"):
                n._tpos = (n.lineno, n.col_offset, getattr(n, "end_lineno", None), getattr(n, "end_col_offset", None))  # type: ignore[attr-defined]
            n.lineno = at.lineno
            if getattr(n, "end_lineno", None) is not None:
                n.end_lineno = getattr(at, "end_lineno", at.lineno) or at.lineno
    return nodes


def _has_yield(fn: ast.FunctionDef) -> bool:
    return any(isinstance(n, (ast.Yield, ast.YieldFrom)) for n in _walk_no_defs(fn))


def _walk_no_defs(node: ast.AST):
    todo = list(ast.iter_child_nodes(node))
    while todo:
        n = todo.pop()
        yield n
        if isinstance(n, (ast.FunctionDef, ast.AsyncFunctionDef, ast.ClassDef, ast.Lambda)):
            continue
        todo.extend(ast.iter_child_nodes(n))


def _assigned(node_or_list) -> Set[str]:
    out: Set[str] = set()
    nodes = node_or_list if isinstance(node_or_list, list) else [node_or_list]
    for root in nodes:
        for n in ast.walk(root):
            if isinstance(n, ast.Name) and isinstance(n.ctx, (ast.Store, ast.Del)):
                out.add(n.id)
            elif isinstance(n, ast.ExceptHandler) and n.name:
                out.add(n.name)
            elif isinstance(n, (ast.FunctionDef, ast.ClassDef)) and n is not root:
                out.add(n.name)
    return out


def _names(node_or_list) -> Set[str]:
    nodes = node_or_list if isinstance(node_or_list, list) else [node_or_list]
    out: Set[str] = set()
    for root in nodes:
        for n in ast.walk(root):
            if isinstance(n, ast.Name):
                out.add(n.id)
            elif isinstance(n, ast.arg):
                out.add(n.arg)
    return out


def _simple(e: ast.AST) -> bool:
    """an argument that can be substituted for the parameter: evaluating it
    has no effect and (for names) the callee does not rebind it"""
    if isinstance(e, ast.Constant):
        return True
    while isinstance(e, ast.Attribute):
        e = e.value
    return isinstance(e, ast.Name)



def _reads(node: ast.AST, a: str) -> bool:
    return any(isinstance(n, ast.Name) and n.id == a and isinstance(n.ctx, ast.Load) for n in ast.walk(node))


def _writes(node: ast.AST, a: str) -> bool:
    return a in _assigned(node)


def _first_access(stmts: List[ast.stmt], a: str, loop_writes: bool) -> str:
    """'read' some path reads a first | 'write' every path writes a first (or leaves through an exit after which a is dead)
    | 'none' no path touches a | 'mixed' some write, some do not touch.  loop_writes: `continue` re-binds a (a is a target
    of the enclosing for loop)."""
    state = "none"
    for s in stmts:
        r = _stmt_access(s, a, loop_writes)
        if r == "read":
            return "read"
        if r == "write":
            return "write" if state == "none" else "mixed_write"
        if r == "mixed":
            state = "mixed"
    return state


def _stmt_access(s: ast.stmt, a: str, loop_writes: bool) -> str:
    if isinstance(s, (ast.FunctionDef, ast.AsyncFunctionDef, ast.ClassDef, ast.Lambda)):
        return "read" if any(isinstance(n, ast.Name) and n.id == a for n in ast.walk(s)) else "none"
    if isinstance(s, ast.Return):
        return "read" if s.value is not None and _reads(s.value, a) else "write"
    if isinstance(s, ast.Raise):
        return "read" if _reads(s, a) else "write"
    if isinstance(s, ast.Continue):
        return "write" if loop_writes else "read"
    if isinstance(s, ast.Break):
        return "read"
    if isinstance(s, ast.If):
        if _reads(s.test, a):
            return "read"
        b = _first_access(s.body, a, loop_writes)
        o = _first_access(s.orelse, a, loop_writes)
        b = "mixed" if b == "mixed_write" else b
        o = "mixed" if o == "mixed_write" else o
        if "read" in (b, o):
            return "read"
        if b == o:
            return b
        return "mixed"
    if isinstance(s, (ast.For, ast.While, ast.Try, ast.With, ast.Match)):
        if _reads(s, a):
            return "read"
        return "mixed" if _writes(s, a) else "none"
    if isinstance(s, ast.AugAssign):
        if _reads(s, a) or (isinstance(s.target, ast.Name) and s.target.id == a):
            return "read"
        return "none"
    if _reads(s, a):
        return "read"
    return "write" if _writes(s, a) else "none"


def _outer_of(frames, loop_owner):
    """frames describing what follows the loop `loop_owner` (the frame whose statements come after it)"""
    for i, (rest, owner, lb) in enumerate(frames):
        if lb and owner is loop_owner:
            return frames[i + 1:]
    return []


def dead_after(a: str, frames) -> bool:
    """the caller's variable a is not read after the call before being written again, on any path"""
    for rest, owner, is_loop_body in frames:
        loop_writes = False
        for _, o2, lb2 in frames[frames.index((rest, owner, is_loop_body)):]:
            if lb2:
                loop_writes = (isinstance(o2, ast.For) and a in _assigned(o2.target)) or (
                    not (isinstance(o2, ast.While) and _reads(o2.test, a)) and _first_access(o2.body, a, True) != "read"
                    and dead_after(a, _outer_of(frames, o2)))
                break
        r = _first_access(rest, a, loop_writes)
        if r == "read":
            return False
        if r == "write":
            return True
        # fell off the end of this block (or only some paths wrote)
        if is_loop_body:
            if not (isinstance(owner, ast.For) and a in _assigned(owner.target)):
                # back edge: the next iteration starts at the top of the body (a `continue` met there leads to the head again: coinductively dead)
                if isinstance(owner, ast.While) and _reads(owner.test, a):
                    return False
                if _first_access(owner.body, a, True) == "read":
                    return False
            # the exit edge goes on with the outer frame
            if owner.orelse and _first_access(owner.orelse, a, False) == "read":
                return False
            continue
        if isinstance(owner, (ast.Try, ast.With)):
            return False
    return True


class _Subst(ast.NodeTransformer):
    def __init__(self, mapping: Dict[str, ast.AST], rename: Dict[str, str]):
        self.mapping, self.rename = mapping, rename

    def visit_Name(self, node: ast.Name):
        if node.id in self.mapping and isinstance(node.ctx, ast.Load):
            new = acopy(self.mapping[node.id])
            return ast.copy_location(new, node)
        if node.id in self.rename:
            return ast.copy_location(ast.Name(id=self.rename[node.id], ctx=node.ctx), node)
        return node

    def visit_ExceptHandler(self, node: ast.ExceptHandler):
        if node.name in self.rename:
            node.name = self.rename[node.name]
        return self.generic_visit(node)


def _contains_return(stmts: List[ast.stmt]) -> bool:
    for s in stmts:
        for n in [s, *_walk_no_defs(s)]:
            if isinstance(n, ast.Return):
                return True
    return False


def _lower_returns(stmts: List[ast.stmt], emit, k: Optional[List[ast.stmt]] = None) -> Tuple[List[ast.stmt], bool]:
    """rewrite `return v` into emit(v) (a list of statements).  Continuation-passing: the statements that follow an `if`
    containing a return are pushed into those of its branches that fall through (k = what runs after falling off the end of
    stmts).  Returns (new statements, control never falls off the end)."""
    k = k or []
    out: List[ast.stmt] = []
    for i, s in enumerate(stmts):
        if isinstance(s, ast.Return):
            out.extend(emit(s.value, s))
            return out, True
        if not _contains_return([s]):
            out.append(s)
            continue
        if isinstance(s, ast.If):
            rest = stmts[i + 1:]
            kk, kr = _lower_returns(rest, emit, k)
            b, br = _lower_returns(s.body, emit, kk)
            o, orr = _lower_returns(s.orelse, emit, acopy(kk) if s.orelse or True else kk)
            new = ast.If(test=s.test, body=b or [ast.Pass()], orelse=o)
            out.append(ast.copy_location(new, s))
            return out, (br or False) and (orr or False) if False else _never_falls(out)
        if isinstance(s, ast.Try) and i == len(stmts) - 1 and not k and not s.finalbody:
            # a trailing try whose blocks end in returns: each return becomes the emission, still inside its block (the value
            # was evaluated there before, too); nothing follows, so control leaves the inlined body afterwards
            def block(b):
                if not _contains_return(b):
                    return b
                if any(isinstance(x, ast.Return) for x in b[:-1]) or not isinstance(b[-1], (ast.Return, ast.If)):
                    raise Unsupported("return in the middle of a try block")
                nb, _ = _lower_returns(b, emit, [])
                return nb
            new = ast.Try(body=block(s.body), handlers=[ast.copy_location(ast.ExceptHandler(type=h.type, name=h.name, body=block(h.body)), h) for h in s.handlers],
                          orelse=block(s.orelse) if s.orelse else [], finalbody=[])
            out.append(ast.copy_location(new, s))
            return out, False
        if isinstance(s, (ast.For, ast.While)) and not s.orelse:
            # `return E` inside a loop leaves the loop and the helper: emit(E) + break; what followed the loop runs only when the loop
            # finishes normally, i.e. as the loop's else-branch.  Needs: no break of the helper's own (it would skip the else-branch)
            # and no return below a nested loop / try / with (break would not leave far enough)
            def in_loop(block: List[ast.stmt]) -> List[ast.stmt]:
                res: List[ast.stmt] = []
                for st in block:
                    if isinstance(st, ast.Return):
                        res.extend(emit(st.value, st))
                        res.append(ast.copy_location(ast.Break(), st))
                        return res
                    if not _contains_return([st]):
                        if any(isinstance(n, ast.Break) for n in [st, *_walk_no_defs(st)]) and not isinstance(st, (ast.For, ast.While)):
                            raise Unsupported("helper loop has its own break next to a return")
                        res.append(st)
                        continue
                    if isinstance(st, ast.If):
                        res.append(ast.copy_location(ast.If(test=st.test, body=in_loop(st.body) or [ast.copy_location(ast.Pass(), st)], orelse=in_loop(st.orelse)), st))
                        continue
                    raise Unsupported(f"return inside {type(st).__name__} inside a loop")
                return res
            rest = stmts[i + 1:]
            kk, _kr = _lower_returns(rest, emit, k)
            new_loop = acopy(s)
            new_loop.body = _merge_tail_breaks(in_loop(s.body))
            new_loop.orelse = [x for x in drop_identities(kk) if not isinstance(x, ast.Pass)]
            out.append(new_loop)
            return out, False
        raise Unsupported(f"return inside {type(s).__name__}")
    out.extend(k)
    return out, _never_falls(out)


def _never_falls(stmts: List[ast.stmt]) -> bool:
    if not stmts:
        return False
    s = stmts[-1]
    if isinstance(s, (ast.Return, ast.Raise, ast.Continue, ast.Break)):
        return True
    if isinstance(s, ast.If) and s.orelse:
        return _never_falls(s.body) and _never_falls(s.orelse)
    return False


def _merge_tail_breaks(block: List[ast.stmt]) -> List[ast.stmt]:
    """`if c: A; break` followed by `B; break` (what lowering `if c: return a` / `return b` gives)  ->  `if c: A else: B` / `break`"""
    for st in block:
        for fld in ("body", "orelse"):
            sub = getattr(st, fld, None)
            if isinstance(sub, list) and sub and isinstance(sub[0], ast.stmt) and not isinstance(st, (ast.For, ast.While, ast.FunctionDef)):
                setattr(st, fld, _merge_tail_breaks(sub))
    for i, st in enumerate(block):
        if isinstance(st, ast.If) and not st.orelse and st.body and isinstance(st.body[-1], ast.Break) and isinstance(block[-1], ast.Break) and i < len(block) - 1:
            rest = block[i + 1:-1]
            if any(isinstance(n, (ast.Break, ast.Continue, ast.Return)) for r in rest for n in [r, *_walk_no_defs(r)]):
                continue
            if any(isinstance(n, (ast.Break, ast.Continue, ast.Return)) for r in st.body[:-1] for n in [r, *_walk_no_defs(r)]):
                continue
            st.body = st.body[:-1] or [ast.copy_location(ast.Pass(), st)]
            st.orelse = rest
            if len(st.body) == 1 and isinstance(st.body[0], ast.Pass) and st.orelse:
                st.test = ast.copy_location(ast.UnaryOp(op=ast.Not(), operand=st.test), st.test)
                st.body, st.orelse = st.orelse, []
            return block[:i] + [st, block[-1]]
    return block


def drop_identities(stmts: List[ast.stmt]) -> List[ast.stmt]:
    """remove `x = x` left behind by inlining (recursively); an emptied block gets `pass`"""
    out = []
    for s in stmts:
        if isinstance(s, ast.Assign) and len(s.targets) == 1 and isinstance(s.targets[0], ast.Name) and isinstance(s.value, ast.Name) \
                and s.value.id == s.targets[0].id:
            continue
        for fld in ("body", "orelse", "finalbody"):
            sub = getattr(s, fld, None)
            if isinstance(sub, list) and sub and isinstance(sub[0], ast.stmt):
                new = drop_identities(sub)
                if not new and fld == "body":
                    new = [ast.copy_location(ast.Pass(), s)]
                setattr(s, fld, new)
        if isinstance(s, ast.If) and len(s.body) == 1 and isinstance(s.body[0], ast.Pass) and s.orelse:
            # `if c: pass else: X`  ->  `if not c: X`
            if isinstance(s.test, ast.UnaryOp) and isinstance(s.test.op, ast.Not):
                s.test = s.test.operand
            else:
                s.test = ast.copy_location(ast.UnaryOp(op=ast.Not(), operand=s.test), s.test)
            s.body, s.orelse = s.orelse, []
        out.append(s)
    return out


def _leaf_assigns(stmts: List[ast.stmt], t: str):
    """the assignments `t = v` that end every path through stmts (None if some path ends otherwise)"""
    if not stmts:
        return None
    last = stmts[-1]
    if isinstance(last, ast.Assign) and len(last.targets) == 1 and isinstance(last.targets[0], ast.Name) and last.targets[0].id == t:
        return [(stmts, len(stmts) - 1)]
    if isinstance(last, ast.If) and last.orelse:
        a, b = _leaf_assigns(last.body, t), _leaf_assigns(last.orelse, t)
        if a is None or b is None:
            return None
        return a + b
    return None


def _none_test(s: ast.stmt, t: str):
    """`if t is None: <terminal block>` (no else) -> the block"""
    if not (isinstance(s, ast.If) and not s.orelse):
        return None
    c = s.test
    ok = False
    if isinstance(c, ast.Compare) and len(c.ops) == 1 and isinstance(c.left, ast.Name) and c.left.id == t and isinstance(c.ops[0], (ast.Is, ast.Eq)) \
            and isinstance(c.comparators[0], ast.Constant) and c.comparators[0].value is None:
        ok = True
    if isinstance(c, ast.UnaryOp) and isinstance(c.op, ast.Not) and isinstance(c.operand, ast.Name) and c.operand.id == t:
        ok = True
    if ok and s.body and isinstance(s.body[-1], (ast.Continue, ast.Break, ast.Return, ast.Raise)):
        return s.body
    return None


def _syntactically_nonnull(e: ast.AST) -> bool:
    if isinstance(e, ast.Constant):
        return e.value is not None
    if isinstance(e, (ast.Tuple, ast.List, ast.Dict, ast.Set, ast.ListComp, ast.SetComp, ast.DictComp, ast.GeneratorExp, ast.JoinedStr, ast.Compare, ast.Lambda)):
        return True
    if isinstance(e, ast.BinOp) and isinstance(e.op, (ast.Add, ast.Sub, ast.Mult, ast.FloorDiv, ast.Mod)):
        return True
    if isinstance(e, ast.Call) and isinstance(e.func, ast.Name) and e.func.id in ("len", "int", "str", "max", "min", "sum", "abs", "list", "tuple", "set", "dict", "sorted", "bool", "repr"):
        return True
    return False


def thread_temporary(repl: List[ast.stmt], t: str, rest: List[ast.stmt], caller: ast.AST, nonnull=None):
    """repl ends, on every path, with `t = None` or `t = <value>`; the statements that follow are an optional
    `if t is None: <terminal>` and then `x1, .., xn = t` (value a tuple display) or `x = t` (value known not to be None), and t
    is used nowhere else: specialise the followers into the leaves.  Returns (new repl, number of following statements
    consumed) or None."""
    leaves = _leaf_assigns(repl, t)
    if not leaves:
        return None
    k = 0
    none_body = None
    if k < len(rest) and _none_test(rest[k], t) is not None:
        none_body = _none_test(rest[k], t)
        k += 1
    unpack = single = None
    # `if t is not None: x = t` (no else): the not-None leaves get `x = <value>`, the None leaves nothing
    if none_body is None and k < len(rest) and isinstance(rest[k], ast.If) and not rest[k].orelse and len(rest[k].body) == 1:
        c = rest[k].test
        pos = (isinstance(c, ast.Compare) and len(c.ops) == 1 and isinstance(c.left, ast.Name) and c.left.id == t and isinstance(c.ops[0], (ast.IsNot, ast.NotEq))
               and isinstance(c.comparators[0], ast.Constant) and c.comparators[0].value is None)
        b0 = rest[k].body[0]
        if pos and isinstance(b0, ast.Assign) and len(b0.targets) == 1 and isinstance(b0.targets[0], ast.Name) and isinstance(b0.value, ast.Name) and b0.value.id == t:
            single = b0
            none_body = [ast.copy_location(ast.Pass(), rest[k])]
            k += 1
    if single is None and k < len(rest) and isinstance(rest[k], ast.Assign) and len(rest[k].targets) == 1 and isinstance(rest[k].value, ast.Name) and rest[k].value.id == t:
        tg = rest[k].targets[0]
        if isinstance(tg, (ast.Tuple, ast.List)) and all(isinstance(e, ast.Name) for e in tg.elts):
            unpack = rest[k]
            k += 1
        elif isinstance(tg, ast.Name):
            single = rest[k]
            k += 1
    if unpack is None and single is None:
        return None
    n = len(unpack.targets[0].elts) if unpack is not None else 0
    vals = []
    for blk, idx in leaves:
        v = blk[idx].value
        if isinstance(v, ast.Constant) and v.value is None:
            if none_body is None:
                return None
            vals.append(None)
        elif unpack is not None and isinstance(v, ast.Tuple) and len(v.elts) == n and not any(isinstance(e, ast.Starred) for e in v.elts):
            vals.append(v)
        elif single is not None and (none_body is None or _syntactically_nonnull(v) or (nonnull is not None and nonnull(v))):
            vals.append(v)
        else:
            return None
    # t must not be used anywhere else in the caller
    uses = sum(1 for x in ast.walk(caller) if isinstance(x, ast.Name) and x.id == t)
    mine = sum(1 for st in rest[:k] for x in ast.walk(st) if isinstance(x, ast.Name) and x.id == t)
    if uses - mine > 0:
        # the call statement itself (still in the caller's tree) assigns t once
        own = sum(1 for x in ast.walk(caller) if isinstance(x, ast.Name) and x.id == t and isinstance(x.ctx, ast.Store))
        if uses - mine - own > 0 or own > 1:
            return None
    for (blk, idx), v in zip(leaves, vals):
        node = blk[idx]
        if v is None:
            blk[idx:idx + 1] = acopy(none_body)
            continue
        if single is not None:
            tgt = single.targets[0].id
            if isinstance(v, ast.Name) and v.id == tgt:
                new = []
            else:
                new = [ast.copy_location(ast.Assign(targets=[ast.Name(id=tgt, ctx=ast.Store())], value=v, lineno=node.lineno), node)]
        else:
            new = split_parallel([e.id for e in unpack.targets[0].elts], list(v.elts), unpack.targets[0], v, node)
        blk[idx:idx + 1] = new or [ast.copy_location(ast.Pass(), node)]
    return repl, k


def split_parallel(names: List[str], values: List[ast.AST], target: ast.AST, value: ast.AST, at: ast.AST) -> List[ast.stmt]:
    """`n1, .., nk = v1, .., vk` as sequential assignments when no later value reads an earlier target (identities dropped)"""
    pairs = [(nm, e) for nm, e in zip(names, values) if not (isinstance(e, ast.Name) and e.id == nm)]
    indep = all(nm not in _names(e2) for i, (nm, _) in enumerate(pairs) for j, (_, e2) in enumerate(pairs) if j > i)
    if indep:
        return [ast.copy_location(ast.Assign(targets=[ast.Name(id=nm, ctx=ast.Store())], value=e, lineno=at.lineno), at) for nm, e in pairs]
    return [ast.copy_location(ast.Assign(targets=[acopy(target)], value=value, lineno=at.lineno), at)]


class Inliner:
    def __init__(self, modname: str, tree: ast.Module, root=None):
        self.modname, self.tree, self.root = modname, tree, root
        self.log: List[str] = []
        self.counter = 0

    def nonnull(self, e: ast.AST) -> bool:
        """the expression (a node of the analysed module, positions intact) is not Optional according to mypy"""
        if self.root is None:
            return False
        try:
            from .typed import Typed, is_optional

            t = Typed.get(self.root).type_of(self.modname, e)
        except Exception:  # noqa: BLE001
            return False
        return bool(t) and not is_optional(t) and t not in ("None", "Any", "builtins.object") and "Any" not in t

    # ---- discovery ----------------------------------------------------
    def extras(self) -> Dict[Tuple[Optional[str], str], ast.FunctionDef]:
        out = {}
        for s in self.tree.body:
            if isinstance(s, ast.FunctionDef) and f"{self.modname}.{s.name}" not in REFERENCE:
                out[(None, s.name)] = s
            elif isinstance(s, ast.ClassDef):
                for t in s.body:
                    if isinstance(t, ast.FunctionDef) and f"{self.modname}.{s.name}.{t.name}" not in REFERENCE:
                        out[(s.name, t.name)] = t
        return out

    @staticmethod
    def _kind(fn: ast.FunctionDef) -> Optional[str]:
        decs = [ast.unparse(d) for d in fn.decorator_list]
        if not decs:
            return "plain"
        if decs == ["staticmethod"]:
            return "static"
        if decs == ["classmethod"]:
            return "class"
        return None

    def _callee_of(self, call: ast.Call, cls: Optional[str], extras) -> Optional[Tuple[ast.FunctionDef, str, Optional[ast.AST]]]:
        f = call.func
        if isinstance(f, ast.Name) and (None, f.id) in extras:
            fn = extras[(None, f.id)]
            return (fn, "function", None) if self._kind(fn) == "plain" else None
        if isinstance(f, ast.Attribute) and isinstance(f.value, ast.Name):
            recv = f.value.id
            k = None
            if recv in ("self", "cls") and cls and (cls, f.attr) in extras:
                k = (cls, f.attr)
            elif (recv, f.attr) in extras:
                k = (recv, f.attr)
            if k:
                fn = extras[k]
                kind = self._kind(fn)
                if kind == "static":
                    return fn, "static", None
                if kind == "class":
                    return fn, "class", ast.Name(id=recv if recv == "cls" else k[0], ctx=ast.Load())
                if kind == "plain" and recv == "self":
                    return fn, "method", ast.Name(id="self", ctx=ast.Load())
            # obj.m(..) where m is an extra plain method that exactly one class of this module defines and no other function or
            # method of the module is called m: the receiver can only be an instance of that class (or the call fails either way)
            if k is None and recv not in ("self", "cls"):
                owners = [key for key in extras if key[0] is not None and key[1] == f.attr]
                clash = any(isinstance(t, ast.FunctionDef) and t.name == f.attr and (c_.name, t.name) not in owners
                            for c_ in self.tree.body if isinstance(c_, ast.ClassDef) for t in c_.body) or (None, f.attr) in extras
                if len(owners) == 1 and not clash and self._kind(extras[owners[0]]) == "plain" and not f.attr.startswith("__"):
                    return extras[owners[0]], "method", ast.Name(id=recv, ctx=ast.Load())
        return None

    # ---- binding --------------------------------------------------------
    def _bind(self, fn: ast.FunctionDef, kind: str, recv, call: ast.Call) -> Dict[str, ast.AST]:
        a = fn.args
        if a.vararg or a.kwarg or a.posonlyargs or any(isinstance(x, ast.Starred) for x in call.args) or any(k.arg is None for k in call.keywords):
            raise Unsupported("star arguments")
        params = [x.arg for x in a.args]
        binding: Dict[str, ast.AST] = {}
        if kind in ("method", "class"):
            if not params:
                raise Unsupported("no receiver parameter")
            binding[params[0]] = recv
            params = params[1:]
        if len(call.args) > len(params):
            raise Unsupported("too many arguments")
        for p, v in zip(params, call.args):
            binding[p] = v
        kwonly = [x.arg for x in a.kwonlyargs]
        for k in call.keywords:
            if k.arg in binding or (k.arg not in params and k.arg not in kwonly):
                raise Unsupported(f"keyword {k.arg}")
            binding[k.arg] = k.value
        defaults = dict(zip([x.arg for x in a.args][len(a.args) - len(a.defaults):], a.defaults))
        for x, d in zip(a.kwonlyargs, a.kw_defaults):
            if d is not None:
                defaults[x.arg] = d
        for p in params + kwonly:
            if p not in binding:
                if p not in defaults:
                    raise Unsupported(f"missing argument {p}")
                binding[p] = defaults[p]
        return binding

    def _expand(self, fn: ast.FunctionDef, kind: str, recv, call: ast.Call, caller: ast.AST, stmt: ast.stmt, mode: str,
                target_names: Set[str]) -> List[ast.stmt]:
        """statements replacing `stmt`, whose value is `call`"""
        binding = self._bind(fn, kind, recv, call)
        body = [s for s in fn.body]
        if body and isinstance(body[0], ast.Expr) and isinstance(body[0].value, ast.Constant) and isinstance(body[0].value.value, str):
            body = body[1:]
        body = acopy(body)
        assigned = _assigned(body)
        if any(isinstance(n, (ast.Global, ast.Nonlocal)) for s in body for n in ast.walk(s)):
            raise Unsupported("global/nonlocal")
        caller_names = _names(caller) - {fn.name}
        pre: List[ast.stmt] = []
        mapping: Dict[str, ast.AST] = {}
        rename: Dict[str, str] = {}
        for p, v in binding.items():
            if p not in assigned and _simple(v):
                if isinstance(v, ast.Name) and v.id == p:
                    continue  # same name on both sides
                mapping[p] = v
            elif isinstance(v, ast.Name) and p in assigned and (v.id in target_names or dead_after(v.id, getattr(self, "_frames", [([], None, False)]))) \
                    and sum(1 for w in binding.values() if isinstance(w, ast.Name) and w.id == v.id) == 1:
                # x = f(.., x, ..) with the callee working on its copy of x: the caller's x is overwritten by the result (or
                # never read again) anyway, so the callee's local may share the caller's variable
                if v.id != p:
                    rename[p] = v.id
            else:
                new = p if p not in caller_names else self._fresh(p, caller_names)
                if new != p:
                    rename[p] = new
                pre.append(ast.copy_location(ast.Assign(targets=[ast.Name(id=new, ctx=ast.Store())], value=acopy(v), lineno=stmt.lineno), stmt))
                pre[-1]._inl_temp = True  # type: ignore[attr-defined]  # argument binding introduced by the inliner (sa/normalize.py folds it back)
        # names the call is control-dependent on: tests of the if/while statements that enclose it in the caller
        guard_names: Set[str] = set()
        def _find_path(node, target, path):
            if node is target:
                return path
            for ch in ast.iter_child_nodes(node):
                r_ = _find_path(ch, target, path + [node])
                if r_ is not None:
                    return r_
            return None
        for anc in (_find_path(caller, stmt, []) or []):
            if isinstance(anc, (ast.If, ast.While)):
                guard_names |= _names(anc.test)
        for loc in sorted(assigned - set(binding)):
            if loc in caller_names and loc not in target_names and loc not in rename.values() \
                    and (not dead_after(loc, getattr(self, "_frames", [([], None, False)])) or loc in guard_names):
                # a helper local may share the caller's (dead) variable of the same name -- that is how the code looked before the helper was
                # extracted -- unless the call sits under a test of that variable: rebinding the guarded name inside its own guard gives one
                # name two unrelated values exactly where rules reason about the guard
                rename[loc] = self._fresh(loc, caller_names)
            elif loc in rename.values() or loc in {w.id for w in binding.values() if isinstance(w, ast.Name)}:
                rename[loc] = self._fresh(loc, caller_names)
        # a substituted argument must not be captured by a callee local of the same name
        for p, v in mapping.items():
            for nm in _names(v):
                if nm in assigned and nm not in rename:
                    rename[nm] = self._fresh(nm, caller_names | _names(v))
        tr = _Subst(mapping, rename)
        body = [tr.visit(s) for s in body]
        gen = _has_yield(fn)
        if mode == "tail":
            if gen:
                raise Unsupported("generator returned")
            new_body = body
            return pre + new_body + ([] if self._always_returns(new_body) else [ast.copy_location(ast.Return(value=ast.Constant(value=None)), stmt)])
        if mode == "yieldfrom":
            if not gen:
                raise Unsupported("yield from a non-generator helper")

            def emit(v, node):
                return [ast.copy_location(ast.Pass(), node)]
        elif isinstance(mode, tuple) and mode[0] == "consume":
            # the generator's items are consumed at once by the caller (list(g(..)), x.extend(g(..)), for v in g(..): body): every
            # `yield E` becomes what the consumer does with one item; a bare `return` may only end the generator at its tail
            if not gen:
                raise Unsupported("consumer form on a non-generator helper")
            per_item = mode[1]
            n_yield = [0]

            def ylower(block: List[ast.stmt]) -> List[ast.stmt]:
                res: List[ast.stmt] = []
                for st in block:
                    if isinstance(st, ast.Expr) and isinstance(st.value, ast.Yield):
                        n_yield[0] += 1
                        res.extend(per_item(st.value.value if st.value.value is not None else ast.Constant(value=None), st))
                        continue
                    if any(isinstance(n, (ast.Yield, ast.YieldFrom)) for n in _walk_no_defs(st)) or isinstance(st, ast.Expr) and isinstance(st.value, ast.YieldFrom):
                        if isinstance(st, (ast.If, ast.For, ast.While, ast.With, ast.Try)):
                            for fld in ("body", "orelse", "finalbody"):
                                sub = getattr(st, fld, None)
                                if isinstance(sub, list) and sub and isinstance(sub[0], ast.stmt):
                                    setattr(st, fld, ylower(sub))
                            if isinstance(st, ast.Try):
                                for h in st.handlers:
                                    h.body = ylower(h.body)
                            if any(isinstance(n, (ast.Yield, ast.YieldFrom)) for n in _walk_no_defs(st)):
                                raise Unsupported("yield in an expression position")
                            res.append(st)
                            continue
                        raise Unsupported("yield in an expression position")
                    res.append(st)
                return res
            body = ylower(body)
            if mode[2] and n_yield[0] != 1:
                raise Unsupported("consumer body would be duplicated (several yields)")
            # returns: only a trailing bare return
            if any(isinstance(n, ast.Return) for st in body[:-1] for n in [st, *_walk_no_defs(st)]) or (
                    body and not isinstance(body[-1], ast.Return) and any(isinstance(n, ast.Return) for n in _walk_no_defs(body[-1]))):
                raise Unsupported("generator helper returns before its end")
            if body and isinstance(body[-1], ast.Return):
                body = body[:-1]
            return _relocate(pre + (body or [ast.copy_location(ast.Pass(), stmt)]), stmt)
        elif gen:
            raise Unsupported("generator helper not used by `yield from`")
        elif mode == "expr":
            def emit(v, node):
                if v is None or isinstance(v, (ast.Constant, ast.Name)):
                    return [ast.copy_location(ast.Pass(), node)]
                return [ast.copy_location(ast.Expr(value=v), node)]
        else:
            def emit(v, node):
                val = v if v is not None else ast.Constant(value=None)
                if isinstance(stmt, ast.Assign) and len(stmt.targets) == 1 and isinstance(stmt.targets[0], (ast.Tuple, ast.List)) and isinstance(val, ast.Tuple) \
                        and len(val.elts) == len(stmt.targets[0].elts) and all(isinstance(e, ast.Name) for e in stmt.targets[0].elts) \
                        and not any(isinstance(e, ast.Starred) for e in val.elts):
                    return split_parallel([e.id for e in stmt.targets[0].elts], list(val.elts), stmt.targets[0], val, node) or [ast.copy_location(ast.Pass(), node)]
                new = acopy(stmt)
                new.value = val
                return [ast.copy_location(new, node)]
        if not self._always_returns(body):
            body = body + [ast.copy_location(ast.Return(value=None), stmt)]  # falling off the end returns None
        lowered, _ = _lower_returns(body, emit)
        lowered = [s for s in lowered if not isinstance(s, ast.Pass)] or [ast.copy_location(ast.Pass(), stmt)]
        return _relocate(pre + lowered, stmt)

    @staticmethod
    def _always_returns(stmts: List[ast.stmt]) -> bool:
        if not stmts:
            return False
        s = stmts[-1]
        if isinstance(s, (ast.Return, ast.Raise)):
            return True
        if isinstance(s, ast.If) and s.orelse:
            return Inliner._always_returns(s.body) and Inliner._always_returns(s.orelse)
        if isinstance(s, ast.Try) and not s.finalbody:
            return Inliner._always_returns(s.orelse or s.body) and all(Inliner._always_returns(h.body) for h in s.handlers)
        return False

    def _fresh(self, base: str, taken: Set[str]) -> str:
        while True:
            self.counter += 1
            n = f"{base}_inl{self.counter}"
            if n not in taken:
                return n

    # ---- rewriting ------------------------------------------------------
    def _rewrite_body(self, body: List[ast.stmt], caller: ast.AST, cls: Optional[str], extras, current: Set[str], outer=(), owner=None, loop_body=False) -> Tuple[List[ast.stmt], bool]:
        changed = False
        out: List[ast.stmt] = []
        skip = 0
        for i, s in enumerate(body):
            if skip:
                skip -= 1
                continue
            if isinstance(s, (ast.FunctionDef, ast.AsyncFunctionDef, ast.ClassDef)):
                out.append(s)
                continue
            frames = [(body[i + 1:], owner, loop_body)] + list(outer)
            # nested blocks first
            for fld in ("body", "orelse", "finalbody"):
                sub = getattr(s, fld, None)
                if isinstance(sub, list) and sub and isinstance(sub[0], ast.stmt):
                    new, ch = self._rewrite_body(sub, caller, cls, extras, current, frames, s, fld == "body" and isinstance(s, (ast.For, ast.While)))
                    if ch:
                        setattr(s, fld, new)
                        changed = True
            if isinstance(s, ast.Try):
                for h in s.handlers:
                    new, ch = self._rewrite_body(h.body, caller, cls, extras, current, frames, s, False)
                    if ch:
                        h.body = new
                        changed = True
            self._frames = frames
            repl = self._rewrite_stmt(s, caller, cls, extras, current)
            if repl is None:
                out.append(s)
            else:
                # a result routed through a temporary (`t = helper(..)`; `if t is None: continue`; `a, b = t`) is threaded into the branches
                if isinstance(s, ast.Assign) and len(s.targets) == 1 and isinstance(s.targets[0], ast.Name):
                    thr = thread_temporary(repl, s.targets[0].id, body[i + 1:], caller, self.nonnull)
                    if thr is not None:
                        repl, skip = thr
                        self.log.append(f"{self.modname}: threaded temporary {s.targets[0].id} at line {s.lineno}")
                out.extend(drop_identities(repl))
                changed = True
        return out, changed

    def _rewrite_stmt(self, s: ast.stmt, caller, cls, extras, current) -> Optional[List[ast.stmt]]:
        call, mode = None, None
        if isinstance(s, ast.Assign) and isinstance(s.value, ast.Call):
            call, mode = s.value, "assign"
        elif isinstance(s, (ast.AnnAssign, ast.AugAssign)) and isinstance(s.value, ast.Call):
            call, mode = s.value, "assign"
        elif isinstance(s, ast.Expr) and isinstance(s.value, ast.Call):
            call, mode = s.value, "expr"
        elif isinstance(s, ast.Expr) and isinstance(s.value, ast.YieldFrom) and isinstance(s.value.value, ast.Call):
            call, mode = s.value.value, "yieldfrom"
        elif isinstance(s, ast.Return) and isinstance(s.value, ast.Call):
            call, mode = s.value, "tail"
        elif isinstance(s, ast.If):
            t = s.test
            neg = isinstance(t, ast.UnaryOp) and isinstance(t.op, ast.Not)
            inner = t.operand if neg else t
            if isinstance(inner, ast.Call):
                c = self._callee_of(inner, cls, extras)
                if c and c[0].name not in current and not self._is_expr_helper(c[0]):
                    tmp = self._fresh(c[0].name.strip("_") or "tmp", _names(caller))
                    asg = ast.copy_location(ast.Assign(targets=[ast.Name(id=tmp, ctx=ast.Store())], value=inner, lineno=s.lineno), s)
                    try:
                        pre = self._expand(c[0], c[1], c[2], inner, caller, asg, "assign", {tmp})
                    except Unsupported as e:
                        self.log.append(f"{self.modname}: call of {c[0].name} at line {s.lineno} not inlined: {e}")
                        return None
                    name = ast.copy_location(ast.Name(id=tmp, ctx=ast.Load()), inner)
                    s.test = ast.copy_location(ast.UnaryOp(op=ast.Not(), operand=name), t) if neg else name
                    self.log.append(f"{self.modname}: inlined {c[0].name} (condition) at line {s.lineno}")
                    return pre + [s]
        cons = self._consumer_form(s, caller, cls, extras, current)
        if cons is not None:
            return cons
        if call is not None:
            c = self._callee_of(call, cls, extras)
            if c and c[0].name not in current:
                targets: Set[str] = set()
                if isinstance(s, ast.Assign):
                    targets = _assigned(s.targets)
                elif isinstance(s, (ast.AnnAssign, ast.AugAssign)):
                    targets = _assigned(s.target)
                try:
                    new = self._expand(c[0], c[1], c[2], call, caller, s, mode, targets)
                    self.log.append(f"{self.modname}: inlined {c[0].name} ({mode}) at line {s.lineno}")
                    return new
                except Unsupported as e:
                    self.log.append(f"{self.modname}: call of {c[0].name} at line {s.lineno} not inlined: {e}")
        # expression helpers anywhere inside the statement's own expressions
        if self._subst_expr_helpers(s, cls, extras, current):
            return [s]
        return None

    def _consumer_form(self, s: ast.stmt, caller, cls, extras, current) -> Optional[List[ast.stmt]]:
        """statements that consume all items of a generator helper at once"""
        def gen_call(e):
            if isinstance(e, ast.Call):
                c = self._callee_of(e, cls, extras)
                if c and c[0].name not in current and _has_yield(c[0]):
                    return c
            return None

        def run(c, call, per_item, dup):
            try:
                new = self._expand(c[0], c[1], c[2], call, caller, s, ("consume", per_item, dup), set())
                self.log.append(f"{self.modname}: inlined generator {c[0].name} into its consumer at line {s.lineno}")
                return new
            except Unsupported as e:
                self.log.append(f"{self.modname}: generator {c[0].name} at line {s.lineno} not inlined: {e}")
                return None

        # T = list(g(..)) / return list(g(..)) / T = set(g(..)) / tuple(..)
        val = s.value if isinstance(s, (ast.Assign, ast.Return)) else None
        if isinstance(val, ast.Call) and isinstance(val.func, ast.Name) and val.func.id in ("list", "set", "tuple") and len(val.args) == 1 and not val.keywords:
            c = gen_call(val.args[0])
            if c:
                if isinstance(s, ast.Assign) and len(s.targets) == 1 and isinstance(s.targets[0], ast.Name) and val.func.id == "list" \
                        and not any(isinstance(n, ast.Name) and n.id == s.targets[0].id for n in ast.walk(val)):
                    acc = s.targets[0].id
                    tail: List[ast.stmt] = []
                else:
                    acc = self._fresh("items", _names(caller))
                    wrapped = ast.Name(id=acc, ctx=ast.Load()) if val.func.id == "list" else ast.Call(func=ast.Name(id=val.func.id, ctx=ast.Load()), args=[ast.Name(id=acc, ctx=ast.Load())], keywords=[])
                    fin = acopy(s)
                    fin.value = ast.copy_location(wrapped, val)
                    tail = [fin]
                init = ast.copy_location(ast.Assign(targets=[ast.Name(id=acc, ctx=ast.Store())], value=ast.List(elts=[], ctx=ast.Load()), lineno=s.lineno), s)

                def per_item(v, node, acc=acc):
                    return [ast.copy_location(ast.Expr(value=ast.Call(func=ast.Attribute(value=ast.Name(id=acc, ctx=ast.Load()), attr="append", ctx=ast.Load()), args=[v], keywords=[])), node)]
                new = run(c, val.args[0], per_item, False)
                if new is not None:
                    return [init] + new + tail
        # X.extend(g(..)) / X.update(g(..))
        if isinstance(s, ast.Expr) and isinstance(s.value, ast.Call) and isinstance(s.value.func, ast.Attribute) and s.value.func.attr in ("extend", "update") \
                and len(s.value.args) == 1 and not s.value.keywords and _simple(s.value.func.value):
            c = gen_call(s.value.args[0])
            if c:
                recv = s.value.func.value
                meth = "append" if s.value.func.attr == "extend" else "add"

                def per_item2(v, node, recv=recv, meth=meth):
                    return [ast.copy_location(ast.Expr(value=ast.Call(func=ast.Attribute(value=acopy(recv), attr=meth, ctx=ast.Load()), args=[v], keywords=[])), node)]
                return run(c, s.value.args[0], per_item2, False)
        # for V in g(..): BODY   (BODY without break / continue / return, one yield in g)
        if isinstance(s, ast.For) and not s.orelse:
            c = gen_call(s.iter)
            if c and not any(isinstance(n, (ast.Break, ast.Continue, ast.Return, ast.Yield, ast.YieldFrom)) for b in s.body for n in [b, *_walk_no_defs(b)]):
                tgt, loop_body = s.target, s.body

                def per_item3(v, node, tgt=tgt, loop_body=loop_body):
                    return [ast.copy_location(ast.Assign(targets=[acopy(tgt)], value=v, lineno=node.lineno), node)] + acopy(loop_body)
                return run(c, s.iter, per_item3, True)
        return None

    @staticmethod
    def _is_expr_helper(fn: ast.FunctionDef) -> bool:
        body = fn.body
        if body and isinstance(body[0], ast.Expr) and isinstance(body[0].value, ast.Constant) and isinstance(body[0].value.value, str):
            body = body[1:]
        return len(body) == 1 and isinstance(body[0], ast.Return) and body[0].value is not None and not fn.decorator_list or \
            (len(body) == 1 and isinstance(body[0], ast.Return) and body[0].value is not None and Inliner._kind(fn) in ("static", "class", "plain"))

    def _subst_expr_helpers(self, s: ast.stmt, cls, extras, current) -> bool:
        inl = self
        changed = [False]

        class T(ast.NodeTransformer):
            def visit_FunctionDef(self, node):
                return node

            visit_ClassDef = visit_AsyncFunctionDef = visit_FunctionDef

            def visit_Call(self, node: ast.Call):
                self.generic_visit(node)
                c = inl._callee_of(node, cls, extras)
                if not c or c[0].name in current or not inl._is_expr_helper(c[0]) or _has_yield(c[0]):
                    return node
                try:
                    binding = inl._bind(c[0], c[1], c[2], node)
                except Unsupported:
                    return node
                if not all(_simple(v) for v in binding.values()):
                    return node
                body = [b for b in c[0].body if isinstance(b, ast.Return)]
                expr = acopy(body[0].value)
                if any(isinstance(n, (ast.NamedExpr, ast.Lambda, ast.ListComp, ast.SetComp, ast.DictComp, ast.GeneratorExp)) for n in ast.walk(expr)):
                    # bound names inside would need renaming; keep it simple
                    if _assigned(expr) & set().union(*[_names(v) for v in binding.values()] or [set()]):
                        return node
                new = _Subst({p: v for p, v in binding.items() if not (isinstance(v, ast.Name) and v.id == p)}, {}).visit(expr)
                changed[0] = True
                inl.log.append(f"{inl.modname}: substituted expression helper {c[0].name} at line {node.lineno}")
                return _relocate([ast.copy_location(new, node)], node)[0]

        # only the statement's own expressions, not nested statement lists
        for fld, val in ast.iter_fields(s):
            if fld in ("body", "orelse", "finalbody", "handlers", "cases"):
                continue
            if isinstance(val, ast.AST):
                setattr(s, fld, T().visit(val))
            elif isinstance(val, list):
                setattr(s, fld, [T().visit(v) if isinstance(v, ast.AST) else v for v in val])
        return changed[0]

    def run(self) -> bool:
        any_change = False
        for _ in range(4):
            extras = self.extras()
            if not extras:
                break
            changed = False
            for s in self.tree.body:
                if isinstance(s, ast.FunctionDef):
                    current = {s.name}
                    new, ch = self._rewrite_body(s.body, s, None, extras, current)
                    if ch:
                        s.body = new
                        changed = True
                elif isinstance(s, ast.ClassDef):
                    for t in s.body:
                        if isinstance(t, ast.FunctionDef):
                            new, ch = self._rewrite_body(t.body, t, s.name, extras, {t.name})
                            if ch:
                                t.body = new
                                changed = True
            any_change = any_change or changed
            if not changed:
                break
        # drop extras that are no longer referenced anywhere in the module
        extras = self.extras()
        if any_change and extras:
            for (cls, name), fn in extras.items():
                refs = 0
                for n in ast.walk(self.tree):
                    if n is fn:
                        continue
                    if isinstance(n, ast.Name) and n.id == name and cls is None:
                        refs += 1
                    elif isinstance(n, ast.Attribute) and n.attr == name:
                        refs += 1
                inside = sum(1 for n in ast.walk(fn) if (isinstance(n, ast.Name) and n.id == name) or (isinstance(n, ast.Attribute) and n.attr == name))
                if refs - inside == 0 and not name.startswith("__"):
                    owner = self.tree if cls is None else next(c for c in self.tree.body if isinstance(c, ast.ClassDef) and c.name == cls)
                    owner.body = [x for x in owner.body if x is not fn]
                    self.log.append(f"{self.modname}: removed fully inlined helper {cls + '.' if cls else ''}{name}")
        if any_change:
            ast.fix_missing_locations(self.tree)
        return any_change


def referenced_elsewhere(trees: Dict[str, ast.Module], modname: str, name: str) -> bool:
    for m, t in trees.items():
        if m == modname:
            continue
        for n in ast.walk(t):
            if isinstance(n, ast.ImportFrom) and any(a.name == name for a in n.names):
                return True
            if isinstance(n, ast.Attribute) and n.attr == name:
                return True
    return False


def _literal(e: ast.AST) -> bool:
    if isinstance(e, ast.Constant):
        return isinstance(e.value, (str, int, float, bytes, bool)) or e.value is None
    if isinstance(e, ast.Tuple):
        return all(_literal(x) for x in e.elts)
    if isinstance(e, ast.UnaryOp) and isinstance(e.op, ast.USub):
        return _literal(e.operand)
    return False


RE_METHODS = {"sub", "subn", "finditer", "findall", "match", "search", "fullmatch", "split"}


def propagate_extra_constants(modname: str, tree: ast.Module) -> List[str]:
    """module-level names that are not names of the reference tree and are bound once to a literal or to
    `re.compile(<literal>[, flags])` are replaced by their value where they are used (`_RE.sub(r, t)` -> `re.sub(<literal>, r, t)`)"""
    log: List[str] = []
    cands: Dict[str, ast.AST] = {}
    counts: Dict[str, int] = {}
    for s in tree.body:
        for n in ast.walk(s):
            if isinstance(n, ast.Name) and isinstance(n.ctx, (ast.Store, ast.Del)):
                counts[n.id] = counts.get(n.id, 0) + 1
    for n in ast.walk(tree):
        if isinstance(n, (ast.Global, ast.Nonlocal)):
            for nm in n.names:
                counts[nm] = counts.get(nm, 0) + 2
    for s in tree.body:
        tgt = val = None
        if isinstance(s, ast.Assign) and len(s.targets) == 1 and isinstance(s.targets[0], ast.Name):
            tgt, val = s.targets[0].id, s.value
        elif isinstance(s, ast.AnnAssign) and isinstance(s.target, ast.Name) and s.value is not None:
            tgt, val = s.target.id, s.value
        if tgt is None or f"{modname}.{tgt}" in REFERENCE_NAMES or counts.get(tgt, 0) != 1:
            continue
        if _literal(val):
            cands[tgt] = val
        elif isinstance(val, ast.Call) and isinstance(val.func, ast.Attribute) and isinstance(val.func.value, ast.Name) and val.func.value.id == "re" \
                and val.func.attr == "compile" and val.args and _literal(val.args[0]) and all(_simple(a) for a in val.args[1:]) \
                and all(k.arg == "flags" and _simple(k.value) for k in val.keywords):
            cands[tgt] = val
    if not cands:
        return log
    # a function parameter / local of the same name shadows the constant: skip such functions
    class T(ast.NodeTransformer):
        def __init__(self):
            self.shadow: List[Set[str]] = []

        def _fn(self, node):
            bound = {a.arg for a in node.args.args + node.args.kwonlyargs + node.args.posonlyargs}
            if node.args.vararg:
                bound.add(node.args.vararg.arg)
            if node.args.kwarg:
                bound.add(node.args.kwarg.arg)
            bound |= {n.id for n in ast.walk(node) if isinstance(n, ast.Name) and isinstance(n.ctx, ast.Store)}
            self.shadow.append(bound)
            self.generic_visit(node)
            self.shadow.pop()
            return node

        visit_FunctionDef = visit_AsyncFunctionDef = visit_Lambda = _fn

        def shadowed(self, name):
            return any(name in b for b in self.shadow)

        def visit_Call(self, node: ast.Call):
            f = node.func
            if isinstance(f, ast.Attribute) and isinstance(f.value, ast.Name) and f.value.id in cands and not self.shadowed(f.value.id) \
                    and isinstance(cands[f.value.id], ast.Call) and f.attr in RE_METHODS and self.shadow:
                comp = cands[f.value.id]
                pat = acopy(comp.args[0])
                flags = comp.args[1] if len(comp.args) > 1 else next((k.value for k in comp.keywords if k.arg == "flags"), None)
                # pattern methods take pos/endpos for some calls: only the plain forms are rewritten
                plain = {"sub": (2, 3), "subn": (2, 3), "finditer": (1, 1), "findall": (1, 1), "match": (1, 1), "search": (1, 1), "fullmatch": (1, 1), "split": (1, 2)}
                lo, hi = plain[f.attr]
                if lo <= len(node.args) <= hi and all(k.arg in ("count", "maxsplit") for k in node.keywords):
                    self.generic_visit(node)
                    new = ast.Call(func=ast.copy_location(ast.Attribute(value=ast.copy_location(ast.Name(id="re", ctx=ast.Load()), f), attr=f.attr, ctx=ast.Load()), f),
                                   args=[ast.copy_location(pat, f.value)] + node.args, keywords=list(node.keywords))
                    if flags is not None:
                        new.keywords.append(ast.keyword(arg="flags", value=acopy(flags)))
                    log.append(f"{modname}: {f.value.id}.{f.attr}(..) -> re.{f.attr}(<literal>, ..) at line {node.lineno}")
                    return ast.copy_location(new, node)
            return self.generic_visit(node)

        def visit_Name(self, node: ast.Name):
            if isinstance(node.ctx, ast.Load) and node.id in cands and not isinstance(cands[node.id], ast.Call) and self.shadow and not self.shadowed(node.id):
                log.append(f"{modname}: constant {node.id} propagated at line {node.lineno}")
                return ast.copy_location(acopy(cands[node.id]), node)
            return node

    T().visit(tree)
    if log:
        ast.fix_missing_locations(tree)
    return log


def inline_extras(trees: Dict[str, ast.Module], root=None) -> List[str]:
    """trees: module name -> parsed module (modified in place).  Returns a log."""
    log: List[str] = []
    for modname, tree in trees.items():
        if modname == "test_factories":
            continue
        log.extend(propagate_extra_constants(modname, tree))
        inl = Inliner(modname, tree, root)
        # helpers used from other modules are left alone
        ex = inl.extras()
        keep_out = {k for k in ex if referenced_elsewhere(trees, modname, k[1])}
        if keep_out:
            orig = inl.extras
            inl.extras = lambda orig=orig, keep_out=keep_out: {k: v for k, v in orig().items() if k not in keep_out}  # type: ignore[assignment]
        if inl.run():
            pass
        log.extend(inl.log)
    return log
