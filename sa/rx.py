"""Regex-AST engine: Thompson NFA over a symbolic alphabet, product with an
Aho-Corasick automaton, witness reconstruction; group participation.

Patterns are parsed with the standard library's own parser (re._parser) and
only reasoned about as syntax trees -- nothing is matched against a text.
Node kinds supported are the census of the extractor patterns:
LITERAL, NOT_LITERAL, IN (LITERAL, RANGE, CATEGORY, NEGATE), ANY, BRANCH,
SUBPATTERN, MAX_REPEAT/MIN_REPEAT, AT (^ and $ only).  Anything else raises
AnalysisError (fail closed, never approximated).
"""
from __future__ import annotations

import re
import unicodedata
from collections import deque
from typing import Any, Dict, FrozenSet, Iterable, List, Optional, Sequence, Set, Tuple

import _sre

from .core import AnalysisError

try:
    import re._parser as sre_parse
    import re._constants as sre_c
    import re._casefix as casefix
except ImportError:  # pragma: no cover
    import sre_parse  # type: ignore
    import sre_constants as sre_c  # type: ignore
    casefix = None  # type: ignore

MAXREPEAT = sre_c.MAXREPEAT
EXTRA_CASES: Dict[int, Tuple[int, ...]] = getattr(casefix, "_EXTRA_CASES", {}) if casefix else {}


def parse(pattern: str, flags: int = 0):
    try:
        return sre_parse.parse(pattern, flags)
    except Exception as e:  # noqa: BLE001
        raise AnalysisError(f"pattern does not parse: {e}: {pattern[:80]!r}")


# ---------------------------------------------------------------------------
# character predicates


def _tolower(cp: int) -> int:
    return _sre.unicode_tolower(cp)


def _toupper_simple(cp: int) -> int:
    u = chr(cp).upper()
    return ord(u) if len(u) == 1 else cp


def _category(name: str, ch: str) -> bool:
    if name == "CATEGORY_DIGIT":
        return ch.isdigit() if not ch.isascii() else ch in "0123456789"
    if name == "CATEGORY_NOT_DIGIT":
        return not _category("CATEGORY_DIGIT", ch)
    if name == "CATEGORY_SPACE":
        return ch.isspace()
    if name == "CATEGORY_NOT_SPACE":
        return not ch.isspace()
    if name == "CATEGORY_WORD":
        return ch.isalnum() or ch == "_"
    if name == "CATEGORY_NOT_WORD":
        return not (ch.isalnum() or ch == "_")
    raise AnalysisError(f"unsupported character category {name}")


class Pred:
    """A character predicate: one regex atom that consumes one character."""

    __slots__ = ("kind", "data", "icase", "key", "_cache")

    def __init__(self, kind: str, data: Any, icase: bool):
        self.kind, self.data, self.icase = kind, data, icase
        self.key = (kind, repr(data), icase)
        self._cache: Dict[str, bool] = {}

    def matches(self, ch: str) -> bool:
        r = self._cache.get(ch)
        if r is None:
            r = self._m(ch)
            self._cache[ch] = r
        return r

    def _set_has(self, items, cp: int) -> bool:
        res = False
        for op, av in items:
            n = str(op)
            if n == "LITERAL":
                res = res or cp == av
            elif n == "RANGE":
                res = res or av[0] <= cp <= av[1]
            elif n == "CATEGORY":
                res = res or _category(str(av), chr(cp))
            elif n == "NEGATE":
                continue
            else:
                raise AnalysisError(f"unsupported set item {n}")
        return res

    def _expanded_has(self, items, cp: int) -> bool:
        """membership in the set after sre's IGNORECASE fix-up (each literal /
        range member is lower-cased and its extra case variants are added)."""
        for op, av in items:
            n = str(op)
            if n == "LITERAL":
                lo = _tolower(av)
                if cp == lo or cp in EXTRA_CASES.get(lo, ()):
                    return True
            elif n == "RANGE":
                # cp is in the fixed-up range iff some member maps onto it
                if av[1] - av[0] > 4096:
                    if av[0] <= cp <= av[1]:
                        return True
                    continue
                for x in range(av[0], av[1] + 1):
                    lo = _tolower(x)
                    if cp == lo or cp in EXTRA_CASES.get(lo, ()):
                        return True
            elif n == "CATEGORY":
                if _category(str(av), chr(cp)):
                    return True
            elif n == "NEGATE":
                continue
            else:
                raise AnalysisError(f"unsupported set item {n}")
        return False

    def _m(self, ch: str) -> bool:
        cp = ord(ch)
        k = self.kind
        if k == "ANY":
            return ch != "\n"
        if k == "ANY_ALL":
            return True
        if k in ("LITERAL", "NOT_LITERAL"):
            if not self.icase:
                r = cp == self.data
            else:
                lo = _tolower(self.data)
                fixes = EXTRA_CASES.get(lo)
                l = _tolower(cp)
                if fixes:
                    cs = {lo, *fixes}
                    r = l in cs or _toupper_simple(l) in cs
                else:
                    r = l == lo
            return r if k == "LITERAL" else not r
        if k == "IN":
            items = self.data
            neg = any(str(op) == "NEGATE" for op, _ in items)
            if not self.icase:
                r = self._set_has(items, cp)
            else:
                l = _tolower(cp)
                r = self._expanded_has(items, l) or self._expanded_has(items, _toupper_simple(l))
            return (not r) if neg else r
        raise AnalysisError(f"unsupported predicate {k}")

    def is_infinite(self) -> bool:
        """matches infinitely many characters (so some character outside any
        finite alphabet)."""
        if self.kind in ("ANY", "ANY_ALL", "NOT_LITERAL"):
            return True
        if self.kind == "IN":
            neg = any(str(op) == "NEGATE" for op, _ in self.data)
            has_cat = any(str(op) == "CATEGORY" for op, _ in self.data)
            return neg or has_cat
        return False

    def literal_chars(self) -> Set[str]:
        out = set()
        if self.kind in ("LITERAL", "NOT_LITERAL"):
            out.add(chr(self.data))
        elif self.kind == "IN":
            for op, av in self.data:
                n = str(op)
                if n == "LITERAL":
                    out.add(chr(av))
                elif n == "RANGE":
                    out.add(chr(av[0])); out.add(chr(av[1]))
        return out

    def __repr__(self):
        return f"<{self.kind} {self.data!r}{' i' if self.icase else ''}>"


# ---------------------------------------------------------------------------
# NFA

EPS, CH, BOL, EOL = 0, 1, 2, 3


class NFA:
    def __init__(self):
        self.edges: List[List[Tuple[int, Any, int]]] = []  # state -> [(kind, pred, target)]
        self.start = self.new()
        self.accept = -1
        self.preds: Dict[Any, Pred] = {}

    def new(self) -> int:
        self.edges.append([])
        return len(self.edges) - 1

    def add(self, a: int, kind: int, pred, b: int):
        self.edges[a].append((kind, pred, b))

    def pred(self, kind: str, data, icase: bool) -> Pred:
        p = Pred(kind, data, icase)
        q = self.preds.get(p.key)
        if q is None:
            self.preds[p.key] = p
            q = p
        return q


MAX_UNROLL = 64


def build_nfa(pattern: str, flags: int = 0) -> NFA:
    tree = parse(pattern, flags)
    icase = bool(flags & re.IGNORECASE)
    dotall = bool(flags & re.DOTALL)
    if flags & re.MULTILINE:
        raise AnalysisError("MULTILINE patterns are not supported")
    n = NFA()

    def seq(items, s: int, ic: bool) -> int:
        cur = s
        for op, av in items:
            cur = node(op, av, cur, ic)
        return cur

    def node(op, av, s: int, ic: bool) -> int:
        name = str(op)
        if name == "LITERAL" or name == "NOT_LITERAL":
            t = n.new()
            n.add(s, CH, n.pred(name, av, ic), t)
            return t
        if name == "ANY":
            t = n.new()
            n.add(s, CH, n.pred("ANY_ALL" if dotall else "ANY", None, False), t)
            return t
        if name == "IN":
            t = n.new()
            n.add(s, CH, n.pred("IN", tuple((str(o), a if not isinstance(a, list) else tuple(a)) for o, a in _norm_set(av)), ic), t)
            return t
        if name == "BRANCH":
            t = n.new()
            for alt in av[1]:
                a = n.new()
                n.add(s, EPS, None, a)
                e = seq(alt, a, ic)
                n.add(e, EPS, None, t)
            return t
        if name == "SUBPATTERN":
            group, add_flags, del_flags, p = av
            ic2 = ic
            if add_flags or del_flags:
                if add_flags & ~re.IGNORECASE or del_flags & ~re.IGNORECASE:
                    raise AnalysisError("inline flags other than (?i) are not supported")
                if add_flags & re.IGNORECASE:
                    ic2 = True
                if del_flags & re.IGNORECASE:
                    ic2 = False
            return seq(p, s, ic2)
        if name in ("MAX_REPEAT", "MIN_REPEAT", "POSSESSIVE_REPEAT"):
            lo, hi, p = av
            cur = s
            if lo > MAX_UNROLL or (hi != MAXREPEAT and hi > MAX_UNROLL):
                raise AnalysisError(f"repeat bound {lo},{hi} too large to unroll")
            for _ in range(lo):
                cur = seq(p, cur, ic)
            if hi == MAXREPEAT:
                a = n.new()
                n.add(cur, EPS, None, a)
                e = seq(p, a, ic)
                n.add(e, EPS, None, a)
                t = n.new()
                n.add(a, EPS, None, t)
                return t
            t = n.new()
            n.add(cur, EPS, None, t)
            for _ in range(hi - lo):
                nxt = seq(p, cur, ic)
                n.add(nxt, EPS, None, t)
                cur = nxt
            return t
        if name == "AT":
            a = str(av)
            t = n.new()
            if a == "AT_BEGINNING" or a == "AT_BEGINNING_STRING":
                n.add(s, BOL, None, t)
            elif a == "AT_END" or a == "AT_END_STRING":
                n.add(s, EOL, None, t)
            else:
                raise AnalysisError(f"unsupported assertion {a}")
            return t
        if name == "ATOMIC_GROUP":
            return seq(av, s, ic)
        raise AnalysisError(f"unsupported regex node {name}")

    n.accept = seq(tree, n.start, icase)
    return n


def _norm_set(av):
    return [(op, a) for op, a in av]


# ---------------------------------------------------------------------------
# Aho-Corasick


class AC:
    def __init__(self, words: Iterable[str]):
        self.goto: List[Dict[str, int]] = [{}]
        self.fail: List[int] = [0]
        self.out: List[bool] = [False]
        words = [w for w in words]
        self.words = words
        for w in words:
            if w == "":
                self.out[0] = True
                continue
            s = 0
            for ch in w:
                t = self.goto[s].get(ch)
                if t is None:
                    t = len(self.goto)
                    self.goto.append({}); self.fail.append(0); self.out.append(False)
                    self.goto[s][ch] = t
                s = t
            self.out[s] = True
        dq = deque()
        for ch, t in self.goto[0].items():
            dq.append(t)
        while dq:
            r = dq.popleft()
            for ch, u in self.goto[r].items():
                dq.append(u)
                f = self.fail[r]
                while f and ch not in self.goto[f]:
                    f = self.fail[f]
                self.fail[u] = self.goto[f].get(ch, 0) if self.goto[f].get(ch, 0) != u else 0
                self.out[u] = self.out[u] or self.out[self.fail[u]]
        self.alphabet = {ch for g in self.goto for ch in g}

    def step(self, s: int, ch: str) -> int:
        while s and ch not in self.goto[s]:
            s = self.fail[s]
        return self.goto[s].get(ch, 0)


# ---------------------------------------------------------------------------
# product search


def find_escape(nfa: NFA, ac: AC, alphabet: Sequence[str], lower: bool, max_states: int = 2_000_000):
    """Search for a string accepted by `nfa` that never drives `ac` (fed with
    the string itself, or with str.lower() of each character when `lower`)
    into a matching state.  Returns (witness | None, states, transitions)."""
    if ac.out[0]:
        return None, 0, 0
    # AC image of each alphabet character
    img: Dict[str, str] = {ch: (ch.lower() if lower else ch) for ch in alphabet}
    in_ac = [ch for ch in alphabet if any(c in ac.alphabet for c in img[ch])]
    not_in_ac = [ch for ch in alphabet if ch not in in_ac]
    # per predicate: the characters to try (all AC-relevant ones that match, plus ONE irrelevant representative)
    choice: Dict[Any, List[str]] = {}

    def chars_for(p: Pred) -> List[str]:
        c = choice.get(p.key)
        if c is None:
            c = [ch for ch in in_ac if p.matches(ch)]
            for ch in not_in_ac:
                if p.matches(ch):
                    c.append(ch)
                    break
            choice[p.key] = c
        return c

    def ac_feed(a: int, ch: str) -> Optional[int]:
        for c in img[ch]:
            a = ac.step(a, c)
            if ac.out[a]:
                return None
        return a

    start = (nfa.start, 0, 0)
    parent: Dict[Tuple[int, int, int], Tuple[Optional[Tuple[int, int, int]], str]] = {start: (None, "")}
    dq = deque([start])
    trans = 0
    while dq:
        st = dq.popleft()
        q, a, ph = st
        if q == nfa.accept:
            # reconstruct
            out = []
            cur = st
            while cur is not None:
                par, ch = parent[cur]
                out.append(ch)
                cur = par
            return "".join(reversed(out)), len(parent), trans
        for kind, pred, t in nfa.edges[q]:
            if kind == EPS:
                nxt = (t, a, ph)
                if nxt not in parent:
                    parent[nxt] = (st, ""); dq.append(nxt)
                trans += 1
            elif kind == BOL:
                if ph == 0:
                    nxt = (t, a, 0)
                    if nxt not in parent:
                        parent[nxt] = (st, ""); dq.append(nxt)
                    trans += 1
            elif kind == EOL:
                nxt = (t, a, 2)
                if nxt not in parent:
                    parent[nxt] = (st, ""); dq.append(nxt)
                trans += 1
            else:
                if ph == 2:
                    continue
                for ch in chars_for(pred):
                    a2 = ac_feed(a, ch)
                    trans += 1
                    if a2 is None:
                        continue
                    nxt = (t, a2, 1)
                    if nxt not in parent:
                        parent[nxt] = (st, ch); dq.append(nxt)
        if len(parent) > max_states:
            raise AnalysisError("product automaton exceeds the state budget")
    return None, len(parent), trans


# ---------------------------------------------------------------------------
# alphabets

GENERIC_REPS = [
    "\u00e9",  # Ll  e-acute
    "\u00c9",  # Lu  E-acute
    "\u0663",  # Nd  Arabic-Indic digit three
    "\u00a0",  # Zs  no-break space
    "\u2028",  # Zl  line separator
    "\u4e2d",  # Lo  CJK
    "\u0301",  # Mn  combining acute
    "\u201c",  # Pi  left double quotation mark
    "\u2014",  # Pd  em dash
    "\u20ac",  # Sc  euro sign
    "\u00b2",  # No  superscript two
    "\u00df",  # Ll  sharp s
    "\u0085",  # Cc  NEL
    "\U0001d7d8",  # Nd  mathematical double-struck digit zero
]

ASCII = [chr(i) for i in range(128)]

_FOLD_CACHE: Dict[str, List[str]] = {}


def fold_class(ch: str) -> List[str]:
    """All characters that a literal `ch` matches under re.IGNORECASE."""
    r = _FOLD_CACHE.get(ch)
    if r is None:
        p = Pred("LITERAL", ord(ch), True)
        lo = _tolower(ord(ch))
        cands = {lo, ord(ch), _toupper_simple(lo), *EXTRA_CASES.get(lo, ())}
        # every code point whose lower is in the candidate set
        if not hasattr(fold_class, "_by_lower"):
            by: Dict[int, List[int]] = {}
            for cp in range(0x110000):
                if 0xD800 <= cp <= 0xDFFF:
                    continue
                l = _tolower(cp)
                if l != cp:
                    by.setdefault(l, []).append(cp)
            fold_class._by_lower = by  # type: ignore[attr-defined]
        by = fold_class._by_lower  # type: ignore[attr-defined]
        more = set(cands)
        for c in list(cands):
            more.update(by.get(c, ()))
            more.update(by.get(_tolower(c), ()))
        r = sorted(chr(c) for c in more if p.matches(chr(c)))
        _FOLD_CACHE[ch] = r
    return r


# ---------------------------------------------------------------------------
# group participation


def group_info(pattern: str, flags: int = 0) -> Dict[str, Any]:
    """named groups, and for each group (name or index) whether it must
    participate in every successful match."""
    tree = parse(pattern, flags)
    names = dict(tree.state.groupdict)
    must: Set[int] = set()
    may: Set[int] = set()

    def walk(items, certain: bool):
        for op, av in items:
            n = str(op)
            if n == "SUBPATTERN":
                g, _, _, p = av
                if g is not None:
                    (must if certain else may).add(g)
                walk(p, certain)
            elif n == "BRANCH":
                # a group is certain only if it is certain in every alternative
                per = []
                for alt in av[1]:
                    m2, y2 = set(), set()
                    _collect(alt, True, m2, y2)
                    per.append((m2, y2))
                common = set.intersection(*[m for m, _ in per]) if per else set()
                allg = set().union(*[m | y for m, y in per]) if per else set()
                for g in allg:
                    if g in common and certain:
                        must.add(g)
                    else:
                        may.add(g)
            elif n in ("MAX_REPEAT", "MIN_REPEAT", "POSSESSIVE_REPEAT"):
                lo, hi, p = av
                walk(p, certain and lo >= 1)
            elif n in ("ASSERT", "ASSERT_NOT"):
                walk(av[1], False if n == "ASSERT_NOT" else certain)
            elif n == "ATOMIC_GROUP":
                walk(av, certain)

    def _collect(items, certain, m2, y2):
        for op, av in items:
            n = str(op)
            if n == "SUBPATTERN":
                g, _, _, p = av
                if g is not None:
                    (m2 if certain else y2).add(g)
                _collect(p, certain, m2, y2)
            elif n == "BRANCH":
                per = []
                for alt in av[1]:
                    a, b = set(), set()
                    _collect(alt, True, a, b)
                    per.append((a, b))
                common = set.intersection(*[a for a, _ in per]) if per else set()
                allg = set().union(*[a | b for a, b in per]) if per else set()
                for g in allg:
                    if g in common and certain:
                        m2.add(g)
                    else:
                        y2.add(g)
            elif n in ("MAX_REPEAT", "MIN_REPEAT", "POSSESSIVE_REPEAT"):
                lo, hi, p = av
                _collect(p, certain and lo >= 1, m2, y2)
            elif n in ("ASSERT", "ASSERT_NOT"):
                _collect(av[1], False if n == "ASSERT_NOT" else certain, m2, y2)
            elif n == "ATOMIC_GROUP":
                _collect(av, certain, m2, y2)

    walk(tree, True)
    may -= must
    return {"names": names, "must": must, "may": may, "groups": tree.state.groups - 1}


def find_containing(nfa: NFA, word: str, alphabet: Sequence[str], lower: bool = False, max_states: int = 500_000):
    """Search for a string accepted by `nfa` that CONTAINS `word` (fed through
    str.lower() per character when `lower`).  Returns (witness | None, states)."""
    ac = AC([word])
    img: Dict[str, str] = {ch: (ch.lower() if lower else ch) for ch in alphabet}
    relevant = [ch for ch in alphabet if any(c in ac.alphabet for c in img[ch])]
    other = [ch for ch in alphabet if ch not in relevant]
    choice: Dict[Any, List[str]] = {}

    def chars_for(p: Pred) -> List[str]:
        c = choice.get(p.key)
        if c is None:
            c = [ch for ch in relevant if p.matches(ch)]
            for ch in other:
                if p.matches(ch):
                    c.append(ch)
                    break
            choice[p.key] = c
        return c

    start = (nfa.start, 0, 0, False)
    parent = {start: (None, "")}
    dq = deque([start])
    while dq:
        st = dq.popleft()
        q, a, ph, seen = st
        if q == nfa.accept and seen:
            out = []
            cur = st
            while cur is not None:
                par, ch = parent[cur]
                out.append(ch)
                cur = par
            return "".join(reversed(out)), len(parent)
        for kind, pred, t in nfa.edges[q]:
            if kind == EPS:
                nxt = (t, a, ph, seen)
            elif kind == BOL:
                if ph != 0:
                    continue
                nxt = (t, a, 0, seen)
            elif kind == EOL:
                nxt = (t, a, 2, seen)
            else:
                if ph == 2:
                    continue
                for ch in chars_for(pred):
                    a2, s2 = a, seen
                    for c in img[ch]:
                        a2 = ac.step(a2, c)
                        if ac.out[a2]:
                            s2 = True
                    nxt = (t, a2 if not s2 else 0, 1, s2)
                    if nxt not in parent:
                        parent[nxt] = (st, ch)
                        dq.append(nxt)
                continue
            if nxt not in parent:
                parent[nxt] = (st, "")
                dq.append(nxt)
        if len(parent) > max_states:
            raise AnalysisError("product automaton exceeds the state budget")
    return None, len(parent)


def find_not_included(a: NFA, b: NFA, alphabet: Sequence[str], max_states: int = 300_000):
    """A string accepted (as a whole) by `a` but not by `b`, or None: L(a) <= L(b) over the given alphabet (one
    representative per behaviour class is enough; callers pass the literal characters of both patterns plus
    representatives of everything else).  Subset construction of b on the fly; anchors are not supported."""
    def closure(n: NFA, states) -> frozenset:
        seen = set(states)
        todo = list(states)
        while todo:
            q = todo.pop()
            for kind, pred, t in n.edges[q]:
                if kind == EPS and t not in seen:
                    seen.add(t)
                    todo.append(t)
                elif kind in (BOL, EOL):
                    raise AnalysisError("anchors are not supported in inclusion checks")
        return frozenset(seen)

    def step(n: NFA, states, ch: str) -> frozenset:
        out = set()
        for q in states:
            for kind, pred, t in n.edges[q]:
                if kind == CH and pred.matches(ch):
                    out.add(t)
        return closure(n, out)

    start = (closure(a, [a.start]), closure(b, [b.start]))
    parent = {start: (None, "")}
    dq = deque([start])
    while dq:
        st = dq.popleft()
        sa, sb = st
        if a.accept in sa and b.accept not in sb:
            out = []
            cur = st
            while cur is not None:
                par, ch = parent[cur]
                out.append(ch)
                cur = par
            return "".join(reversed(out))
        for ch in alphabet:
            na = step(a, sa, ch)
            if not na:
                continue
            nxt = (na, step(b, sb, ch))
            if nxt not in parent:
                parent[nxt] = (st, ch)
                dq.append(nxt)
        if len(parent) > max_states:
            raise AnalysisError("inclusion product exceeds the state budget")
    return None


def group_starts_match(pattern: str, flags: int, name: str) -> Optional[bool]:
    """True iff in every match of `pattern` in which group `name` participates, the group begins where the match begins -- i.e. every
    item that precedes it on the way down the syntax tree can only match the empty string (width 0..0: anchors, look-arounds, empty
    alternatives).  None when the group does not exist.  Syntactic: a preceding item that *can* consume characters counts as "no"."""
    tree = parse(pattern, flags)
    gid = tree.state.groupdict.get(name)
    if gid is None:
        return None

    def contains(items) -> bool:
        for op, av in items:
            o = str(op)
            if o == "SUBPATTERN":
                if av[0] == gid or contains(av[3]):
                    return True
            elif o == "BRANCH":
                if any(contains(alt) for alt in av[1]):
                    return True
            elif o in ("MAX_REPEAT", "MIN_REPEAT", "POSSESSIVE_REPEAT"):
                if contains(av[2]):
                    return True
            elif o in ("ASSERT", "ASSERT_NOT"):
                if contains(av[1]):
                    return True
            elif o == "ATOMIC_GROUP":
                if contains(av):
                    return True
            elif o == "GROUPREF_EXISTS":
                if (av[1] is not None and contains(av[1])) or (av[2] is not None and contains(av[2])):
                    return True
        return False

    import re._parser as _p

    def empty_only(item) -> bool:
        sp = _p.SubPattern(tree.state, [item])
        lo, hi = sp.getwidth()
        return hi == 0

    def walk(items) -> bool:
        for i, (op, av) in enumerate(items):
            if not contains([(op, av)]):
                continue
            if not all(empty_only(x) for x in list(items)[:i]):
                return False
            o = str(op)
            if o == "SUBPATTERN":
                return True if av[0] == gid else walk(av[3])
            if o == "BRANCH":
                return all(walk(alt) for alt in av[1] if contains(alt))
            if o in ("MAX_REPEAT", "MIN_REPEAT", "POSSESSIVE_REPEAT"):
                # a second iteration would start after the first: only a repeat of at most one iteration keeps the group at the start
                return av[1] <= 1 and walk(av[2])
            if o == "ATOMIC_GROUP":
                return walk(av)
            return False
        return False

    return walk(tree)


# ---------------------------------------------------------------------------
# character-level summaries of a pattern, computed on the syntax tree (assertions consume nothing and are skipped)

PROBE = [chr(c) for c in range(32, 127)] + ["\n", "\t", "\r", "\x0b", "\x0c", "\x1c", "\x1f", "\xa0", "–", "—", "’", "“", "\xa7", "\xb6", "\xe9", "١", "１", " "]


def _leaf_pred(name: str, av, icase: bool, dotall: bool) -> Optional[Pred]:
    if name in ("LITERAL", "NOT_LITERAL"):
        return Pred(name, av, icase)
    if name == "ANY":
        return Pred("ANY_ALL" if dotall else "ANY", None, False)
    if name == "IN":
        return Pred("IN", tuple((str(o), a if not isinstance(a, list) else tuple(a)) for o, a in _norm_set(av)), icase)
    return None


def _tree_nullable(items) -> bool:
    for op, av in items:
        n = str(op)
        if n in ("LITERAL", "NOT_LITERAL", "IN", "ANY"):
            return False
        if n == "SUBPATTERN" and not _tree_nullable(av[3]):
            return False
        if n == "ATOMIC_GROUP" and not _tree_nullable(av):
            return False
        if n == "BRANCH" and not any(_tree_nullable(b) for b in av[1]):
            return False
        if n in ("MAX_REPEAT", "MIN_REPEAT", "POSSESSIVE_REPEAT") and av[0] > 0 and not _tree_nullable(av[2]):
            return False
        if n == "GROUPREF":
            return False  # conservative for first-sets: treated as opaque, non-empty
    return True


def _walk_leaves(items, icase: bool, dotall: bool, first_only: bool, out: List[Pred]):
    """collect the consuming leaves of `items` (all of them, or only those that can consume the first character of a match)"""
    for op, av in items:
        n = str(op)
        p = _leaf_pred(n, av, icase, dotall)
        if p is not None:
            out.append(p)
        elif n == "SUBPATTERN":
            ic = icase
            if av[1] & re.IGNORECASE:
                ic = True
            if av[2] & re.IGNORECASE:
                ic = False
            _walk_leaves(av[3], ic, dotall, first_only, out)
        elif n == "ATOMIC_GROUP":
            _walk_leaves(av, icase, dotall, first_only, out)
        elif n == "BRANCH":
            for b in av[1]:
                _walk_leaves(b, icase, dotall, first_only, out)
        elif n in ("MAX_REPEAT", "MIN_REPEAT", "POSSESSIVE_REPEAT"):
            _walk_leaves(av[2], icase, dotall, first_only, out)
        elif n in ("AT", "ASSERT", "ASSERT_NOT", "GROUPREF", "GROUPREF_EXISTS"):
            if n == "GROUPREF_EXISTS":
                for b in av[1:]:
                    if b:
                        _walk_leaves(b, icase, dotall, first_only, out)
        else:
            raise AnalysisError(f"unsupported regex node {n}")
        if first_only and not _tree_nullable([(op, av)]):
            return


def alphabet(pattern: str, flags: int = 0, probe: Sequence[str] = PROBE) -> Set[str]:
    """the probe characters some consuming atom of the pattern accepts (an over-approximation of the characters a match can contain)"""
    out: List[Pred] = []
    _walk_leaves(parse(pattern, flags), bool(flags & re.IGNORECASE), bool(flags & re.DOTALL), False, out)
    return {c for c in probe if any(p.matches(c) for p in out)}


def first_chars(pattern: str, flags: int = 0, probe: Sequence[str] = PROBE) -> Set[str]:
    """the probe characters with which a non-empty match of the pattern can begin"""
    out: List[Pred] = []
    _walk_leaves(parse(pattern, flags), bool(flags & re.IGNORECASE), bool(flags & re.DOTALL), True, out)
    return {c for c in probe if any(p.matches(c) for p in out)}


def top_branches(pattern: str, flags: int = 0) -> List[Any]:
    """the alternatives of the pattern's outermost alternation (through non-capturing / capturing group wrappers); [tree] if there is none"""
    t = list(parse(pattern, flags))
    while len(t) == 1 and str(t[0][0]) in ("SUBPATTERN", "ATOMIC_GROUP"):
        t = list(t[0][1][3] if str(t[0][0]) == "SUBPATTERN" else t[0][1])
    if len(t) == 1 and str(t[0][0]) == "BRANCH":
        return [list(b) for b in t[0][1][1]]
    return [t]


def tree_alphabet(items, icase: bool = False, probe: Sequence[str] = PROBE) -> Set[str]:
    out: List[Pred] = []
    _walk_leaves(items, icase, False, False, out)
    return {c for c in probe if any(p.matches(c) for p in out)}
