"""Core of the static analyser: source loader, class hierarchy, obligation
bookkeeping, known findings, evidence writer.

Everything here reads source with `ast`; nothing from the analysed tree is
imported or executed by this module.
"""
from __future__ import annotations

import ast
import hashlib
import json
import os
import re
import sys
import time
from pathlib import Path
from typing import Any, Dict, Iterable, Iterator, List, Optional, Tuple

VERIF = Path(__file__).resolve().parent.parent
PKG = "eyecite"
MODULE_NAMES = [
    "__init__",
    "annotate",
    "clean",
    "find",
    "helpers",
    "models",
    "regexes",
    "resolve",
    "test_factories",
    "tokenizers",
    "utils",
]


class AnalysisError(Exception):
    """The tree cannot be analysed (anchor missing, unknown construct in a
    tracked region, tool failure).  Exit code 2, never a verdict."""


def order_index(root: ast.AST) -> Dict[int, int]:
    """id(node) -> position in a pre-order walk: the order in which the code is written *now* (line numbers do not give it once
    helpers have been inlined: inlined code carries the line of the call it replaced)"""
    out: Dict[int, int] = {}
    stack = [root]
    while stack:
        n = stack.pop()
        out[id(n)] = len(out)
        stack.extend(reversed(list(ast.iter_child_nodes(n))))
    return out


def acopy(node):
    """copy of an ast subtree (or list of nodes) that does not drag the rest of the module along: only syntax fields and position
    attributes are copied; `parent` links are rebuilt inside the copy and the copy's root keeps the original's parent"""
    if isinstance(node, list):
        return [acopy(x) for x in node]
    if not isinstance(node, ast.AST):
        return node

    def rec(n, parent):
        new = n.__class__.__new__(n.__class__)
        for f in n._fields:
            if not hasattr(n, f):
                continue
            v = getattr(n, f)
            if isinstance(v, list):
                setattr(new, f, [rec(x, new) if isinstance(x, ast.AST) else x for x in v])
            elif isinstance(v, ast.AST):
                setattr(new, f, rec(v, new))
            else:
                setattr(new, f, v)
        for a in n._attributes:
            if hasattr(n, a):
                setattr(new, a, getattr(n, a))
        for k, v in getattr(n, "__dict__", {}).items():
            if k not in n._fields and k not in n._attributes and k != "parent" and not hasattr(new, k):
                try:
                    setattr(new, k, v)
                except Exception:  # noqa: BLE001
                    pass
        if parent is not None:
            new.parent = parent
        return new

    out = rec(node, None)
    if hasattr(node, "parent"):
        out.parent = node.parent
    return out


def norm(node: ast.AST | str) -> str:
    """Whitespace-normalised source text of a node (the key of a construct)."""
    s = node if isinstance(node, str) else ast.unparse(node)
    return re.sub(r"\s+", " ", s).strip()


def set_parents(tree: ast.AST) -> None:
    for n in ast.walk(tree):
        for c in ast.iter_child_nodes(n):
            c.parent = n  # type: ignore[attr-defined]


def walk_local(node: ast.AST, include_lambda: bool = True) -> Iterator[ast.AST]:
    """ast.walk that does not descend into nested def/class bodies."""
    todo = list(ast.iter_child_nodes(node))
    while todo:
        n = todo.pop()
        yield n
        if isinstance(n, (ast.FunctionDef, ast.AsyncFunctionDef, ast.ClassDef)):
            continue
        if isinstance(n, ast.Lambda) and not include_lambda:
            continue
        todo.extend(ast.iter_child_nodes(n))


def stmts_local(body: List[ast.stmt]) -> Iterator[ast.stmt]:
    """All statements of a body, recursively, not entering nested defs."""
    for s in body:
        yield s
        for fld in ("body", "orelse", "finalbody"):
            sub = getattr(s, fld, None)
            if sub and not isinstance(s, (ast.FunctionDef, ast.ClassDef, ast.AsyncFunctionDef)):
                yield from stmts_local(sub)
        if isinstance(s, ast.Try):
            for h in s.handlers:
                yield from stmts_local(h.body)
        if isinstance(s, ast.Match):
            for c in s.cases:
                yield from stmts_local(c.body)


def is_inert(s: ast.stmt) -> bool:
    """docstrings, `pass`, and logging / print calls: statements that cannot
    change what a rule reasons about"""
    if isinstance(s, ast.Pass):
        return True
    if isinstance(s, ast.Expr):
        v = s.value
        if isinstance(v, ast.Constant):
            return True
        if isinstance(v, ast.Call):
            d = ast.unparse(v.func)
            if d.split(".")[0] in ("logging", "logger", "log", "warnings", "print") or d.startswith(("logging.", "logger.")) \
                    or re.search(r"getLogger\([^)]*\)\.(debug|info|warning|error|exception|critical)$", d):
                return True
    return False


def effective_body(fn: ast.AST) -> List[ast.stmt]:
    return [s for s in fn.body if not is_inert(s)]


def names_in(node: ast.AST) -> set:
    return {n.id for n in ast.walk(node) if isinstance(n, ast.Name)}


def assigned_names(node: ast.AST) -> set:
    """Names bound anywhere inside node (assign, augassign, for target, with
    as, walrus, except as, import)."""
    out = set()
    for n in ast.walk(node):
        if isinstance(n, ast.Name) and isinstance(n.ctx, (ast.Store, ast.Del)):
            out.add(n.id)
        elif isinstance(n, ast.ExceptHandler) and n.name:
            out.add(n.name)
        elif isinstance(n, (ast.Import, ast.ImportFrom)):
            for a in n.names:
                out.add((a.asname or a.name).split(".")[0])
    return out


def dotted(node: ast.AST) -> Optional[str]:
    """'a.b.c' for Name/Attribute chains, else None."""
    parts = []
    while isinstance(node, ast.Attribute):
        parts.append(node.attr)
        node = node.value
    if isinstance(node, ast.Name):
        parts.append(node.id)
        return ".".join(reversed(parts))
    return None


def presence_test(cond: ast.AST, outcome: bool = True) -> Optional[Tuple[str, bool]]:
    """(text of X, X is present) for the atomic tests `X`, `not X`, `X is None`, `X is not None`, `X == None`, `X != None`,
    `bool(X)` taken with the given outcome; None for anything else.  'present' = truthy for the bare form, not-None for the
    identity forms -- callers use it for Optional objects, where the two coincide."""
    if isinstance(cond, ast.UnaryOp) and isinstance(cond.op, ast.Not):
        r = presence_test(cond.operand, outcome)
        return (r[0], not r[1]) if r else None
    if isinstance(cond, ast.Compare) and len(cond.ops) == 1 and isinstance(cond.comparators[0], ast.Constant) and cond.comparators[0].value is None:
        if isinstance(cond.ops[0], (ast.Is, ast.Eq)):
            return norm(cond.left), not outcome
        if isinstance(cond.ops[0], (ast.IsNot, ast.NotEq)):
            return norm(cond.left), outcome
        return None
    if isinstance(cond, ast.Call) and dotted(cond.func) == "bool" and len(cond.args) == 1:
        return norm(cond.args[0]), outcome
    if isinstance(cond, (ast.Name, ast.Attribute, ast.Subscript)):
        return norm(cond), outcome
    return None


def eval_bool(e: ast.AST, env: Dict[str, bool]) -> Optional[bool]:
    """truth value of a condition built from and / or / not over atoms whose presence (see presence_test) is given by env"""
    if isinstance(e, ast.BoolOp):
        vals = [eval_bool(v, env) for v in e.values]
        if isinstance(e.op, ast.And):
            if any(v is False for v in vals):
                return False
            return None if any(v is None for v in vals) else True
        if any(v is True for v in vals):
            return True
        return None if any(v is None for v in vals) else False
    if isinstance(e, ast.UnaryOp) and isinstance(e.op, ast.Not):
        v = eval_bool(e.operand, env)
        return None if v is None else not v
    t = norm(e)
    if t in env:
        return env[t]
    pt = presence_test(e, True)
    if pt and pt[0] in env:
        return env[pt[0]] == pt[1]
    return None


def filter_semantics(fn: ast.AST, atoms: List[str]) -> Optional[Dict[Tuple[bool, ...], bool]]:
    """fn returns an order-preserving sub-sequence of its first parameter, either `return [v for v in P if C]` or
    `out = []; for v in P: ...; out.append(v) ...; return out`.  Returns, for every truth assignment of the atoms (texts with
    `{v}` standing for the element), whether the element is kept; None if fn has neither form or an unknown atom decides."""
    import itertools

    from .paths import enumerate_paths

    P = fn.args.args[0].arg
    rets = [r for r in walk_local(fn) if isinstance(r, ast.Return)]
    if len(rets) != 1 or rets[0].value is None:
        return None
    rv = rets[0].value
    table: Dict[Tuple[bool, ...], bool] = {}
    if isinstance(rv, ast.Name):
        ds = [x for x in stmts_local(fn.body) if rv.id in assigned_names(x) and not isinstance(x, (ast.If, ast.For, ast.While, ast.Try, ast.With))]
        if len(ds) == 1 and isinstance(ds[0], ast.Assign) and isinstance(ds[0].value, ast.ListComp) and ds[0] in fn.body \
                and not any(isinstance(n, ast.Name) and n.id == rv.id and n is not rv and n not in ds[0].targets for n in walk_local(fn)):
            rv = ds[0].value
    if isinstance(rv, ast.ListComp) and len(rv.generators) == 1 and norm(rv.generators[0].iter) == P and norm(rv.elt) == norm(rv.generators[0].target):
        v = norm(rv.generators[0].target)
        cond = ast.BoolOp(op=ast.And(), values=list(rv.generators[0].ifs)) if len(rv.generators[0].ifs) > 1 else (rv.generators[0].ifs[0] if rv.generators[0].ifs else None)
        for combo in itertools.product([False, True], repeat=len(atoms)):
            env = {a.replace("{v}", v): b for a, b in zip(atoms, combo)}
            r = True if cond is None else eval_bool(cond, env)
            if r is None:
                return None
            table[combo] = r
        return table
    if isinstance(rv, ast.Name):
        out = rv.id
        loops = [s for s in fn.body if isinstance(s, ast.For) and norm(s.iter) == P and isinstance(s.target, ast.Name)]
        inits = [s for s in fn.body if isinstance(s, ast.Assign) and norm(s.targets[0]) == out and norm(s.value) in ("[]", "list()")]
        if len(loops) != 1 or len(inits) != 1 or rets[0] not in fn.body:
            return None
        loop = loops[0]
        v = loop.target.id
        # the output list is touched only by `out.append(v)` inside the loop
        for n in walk_local(fn):
            if isinstance(n, ast.Name) and n.id == out and n is not rv and not (isinstance(n.ctx, ast.Store) and n.parent is inits[0]):
                par = n.parent
                if not (isinstance(par, ast.Attribute) and par.attr == "append" and isinstance(par.parent, ast.Call) and len(par.parent.args) == 1
                        and norm(par.parent.args[0]) == v and loop.lineno <= n.lineno <= loop.end_lineno):
                    return None
        if v in {x for s in stmts_local(loop.body) for x in assigned_names(s)} or loop.orelse:
            return None
        # the loop may do nothing but decide and append: any other statement (a call on the element, a store) could change what the atoms
        # say about the element between the test and the append -- then this is no longer a pure filter
        for st in stmts_local(loop.body):
            if isinstance(st, (ast.If, ast.Pass, ast.Continue)):
                continue
            if isinstance(st, ast.Expr) and isinstance(st.value, ast.Call):
                fx = norm(st.value.func)
                if fx == f"{out}.append" or fx.split(".")[0] in ("logger", "logging", "log"):
                    continue
            if isinstance(st, ast.Expr) and isinstance(st.value, ast.Constant):
                continue
            return None
        paths = enumerate_paths(loop.body)
        for combo in itertools.product([False, True], repeat=len(atoms)):
            env = {a.replace("{v}", v): b for a, b in zip(atoms, combo)}
            kept = set()
            for p in paths:
                consistent = True
                for ev in p.events:
                    if ev[0] == "cond":
                        r = eval_bool(ev[1], env)
                        if r is None:
                            return None
                        if r != ev[2]:
                            consistent = False
                            break
                if not consistent:
                    continue
                if p.exit not in ("fall", "continue"):
                    return None
                n_app = sum(1 for ev in p.events if ev[0] == "stmt" and isinstance(ev[1], ast.Expr) and isinstance(ev[1].value, ast.Call)
                            and norm(ev[1].value.func) == f"{out}.append")
                if n_app > 1:
                    return None
                kept.add(n_app == 1)
            if len(kept) != 1:
                return None
            table[combo] = kept.pop()
        return table
    return None


class Locals:
    """Forward substitution of single-definition locals, so that a rule can compare the *expanded* form of an expression:
    `off = c.span()[-1]; text[off:]` reads as `text[c.span()[-1]:]`.  A name is substituted only if it is bound exactly once
    in the function (a plain `name = expr`, not a parameter / loop target / unpacking) and no free name of its definition is
    re-bound between the definition and the use (or anywhere in a loop that contains the use but not the definition)."""

    def __init__(self, fn: ast.AST):
        self.fn = fn
        counts: Dict[str, int] = {}
        self.defs: Dict[str, ast.Assign] = {}
        self.bindings: Dict[str, List[ast.stmt]] = {}
        params = {a.arg for a in fn.args.args + fn.args.kwonlyargs} if hasattr(fn, "args") else set()
        for s in stmts_local(fn.body):
            if not isinstance(s, (ast.FunctionDef, ast.AsyncFunctionDef, ast.ClassDef, ast.If, ast.While, ast.For, ast.Try, ast.With, ast.Match)):
                for n in assigned_names(s):
                    counts[n] = counts.get(n, 0) + 1
                    self.bindings.setdefault(n, []).append(s)
            elif isinstance(s, (ast.If, ast.While)):
                for n in assigned_names(s.test):  # walrus
                    counts[n] = counts.get(n, 0) + 1
                    self.bindings.setdefault(n, []).append(s)
            if isinstance(s, ast.Try):
                for h in s.handlers:
                    if h.name:
                        counts[h.name] = counts.get(h.name, 0) + 1
                        self.bindings.setdefault(h.name, []).append(s)
            if isinstance(s, ast.For):
                for n in assigned_names(s.target):
                    counts[n] = counts.get(n, 0) + 1
                    self.bindings.setdefault(n, []).append(s)
            if isinstance(s, ast.With):
                for it in s.items:
                    if it.optional_vars is not None:
                        for n in assigned_names(it.optional_vars):
                            counts[n] = counts.get(n, 0) + 1
                            self.bindings.setdefault(n, []).append(s)
            if isinstance(s, ast.Assign) and len(s.targets) == 1 and isinstance(s.targets[0], ast.Name):
                self.defs[s.targets[0].id] = s
        for n in list(self.defs):
            if counts.get(n, 0) != 1 or n in params:
                del self.defs[n]

    def _stable(self, d: ast.Assign, use: ast.AST) -> bool:
        ul = getattr(use, "lineno", None)
        if ul is None:
            return False
        loops_use = []
        cur = use
        while cur is not None and cur is not self.fn:
            cur = getattr(cur, "parent", None)
            if isinstance(cur, (ast.For, ast.While)):
                loops_use.append(cur)
        loops_def = []
        cur = d
        while cur is not None and cur is not self.fn:
            cur = getattr(cur, "parent", None)
            if isinstance(cur, (ast.For, ast.While)):
                loops_def.append(cur)
        only_use = [l for l in loops_use if l not in loops_def]
        # positions in the code as it is written now (inlined statements all carry the line of the call they replaced)
        if not hasattr(self, "_oi"):
            self._oi = order_index(self.fn)
        oi = self._oi
        if id(use) in oi and id(d) in oi:
            def inside(node, loop):
                cur_ = node
                while cur_ is not None and cur_ is not self.fn:
                    if cur_ is loop:
                        return True
                    cur_ = getattr(cur_, "parent", None)
                return False

            for n in names_in(d.value):
                for b in self.bindings.get(n, []):
                    if b is d or id(b) not in oi:
                        continue
                    if oi[id(d)] < oi[id(b)] <= oi[id(use)]:
                        return False
                    if any(inside(b, l) for l in only_use):
                        return False
            return oi[id(d)] < oi[id(use)] or bool(loops_def)
        for n in names_in(d.value):
            for b in self.bindings.get(n, []):
                if b is d:
                    continue
                if d.lineno < b.lineno <= ul:
                    return False
                if any(l.lineno <= b.lineno <= l.end_lineno for l in only_use):
                    return False
        return d.lineno < ul or bool(loops_def)

    def expand(self, e: ast.AST, at: Optional[ast.AST] = None, depth: int = 5, stop: Iterable[str] = ()) -> ast.AST:
        import copy as _copy

        at = at if at is not None else e
        loc = self

        class T(ast.NodeTransformer):
            def visit_Name(self, node: ast.Name):
                if isinstance(node.ctx, ast.Load) and node.id in loc.defs and node.id not in stop and depth > 0 and loc._stable(loc.defs[node.id], at):
                    return loc.expand(acopy(loc.defs[node.id].value), at, depth - 1, stop)
                return node

            def visit_Lambda(self, node):
                return node

        new = T().visit(acopy(e))
        return new

    def text(self, e: ast.AST, at: Optional[ast.AST] = None, stop: Iterable[str] = ()) -> str:
        return norm(self.expand(e, at, stop=stop))


def call_name(call: ast.Call) -> Optional[str]:
    return dotted(call.func)


def const_str(node: ast.AST) -> Optional[str]:
    if isinstance(node, ast.Constant) and isinstance(node.value, str):
        return node.value
    return None


class Module:
    def __init__(self, name: str, path: Path):
        self.name = name
        self.path = path
        self.src = path.read_text(encoding="utf8")
        self.sha256 = hashlib.sha256(self.src.encode("utf8")).hexdigest()
        try:
            self.tree = ast.parse(self.src, filename=str(path))
        except SyntaxError as e:  # pragma: no cover
            raise AnalysisError(f"{path}: syntax error: {e}")
        from .canon import canonicalise

        if not os.environ.get("SA_NO_CANON"):
            canonicalise(self.tree)  # equivalent spellings -> one form (sa/canon.py)
        set_parents(self.tree)
        self.imports: Dict[str, str] = {}  # local name -> dotted origin
        for n in ast.walk(self.tree):
            if isinstance(n, ast.ImportFrom) and n.module:
                for a in n.names:
                    self.imports[a.asname or a.name] = f"{n.module}.{a.name}"
            elif isinstance(n, ast.Import):
                for a in n.names:
                    self.imports[a.asname or a.name.split(".")[0]] = a.name

    def rel(self) -> str:
        return f"{PKG}/{self.path.name}"

    def toplevel_assign(self, name: str) -> Optional[ast.AST]:
        for s in self.tree.body:
            if isinstance(s, ast.Assign):
                for t in s.targets:
                    if isinstance(t, ast.Name) and t.id == name:
                        return s.value
            elif isinstance(s, ast.AnnAssign) and isinstance(s.target, ast.Name):
                if s.target.id == name and s.value is not None:
                    return s.value
        return None


class ClassInfo:
    def __init__(self, qual: str, node: ast.ClassDef, module: Module, outer: Optional[str]):
        self.qual = qual  # e.g. "FullCaseCitation" or "FullCaseCitation.Metadata"
        self.node = node
        self.module = module
        self.outer = outer
        self.base_exprs = [dotted(b) or norm(b) for b in node.bases]
        self.methods: Dict[str, ast.FunctionDef] = {
            s.name: s for s in node.body if isinstance(s, ast.FunctionDef)
        }

    def decorator_calls(self) -> List[ast.AST]:
        return list(self.node.decorator_list)

    def dataclass_kwargs(self) -> Optional[Dict[str, Any]]:
        """None if not a dataclass; else dict of literal keyword arguments."""
        for d in self.node.decorator_list:
            if dotted(d) in ("dataclass", "dataclasses.dataclass"):
                return {}
            if isinstance(d, ast.Call) and dotted(d.func) in ("dataclass", "dataclasses.dataclass"):
                out = {}
                for k in d.keywords:
                    if isinstance(k.value, ast.Constant):
                        out[k.arg] = k.value.value
                    else:
                        out[k.arg] = norm(k.value)
                return out
        return None

    def fields(self) -> List[str]:
        out = []
        for s in self.node.body:
            if isinstance(s, ast.AnnAssign) and isinstance(s.target, ast.Name):
                out.append(s.target.id)
        return out


class Repo:
    def __init__(self, root: str | Path = "/repo"):
        self.root = Path(root)
        pkg = self.root / PKG
        if not pkg.is_dir():
            raise AnalysisError(f"{pkg} is not a directory")
        self.modules: Dict[str, Module] = {}
        for p in sorted(pkg.glob("*.py")):
            self.modules[p.stem] = Module(p.stem, p)
        for need in MODULE_NAMES:
            if need not in self.modules and need != "test_factories":
                raise AnalysisError(f"module eyecite/{need}.py is missing")
        # additions around the reference code (hoisted constants, operator/compiled objects, default-only parameters, local aliases) are
        # folded back (sa/normalize.py)
        self.normalise_log = []
        if not os.environ.get("SA_NO_NORMALISE"):
            from .normalize import normalise
            from .canon import canonicalise as _canon

            self.normalise_log = normalise({n: m.tree for n, m in self.modules.items()})
            if self.normalise_log:
                for m in self.modules.values():
                    if not os.environ.get("SA_NO_CANON"):
                        _canon(m.tree)
                    set_parents(m.tree)
                    m.imports = {}
                    for n in ast.walk(m.tree):
                        if isinstance(n, ast.ImportFrom) and n.module:
                            for a in n.names:
                                m.imports[a.asname or a.name] = f"{n.module}.{a.name}"
                        elif isinstance(n, ast.Import):
                            for a in n.names:
                                m.imports[a.asname or a.name.split(".")[0]] = a.name
        # helpers that are not functions of the reference tree are inlined back into their callers (sa/inline.py)
        from .inline import inline_extras

        self.inline_log = inline_extras({n: m.tree for n, m in self.modules.items()}, self.root)
        post_log = []
        if not os.environ.get("SA_NO_NORMALISE"):
            from .normalize import post_inline

            post_log = post_inline({n: m.tree for n, m in self.modules.items()})
            self.normalise_log += post_log
        if self.inline_log or post_log:
            from .canon import canonicalise

            for m in self.modules.values():
                if not os.environ.get("SA_NO_CANON"):
                    canonicalise(m.tree)  # inlining exposes new constant parts / temporaries
                set_parents(m.tree)
        self.classes: Dict[str, ClassInfo] = {}
        for m in self.modules.values():
            for s in m.tree.body:
                if isinstance(s, ast.ClassDef):
                    self._add_class(s, m, None)

    def _add_class(self, node: ast.ClassDef, m: Module, outer: Optional[str]):
        qual = f"{outer}.{node.name}" if outer else node.name
        self.classes[qual] = ClassInfo(qual, node, m, outer)
        for s in node.body:
            if isinstance(s, ast.ClassDef):
                self._add_class(s, m, qual)

    # ---- lookup -----------------------------------------------------
    def mod(self, name: str) -> Module:
        name = name.split(".")[-1]
        if name not in self.modules:
            raise AnalysisError(f"module eyecite/{name}.py not found")
        return self.modules[name]

    def func(self, qual: str) -> Optional[ast.FunctionDef]:
        """'find.get_citations' | 'models.CaseCitation.__hash__' |
        'annotate.SpanUpdater.update'."""
        parts = qual.split(".")
        m = self.modules.get(parts[0])
        if m is None:
            return None
        body = m.tree.body
        node = None
        for p in parts[1:]:
            node = None
            for s in body:
                if isinstance(s, (ast.FunctionDef, ast.ClassDef)) and s.name == p:
                    node = s
                    break
            if node is None:
                return None
            body = node.body
        return node if isinstance(node, ast.FunctionDef) else None

    def hyperscan_converter(self) -> Optional[ast.FunctionDef]:
        """the function that rewrites each extractor pattern for Hyperscan: the callee X of `[X(e.regex) for e in self.extractors]` in
        HyperscanTokenizer.hyperscan_db -- a nested def, a module-level function or a (static) method, whatever its name"""
        db = self.func("tokenizers.HyperscanTokenizer.hyperscan_db")
        if db is None:
            return None
        for n in ast.walk(db):
            if isinstance(n, (ast.ListComp, ast.GeneratorExp)) and isinstance(n.elt, ast.Call) and len(n.elt.args) == 1 \
                    and isinstance(n.elt.args[0], ast.Attribute) and n.elt.args[0].attr == "regex":
                f = n.elt.func
                name = f.id if isinstance(f, ast.Name) else f.attr if isinstance(f, ast.Attribute) else None
                if name is None:
                    continue
                for x in ast.walk(db):
                    if isinstance(x, ast.FunctionDef) and x.name == name and x is not db:
                        return x
                return self.func(f"tokenizers.{name}") or self.func(f"tokenizers.HyperscanTokenizer.{name}")
        return None

    def need_func(self, qual: str) -> ast.FunctionDef:
        f = self.func(qual)
        if f is None:
            raise AnalysisError(f"anchor function {qual} not found")
        return f

    def all_funcs(self, include_tests: bool = False) -> Iterator[Tuple[str, Module, ast.FunctionDef]]:
        for m in self.modules.values():
            if m.name == "test_factories" and not include_tests:
                continue
            yield from self._funcs_in(m.tree.body, m.name, m)

    def _funcs_in(self, body, prefix, m):
        for s in stmts_local(body):
            if isinstance(s, ast.FunctionDef):
                yield f"{prefix}.{s.name}", m, s
                yield from self._funcs_in(s.body, f"{prefix}.{s.name}", m)
            elif isinstance(s, ast.ClassDef):
                yield from self._funcs_in(s.body, f"{prefix}.{s.name}", m)

    # ---- class hierarchy ---------------------------------------------
    def resolve_base(self, ci: ClassInfo, expr: str) -> Optional[str]:
        """Map a base expression of class ci to a class qualname we know."""
        if expr in self.classes and "." not in expr:
            return expr
        # e.g. "CitationBase.Metadata", "FullCitation.Metadata"
        if expr in self.classes:
            return expr
        if "." in expr:
            head, _, tail = expr.partition(".")
            # nested class inherited through the MRO of head
            for c in self.mro(head):
                if f"{c}.{tail}" in self.classes:
                    return f"{c}.{tail}"
        return None

    def bases(self, qual: str) -> List[str]:
        ci = self.classes.get(qual)
        if ci is None:
            return []
        out = []
        for b in ci.base_exprs:
            r = self.resolve_base(ci, b)
            out.append(r if r else f"<ext:{b}>")
        return out

    def mro(self, qual: str) -> List[str]:
        """C3 linearisation restricted to known classes (externals kept as
        '<ext:...>' leaves)."""
        if qual not in self.classes:
            return [qual]
        seqs = [self.mro(b) for b in self.bases(qual)] + [list(self.bases(qual))]
        res = [qual]
        seqs = [list(s) for s in seqs if s]
        while seqs:
            for s in seqs:
                cand = s[0]
                if not any(cand in t[1:] for t in seqs):
                    break
            else:  # pragma: no cover
                raise AnalysisError(f"inconsistent MRO for {qual}")
            res.append(cand)
            seqs = [[x for x in s if x != cand] for s in seqs]
            seqs = [s for s in seqs if s]
        return res

    def is_subclass(self, a: str, b: str) -> bool:
        return b in self.mro(a)

    def subclasses(self, b: str) -> List[str]:
        return [c for c in self.classes if "." not in c and self.is_subclass(c, b)]

    def find_method(self, cls: str, name: str) -> Optional[Tuple[str, ast.FunctionDef]]:
        for c in self.mro(cls):
            ci = self.classes.get(c)
            if ci and name in ci.methods:
                return c, ci.methods[name]
        return None

    def metadata_fields(self, cls: str) -> Optional[set]:
        """Fields of the nested Metadata dataclass visible from class cls."""
        meta = None
        for c in self.mro(cls):
            if f"{c}.Metadata" in self.classes:
                meta = f"{c}.Metadata"
                break
        if meta is None:
            return None
        out = set()
        for c in self.mro(meta):
            ci = self.classes.get(c)
            if ci:
                out.update(ci.fields())
        return out


# ---------------------------------------------------------------------------
# obligations, findings, evidence


class Ctx:
    def __init__(self, repo: Repo, prop: str, tier: str, seed: int):
        self.repo = repo
        self.prop = prop
        self.tier = tier
        self.seed = seed
        self.obs: List[Dict[str, Any]] = []
        self.extra: Dict[str, Any] = {}
        self.assumptions: List[str] = []
        self.trusted: List[str] = []
        self.explanation = ""
        self.level = "other"
        self.rule_floor: Dict[str, int] = {}
        self.t0 = time.time()

    def ob(
        self,
        rule: str,
        construct: str,
        ok: bool,
        detail: str = "",
        node: Optional[ast.AST] = None,
        mod: Optional[Module] = None,
        nontrivial: bool = True,
        witness: Optional[str] = None,
        statement: Optional[str] = None,
    ) -> bool:
        rec: Dict[str, Any] = {
            "rule": rule,
            "construct": construct,
            "ok": bool(ok),
            "detail": detail,
            "nontrivial": nontrivial,
        }
        if node is not None:
            rec["line"] = getattr(node, "lineno", None)
            if statement is None:
                try:
                    statement = norm(node)[:200]
                except Exception:
                    statement = None
        if mod is not None:
            rec["file"] = mod.rel()
        if statement is not None:
            rec["statement"] = statement
        if witness is not None:
            rec["witness"] = witness
        self.obs.append(rec)
        return bool(ok)

    def guard(self, fn, *a, **k):
        """Run one rule.  A rule that crashes because an anchor it needs is
        missing is reported as an undischarged obligation if (and only if)
        some obligation has already failed on this tree -- the structure it
        relies on is gone; on a tree without failures a crash is a checker bug
        and propagates (ANALYSIS-ERROR)."""
        try:
            return fn(*a, **k)
        except (AnalysisError, AttributeError, TypeError, IndexError, KeyError, ValueError, AssertionError) as e:
            if any(not o["ok"] for o in self.obs):
                self.ob("UNEVALUABLE", f"{getattr(fn, '__qualname__', fn)}", False,
                        f"rule could not be evaluated because the structure it is anchored in is not recognisable "
                        f"({type(e).__name__}: {e})", nontrivial=False)
                return None
            raise

    def floor(self, rule: str, n: int):
        """Declare the minimum number of obligations rule must have produced
        (confirmed by hand on the reference tree)."""
        self.rule_floor[rule] = n

    def need(self, cond: Any, msg: str):
        if not cond:
            raise AnalysisError(msg)

    def count(self, rule: str) -> int:
        return sum(1 for o in self.obs if o["rule"] == rule)


def load_known() -> List[Dict[str, Any]]:
    p = VERIF / "known_findings.json"
    if not p.exists():
        return []
    return json.loads(p.read_text())["findings"]


def finding_matches(entry: Dict[str, Any], prop: str, ob: Dict[str, Any]) -> bool:
    if entry.get("property") != prop or entry.get("status") != "open":
        return False
    if entry.get("rule") != ob["rule"] or entry.get("construct") != ob["construct"]:
        return False
    if "witness_key" in entry and entry["witness_key"] != ob.get("witness_key", ob.get("witness")):
        return False
    return True


def unknown_failures(ctx: Ctx) -> List[Dict[str, Any]]:
    known = load_known()
    return [o for o in ctx.obs if not o["ok"] and not any(finding_matches(k, ctx.prop, o) for k in known)]


def finish(ctx: Ctx, evidence_path: Optional[Path], cmd: str) -> int:
    """Evaluate floors, split failures into known findings / violations, write
    evidence and replay files, print the verdict lines.  Returns exit code."""
    known = load_known()
    failures = [o for o in ctx.obs if not o["ok"]]
    # instance floors: a rule that matches fewer sites than were confirmed by
    # hand on the reference tree would pass vacuously.  If something already
    # failed, the failure is the verdict; a floor miss alone is "cannot analyse".
    for rule, n in ctx.rule_floor.items():
        got = ctx.count(rule)
        if got < n and not failures:
            raise AnalysisError(
                f"rule {rule} matched {got} instances, fewer than the {n} confirmed "
                "on the reference tree: anchors have moved; the rule would pass vacuously"
            )
    viol, kf = [], []
    for o in failures:
        hit = next((k for k in known if finding_matches(k, ctx.prop, o)), None)
        (kf if hit else viol).append((o, hit))
    for o, hit in kf:
        print(
            f"KNOWN-FINDING: property={ctx.prop} {o['rule']} {o['construct']} "
            f"{o.get('witness') or o.get('detail')}"
        )
    code = 0
    vdir = VERIF / "evidence" / "violations"
    replay_paths = []
    if viol:
        vdir.mkdir(parents=True, exist_ok=True)
        for i, (o, _) in enumerate(viol):
            rp = vdir / f"{ctx.prop}-{i}.json"
            rp.write_text(
                json.dumps(
                    {
                        "property": ctx.prop,
                        "root": str(ctx.repo.root),
                        "obligation": o,
                        "replay": f"./check {ctx.prop} --tier {ctx.tier} --only-rule {o['rule']}",
                    },
                    indent=1,
                )
            )
            replay_paths.append(str(rp))
            loc = f"{o.get('file','?')}:{o.get('line','?')}"
            print(f"  {o['rule']} at {loc} [{o['construct']}]: {o['detail']}")
            if o.get("statement"):
                print(f"     statement: {o['statement']}")
            if o.get("witness"):
                print(f"     witness: {o['witness']!r}")
            print(f"VIOLATION property={ctx.prop} replay={rp}")
        code = 1
    if evidence_path is not None:
        write_evidence(ctx, evidence_path, cmd, len(viol), len(kf))
    if code == 0:
        n = len(ctx.obs)
        print(
            f"OK property={ctx.prop} tier={ctx.tier} obligations={n} "
            f"discharged={n - len(failures)} known_findings={len(kf)} "
            f"wall_s={time.time() - ctx.t0:.2f}"
        )
    return code


def write_evidence(ctx: Ctx, path: Path, cmd: str, nviol: int, nkf: int):
    obs = ctx.obs
    per_rule: Dict[str, Dict[str, int]] = {}
    for o in obs:
        d = per_rule.setdefault(o["rule"], {"instances": 0, "discharged": 0})
        d["instances"] += 1
        d["discharged"] += int(o["ok"])
    for r, d in per_rule.items():
        if r in ctx.rule_floor:
            d["floor"] = ctx.rule_floor[r]
    distinct = {(o["rule"], o["construct"], o.get("statement")) for o in obs if o["nontrivial"]}
    # samples: first obligation of each rule, then failures
    seen, samples = set(), []
    for o in obs:
        if o["rule"] not in seen or not o["ok"]:
            seen.add(o["rule"])
            samples.append({k: v for k, v in o.items() if k != "nontrivial"})
    samples = samples[:60]
    cov: Dict[str, Any] = {
        "obligations": len(obs),
        "discharged": sum(1 for o in obs if o["ok"]),
        "evaluations": max(len(obs), 1),
        "distinct_nontrivial": len(distinct),
        "rule": "one obligation per (rule, construct) instance found in /repo's source on this run; "
        "non-trivial = discharged through a guard, path, provenance or automaton argument rather than by absence",
        "checker_cmd": cmd,
        "trusted_base": ctx.trusted,
        "explanation": ctx.explanation,
        "samples": samples,
        "rules": per_rule,
        "known_findings_reported": nkf,
        "modules": {m.rel(): m.sha256[:16] for m in ctx.repo.modules.values()},
        "root": str(ctx.repo.root),
    }
    cov.update(ctx.extra)
    ev = {
        "property_id": ctx.prop,
        "tier": ctx.tier,
        "seed": ctx.seed,
        "level": ctx.level,
        "coverage": cov,
        "assumptions": ctx.assumptions,
        "wall_s": round(time.time() - ctx.t0, 3),
        "violations": nviol,
    }
    path.parent.mkdir(parents=True, exist_ok=True)
    path.write_text(json.dumps(ev, indent=1, default=str))
