"""Two Python-specific hazards that several properties share, decided from the source:

truth_tested_classes   `if x:` on an object whose class defines __len__ / __bool__ tests emptiness, not presence.  eyecite tests its own
                       optional objects that way (`if offset_updater:`, `if not document.plain_to_markup`, `if resolution:`); that is
                       equivalent to `is not None` only while the class defines neither method.
one_shot_reuse         an iterator (a call of a generator function, map/filter/zip/..., a generator expression) bound to a name and consumed
                       by more than one iteration construct: the second one starts where the first one stopped.
"""
from __future__ import annotations

import ast
from typing import Dict, List, Optional, Set, Tuple

from .core import Repo, dotted, norm, walk_local
from .typed import eyecite_class

ITER_CONSUMERS = {"all", "any", "list", "tuple", "set", "sorted", "sum", "min", "max", "dict", "frozenset", "enumerate", "zip", "map", "filter", "next", "len"}
ONE_SHOT_BUILTINS = {"map", "filter", "zip", "iter", "reversed", "enumerate"}


def _has_yield(fn: ast.AST) -> bool:
    todo = list(ast.iter_child_nodes(fn))
    while todo:
        n = todo.pop()
        if isinstance(n, (ast.Yield, ast.YieldFrom)):
            return True
        if isinstance(n, (ast.FunctionDef, ast.AsyncFunctionDef, ast.Lambda, ast.ClassDef)):
            continue
        todo.extend(ast.iter_child_nodes(n))
    return False


def classes_with_truth_protocol(repo: Repo) -> Dict[str, List[str]]:
    """eyecite class -> the truth-protocol methods it defines or inherits from an eyecite class"""
    out: Dict[str, List[str]] = {}
    for c in repo.classes:
        ms = [d for d in ("__bool__", "__len__") if any(d in repo.classes[k].methods for k in repo.mro(c) if k in repo.classes)]
        if ms:
            out[c] = ms
    return out


def truth_tests(fn: ast.AST):
    """expressions of fn whose truth value decides something: if / while / conditional-expression tests, operands of and/or/not,
    bool(x), comprehension conditions, assert"""
    def operands(e):
        if isinstance(e, ast.BoolOp):
            for v in e.values:
                yield from operands(v)
        elif isinstance(e, ast.UnaryOp) and isinstance(e.op, ast.Not):
            yield from operands(e.operand)
        else:
            yield e
    for n in walk_local(fn):
        if isinstance(n, (ast.If, ast.While, ast.IfExp, ast.Assert)):
            yield from operands(n.test)
        elif isinstance(n, ast.comprehension):
            for c in n.ifs:
                yield from operands(c)
        elif isinstance(n, ast.BoolOp):
            for v in n.values[:-1]:
                yield from operands(v)
        elif isinstance(n, ast.Call) and dotted(n.func) == "bool" and len(n.args) == 1:
            yield n.args[0]


def truth_tested_instances(repo: Repo, typed, functions: List[Tuple[str, object, ast.AST]], classes: Set[str]) -> List[Tuple[str, ast.AST, str]]:
    """(function, expression, class) for every truth test of an expression whose static type is (Optional of) one of `classes` or a subclass"""
    out = []
    for q, mod, fn in functions:
        for e in truth_tests(fn):
            if isinstance(e, (ast.Compare, ast.Constant, ast.Call)) and not isinstance(e, ast.Call):
                continue
            t = typed.type_of(mod, e)
            c = eyecite_class(t)
            if c is None:
                continue
            if any(k in classes for k in repo.mro(c)):
                out.append((q, e, c))
    return out


def one_shot_reuse(repo: Repo, eff, fs) -> List[Tuple[str, List[ast.AST], str]]:
    """(name, consuming nodes, why one-shot) for every local of function summary `fs` that may hold a one-shot iterator and is consumed
    more than once"""
    fn = fs.node
    gens = {q for q, f in eff.funcs.items() if _has_yield(f.node)}
    out = []
    binds: Dict[str, List[ast.AST]] = {}
    for n in walk_local(fn):
        if isinstance(n, ast.Assign) and len(n.targets) == 1 and isinstance(n.targets[0], ast.Name):
            binds.setdefault(n.targets[0].id, []).append(n.value)
    for name, vals in binds.items():
        why = None
        for v in vals:
            if isinstance(v, ast.GeneratorExp):
                why = "generator expression"
            elif isinstance(v, ast.Call):
                d = dotted(v.func)
                if d in ONE_SHOT_BUILTINS:
                    why = f"{d}(..) object"
                else:
                    targets: List[str] = []
                    if isinstance(v.func, ast.Name):
                        t = eff._resolve_name(fs, v.func.id)
                        if t is None and v.func.id in fs.assigned:
                            lt = eff._local_callable_targets(fs, v.func.id)
                            t = lt[0] if lt else None
                        targets = t or []
                    elif isinstance(v.func, ast.Attribute):
                        targets = [q for q in eff.methods.get(v.func.attr, [])]
                    g = [t for t in targets if t in gens]
                    if g:
                        why = f"result of generator function {g[0]}"
        if why is None:
            continue
        uses = []
        for n in walk_local(fn):
            if isinstance(n, ast.Name) and n.id == name and isinstance(n.ctx, ast.Load):
                par = getattr(n, "parent", None)
                if isinstance(par, (ast.For, ast.comprehension)) and par.iter is n:
                    uses.append(par)
                elif isinstance(par, ast.Call) and n in par.args and (dotted(par.func) in ITER_CONSUMERS or (isinstance(par.func, ast.Attribute) and par.func.attr in ("join", "extend", "update"))):
                    uses.append(par)
                elif isinstance(par, ast.Starred) or (isinstance(par, ast.YieldFrom)):
                    uses.append(par)
                elif isinstance(par, ast.Compare) and n in par.comparators and any(isinstance(o, (ast.In, ast.NotIn)) for o in par.ops):
                    uses.append(par)
        # a consumer inside a loop runs repeatedly as well
        in_loop = [u for u in uses if _inside_loop_after(fn, u, name)]
        if len(uses) > 1 or in_loop:
            out.append((name, uses, why))
    return out


def _inside_loop_after(fn: ast.AST, use: ast.AST, name: str) -> bool:
    """the consuming node sits in a loop body that does not itself (re)bind the name on every iteration"""
    cur = getattr(use, "parent", None)
    prev = use
    while cur is not None and cur is not fn:
        if isinstance(cur, (ast.For, ast.While)) and prev in cur.body + cur.orelse and not (isinstance(use, (ast.For,)) and use is cur):
            rebinds = any(isinstance(n, ast.Name) and n.id == name and isinstance(n.ctx, ast.Store) for s in cur.body for n in ast.walk(s))
            if not rebinds:
                return True
        prev = cur
        cur = getattr(cur, "parent", None)
    return False
