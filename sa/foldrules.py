"""Obligations on the resolution fold (resolve.resolve_citations and its
default resolvers), used by C06, C07 and C08."""
from __future__ import annotations

import ast
from typing import Dict, List, Optional, Set

from .core import presence_test,  AnalysisError, Ctx, assigned_names, dotted, names_in, norm, stmts_local, walk_local
from .effects import Effects
from .fold import (LAST, MUTATORS, NONE, PAIRS, RESV, Prov, Roles, bind_roles,
                   resolver_call_roles)
from .hashrules import run_hash_rules, run_resource_rules
from .paths import enumerate_paths

_EFFECTS_CACHE: Dict[int, Effects] = {}


def effects_for(ctx: Ctx) -> Effects:
    k = id(ctx.repo)
    if k not in _EFFECTS_CACHE:
        _EFFECTS_CACHE[k] = Effects(ctx.repo)
    return _EFFECTS_CACHE[k]


def root_name(e: ast.AST) -> Optional[str]:
    while isinstance(e, (ast.Attribute, ast.Subscript)):
        e = e.value
    return e.id if isinstance(e, ast.Name) else None


def key_truth(ev, KEY: str):
    """For a ("cond", expr, outcome) event about KEY: True if it establishes
    KEY truthy, False if it establishes KEY falsy/None, else None."""
    if ev[0] != "cond":
        return None
    c, o = ev[1], ev[2]
    if isinstance(c, ast.Name) and c.id == KEY:
        return bool(o)
    t = norm(c)
    if t == f"{KEY} is not None":
        return None if o else False
    if t == f"{KEY} is None":
        return False if o else None
    return None


def isinstance_test(e: ast.AST):
    """(var, [class names]) for `isinstance(var, C)` / `isinstance(var, (C, D))`."""
    if isinstance(e, ast.Call) and dotted(e.func) == "isinstance" and len(e.args) == 2 and isinstance(e.args[0], ast.Name):
        c = e.args[1]
        if isinstance(c, ast.Tuple):
            names = [dotted(x) for x in c.elts]
        else:
            names = [dotted(c)]
        if all(names):
            return e.args[0].id, [n.split(".")[-1] for n in names]
    return None


class FoldRules:
    def __init__(self, ctx: Ctx):
        self.ctx = ctx
        self.repo = ctx.repo
        self.r: Roles = bind_roles(ctx.repo)
        self.m = self.r.mod
        self.f = self.r.func
        self.q = "resolve.resolve_citations"
        r = self.r
        ctx.extra["roles"] = {
            "CITS": r.CITS, "RES": r.RES, "CIT": r.CIT, "KEY": r.KEY, "RFC": r.RFC, "LAST": r.LAST,
            "resolvers": r.resolvers,
        }
        self._body_paths = None

    # -- helpers -------------------------------------------------------------
    def body_paths(self):
        if self._body_paths is None:
            self.ctx.need(self.r.FOLD is not None, "fold loop not found")
            self._body_paths = enumerate_paths(self.r.FOLD.body)
            self.ctx.extra["fold_body_paths"] = len(self._body_paths)
        return self._body_paths

    def default_resolver_funcs(self) -> Dict[str, ast.FunctionDef]:
        return {p: self.repo.need_func(f"resolve.{d}") for p, d in self.r.resolvers.items()}

    def full_resolver_param(self) -> Optional[str]:
        """resolver parameter whose result is paired with CIT in RFC."""
        r = self.r
        for app in r.rfc_appends:
            st = app.parent  # Expr
            blk = self._block_of(st)
            if blk is None:
                continue
            i = blk.index(st)
            if i > 0:
                prev = blk[i - 1]
                if (
                    isinstance(prev, ast.Assign)
                    and len(prev.targets) == 1
                    and isinstance(prev.targets[0], ast.Name)
                    and prev.targets[0].id == r.KEY
                    and isinstance(prev.value, ast.Call)
                    and isinstance(prev.value.func, ast.Name)
                    and prev.value.func.id in r.resolvers
                ):
                    return prev.value.func.id
        return None

    def _block_of(self, st: ast.stmt) -> Optional[List[ast.stmt]]:
        par = getattr(st, "parent", None)
        for fld in ("body", "orelse", "finalbody"):
            blk = getattr(par, fld, None)
            if isinstance(blk, list) and st in blk:
                return blk
        return None

    # -- O1 --------------------------------------------------------------------
    def o1_single_fold(self):
        r, ctx = self.r, self.ctx
        uses = [n for n in walk_local(self.f) if isinstance(n, ast.Name) and n.id == r.CITS]
        ok = len(r.folds) == 1 and len(uses) == 1 and uses[0] is r.FOLD.iter
        others = [norm(getattr(u, "parent", u))[:70] for u in uses if r.FOLD is None or u is not r.FOLD.iter]
        ctx.ob("O1", f"{self.q}/param:{r.CITS}", ok,
               f"the input list must be consumed by exactly one `for` and used nowhere else "
               f"(loops={len(r.folds)}, uses={len(uses)}, other uses={others})",
               node=r.FOLD or self.f, mod=self.m)
        if r.FOLD is not None:
            ok2 = isinstance(r.FOLD.target, ast.Name) and not r.FOLD.orelse
            ctx.ob("O1", f"{self.q}/fold-target", ok2, "fold target must be a single name, no for-else", node=r.FOLD, mod=self.m)
            # the fold is a top-level statement of the function (not nested in another loop / retry)
            ctx.ob("O1", f"{self.q}/fold-toplevel", r.FOLD in self.f.body,
                   "the fold must be a top-level statement (not nested in another loop)", node=r.FOLD, mod=self.m)

    # -- O2 --------------------------------------------------------------------
    def o2_single_append_site(self):
        r, ctx, f = self.r, self.ctx, self.f
        for ret in r.returns:
            ctx.ob("O2", f"{self.q}/return", isinstance(ret.value, ast.Name) and ret.value.id == r.RES and r.RES is not None,
                   "the function must return the accumulator itself (no re-ordering / copying pass)", node=ret, mod=self.m)
        ctx.need(r.returns, "resolve_citations has no return")
        if r.RES is None:
            ctx.ob("O2", f"{self.q}/accumulator", False, "cannot bind the returned accumulator to one name", node=f, mod=self.m)
            return
        # initialisation
        inits = [
            s for s in stmts_local(f.body)
            if isinstance(s, (ast.Assign, ast.AnnAssign))
            and any(isinstance(t, ast.Name) and t.id == r.RES for t in (s.targets if isinstance(s, ast.Assign) else [s.target]))
        ]
        ok = (
            len(inits) == 1
            and inits[0] in f.body
            and r.FOLD is not None
            and f.body.index(inits[0]) < f.body.index(r.FOLD)
            and norm(inits[0].value) in ("defaultdict(list)", "collections.defaultdict(list)")
        )
        ctx.ob("O2", f"{self.q}/{r.RES}:init", ok,
               f"accumulator must be bound once, before the fold, to defaultdict(list) ({[norm(i) for i in inits]})",
               node=inits[0] if inits else f, mod=self.m)
        # every mutation site of RES
        sites = []
        for n in walk_local(f):
            if isinstance(n, ast.Call) and isinstance(n.func, ast.Attribute) and n.func.attr in MUTATORS and root_name(n.func.value) == r.RES:
                sites.append(n)
            elif isinstance(n, (ast.Subscript, ast.Attribute)) and isinstance(n.ctx, (ast.Store, ast.Del)) and root_name(n) == r.RES:
                sites.append(n)
            elif isinstance(n, ast.AugAssign) and root_name(n.target) == r.RES:
                sites.append(n)
        n_good = 0
        for s in sites:
            good = s is r.append_stmt and len(s.args) == 1 and isinstance(s.args[0], ast.Name) and s.args[0].id == r.CIT and not s.keywords
            n_good += int(good)
            ctx.ob("O2", f"{self.q}/{r.RES}:mutation", good,
                   f"the mapping may be mutated only by `{r.RES}[key].append(<fold variable>)`", node=s, mod=self.m)
        ctx.ob("O2", f"{self.q}/{r.RES}:append-count", n_good == 1, f"exactly one append site expected, found {n_good}",
               node=r.append_stmt or f, mod=self.m)
        if r.append_stmt is None or r.FOLD is None:
            return
        # placement: directly in the fold body (not in a nested loop), guarded by truthiness of KEY on every path
        st = r.append_stmt.parent
        anc = st
        nested_loop = False
        in_fold = False
        while anc is not None and anc is not f:
            anc = getattr(anc, "parent", None)
            if anc is r.FOLD:
                in_fold = True
                break
            if isinstance(anc, (ast.For, ast.While)):
                nested_loop = True
        ctx.ob("O2", f"{self.q}/append-placement", in_fold and not nested_loop,
               "the append must execute at most once per fold iteration (inside the fold, not inside a nested loop)",
               node=st, mod=self.m)
        guarded_all = True
        reach = 0
        for p in self.body_paths():
            key_truthy = False
            for ev in p.events:
                if ev[0] == "stmt" and ev[1] is st:
                    reach += 1
                    if not key_truthy:
                        guarded_all = False
                elif ev[0] == "cond" and presence_test(ev[1], ev[2]) is not None and presence_test(ev[1], ev[2])[0] == r.KEY:
                    key_truthy = presence_test(ev[1], ev[2])[1]  # `if resolution:` or `if resolution is not None:`
                elif ev[0] == "stmt" and r.KEY in assigned_names(ev[1]):
                    key_truthy = False
        ctx.ob("O2", f"{self.q}/append-guard", guarded_all and reach > 0,
               f"every path to the append must have tested `{r.KEY}` truthy after its last assignment (paths reaching it: {reach})",
               node=st, mod=self.m)
        # the fold variable is not rebound in the body
        rebound = [s for s in stmts_local(r.FOLD.body) if r.CIT in assigned_names(s) and not isinstance(s, (ast.If, ast.For, ast.While, ast.Try, ast.With))]
        ctx.ob("O2", f"{self.q}/fold-var-stable", not rebound, f"the fold variable `{r.CIT}` must not be rebound in the body",
               node=rebound[0] if rebound else r.FOLD, mod=self.m, nontrivial=False)
        # other uses of RES: only as call argument to a callee that does not write it, or subscript-read
        eff = effects_for(ctx)
        for n in walk_local(f):
            if isinstance(n, ast.Name) and n.id == r.RES and isinstance(n.ctx, ast.Load):
                par = n.parent
                if isinstance(par, ast.Return):
                    continue
                if isinstance(par, ast.Subscript) and par.value is n:
                    continue  # RES[...] (mutations already enumerated above)
                if isinstance(par, ast.Call) and n in par.args and isinstance(par.func, ast.Name) and par.func.id in r.resolvers:
                    callee = f"resolve.{r.resolvers[par.func.id]}"
                    idx = par.args.index(n)
                    cs = eff.funcs[callee]
                    pname = cs.params[idx] if idx < len(cs.params) else None
                    w = [x for x in eff.tw[callee] if x[0] == ("param", pname)]
                    ctx.ob("O2", f"{self.q}/{r.RES}:escape->{callee}", not w,
                           f"callee receiving the mapping must not write through it (writes: {sorted(w)[:3]})", node=par, mod=self.m)
                    continue
                ctx.ob("O2", f"{self.q}/{r.RES}:escape", False,
                       f"the mapping is aliased or passed somewhere the analysis cannot follow: {norm(par)[:80]}", node=par, mod=self.m)
        # the mapping is a defaultdict: merely *reading* `RES[k]` inserts k with an empty list when k is not a key yet.  Every subscript read -- in the
        # fold and in the callee that receives the mapping -- must be dominated by a truth test of its key (a non-empty resolution that was
        # recorded before); a read for a debug line ahead of that test adds the key None with a list that has no full citation in it
        from .guards import guarded as _guarded
        sites = [(self.q, f, r.RES)]
        for n in walk_local(f):
            if isinstance(n, ast.Call) and isinstance(n.func, ast.Name) and n.func.id in r.resolvers:
                for i_, a_ in enumerate(n.args):
                    if isinstance(a_, ast.Name) and a_.id == r.RES:
                        cal = f"resolve.{r.resolvers[n.func.id]}"
                        if cal in eff.funcs and i_ < len(eff.funcs[cal].params):
                            sites.append((cal, eff.funcs[cal].node, eff.funcs[cal].params[i_]))
        for q_, fn_, nm_ in sites:
            for sub in [x for x in walk_local(fn_) if isinstance(x, ast.Subscript) and isinstance(x.ctx, ast.Load) and isinstance(x.value, ast.Name) and x.value.id == nm_]:
                k_ = norm(sub.slice)
                ctx.ob("O2", f"{q_}/{nm_}[{k_[:30]}]:read-guarded", _guarded(fn_, sub, {k_}),
                       f"`{norm(sub)[:50]}` reads the defaultdict; unless `{k_[:30]}` was tested truthy first the read itself creates the key",
                       node=sub, mod=self.m)
        # nothing but `return RES` after the fold
        after = f.body[f.body.index(r.FOLD) + 1:] if r.FOLD in f.body else []
        ok_after = all(isinstance(s, ast.Return) for s in after)
        ctx.ob("O2", f"{self.q}/after-fold", ok_after,
               "no statement other than the return may follow the fold (no second pass over the result)",
               node=after[0] if after else r.FOLD, mod=self.m, nontrivial=False)

    # -- O3 --------------------------------------------------------------------
    def o3_resolver_provenance(self):
        r, ctx = self.r, self.ctx
        full = self.full_resolver_param()
        ctx.ob("O3", f"{self.q}/{r.RFC}:pairing", full is not None and r.RFC is not None,
               "the list of resolved full citations must receive (citation, resolution) right after "
               "`resolution = resolve_full_citation(citation)`", node=r.rfc_appends[0] if r.rfc_appends else self.f, mod=self.m)
        call_roles = resolver_call_roles(r)
        allowed = {NONE, RESV, LAST}
        for param, fn in self.default_resolver_funcs().items():
            if param == full:
                continue
            rl = call_roles.get(param, {}).get("__list__")
            if rl is None:
                ctx.ob("O3", f"{self.q}/call:{param}", False, "resolver parameter is never called in the fold", node=self.f, mod=self.m)
                continue
            ps = [a.arg for a in fn.args.args]
            roles = {ps[i]: rl[i] for i in range(min(len(ps), len(rl)))}
            bad_args = [x for x in rl if x.startswith("OTHER")]
            ctx.ob("O3", f"{self.q}/call:{param}", not bad_args,
                   f"resolver must be called with the fold variable and fold state only (args: {rl})", node=self.f, mod=self.m)
            pv = Prov(self.repo, fn, roles)
            rets = [n for n in walk_local(fn) if isinstance(n, ast.Return)]
            for ret in rets:
                v = pv.of(ret.value) if ret.value is not None else {NONE}
                v.discard("EMPTY")
                ctx.ob("O3", f"resolve.{fn.name}/return", v <= allowed,
                       f"returned value must be None, the resource of an earlier (citation, resource) pair, or the "
                       f"previous resolution; provenance={sorted(v)}", node=ret, mod=self.m)
            if any(p.exit == "fall" for p in enumerate_paths(fn.body)):
                ctx.ob("O3", f"resolve.{fn.name}/fallthrough", True, "implicit return None", node=fn, mod=self.m, nontrivial=False)
        # RFC discipline
        f = self.f
        sites = []
        for n in walk_local(f):
            if isinstance(n, ast.Call) and isinstance(n.func, ast.Attribute) and n.func.attr in MUTATORS and root_name(n.func.value) == r.RFC:
                sites.append(n)
            elif isinstance(n, (ast.Subscript, ast.Attribute)) and isinstance(n.ctx, (ast.Store, ast.Del)) and root_name(n) == r.RFC:
                sites.append(n)
            elif isinstance(n, ast.AugAssign) and root_name(n.target) == r.RFC:
                sites.append(n)
        for s in sites:
            good = s in r.rfc_appends and norm(s.args[0]) == f"({r.CIT}, {r.KEY})"
            ctx.ob("O10", f"{self.q}/{r.RFC}:mutation", good,
                   "the list of resolved full citations is append-only: (fold variable, resolution) pairs at the tail",
                   node=s, mod=self.m)
        ctx.ob("O10", f"{self.q}/{r.RFC}:append-count", len([s for s in sites if s in r.rfc_appends]) == 1 and len(sites) == 1,
               f"exactly one mutation site expected, found {len(sites)}", node=sites[0] if sites else f, mod=self.m)
        binds = [s for s in stmts_local(f.body) if isinstance(s, (ast.Assign, ast.AnnAssign, ast.AugAssign)) and r.RFC in assigned_names(s)]
        ok = len(binds) == 1 and binds[0] in f.body and norm(binds[0].value) in ("[]", "list()")
        ctx.ob("O10", f"{self.q}/{r.RFC}:init", ok, "bound once, to an empty list, before the fold", node=binds[0] if binds else f, mod=self.m)
        eff = effects_for(ctx)
        for n in walk_local(f):
            if isinstance(n, ast.Name) and n.id == r.RFC and isinstance(n.ctx, ast.Load):
                par = n.parent
                if isinstance(par, ast.Attribute) and par.attr == "append":
                    continue
                if isinstance(par, ast.Call) and n in par.args and isinstance(par.func, ast.Name) and par.func.id in r.resolvers:
                    callee = f"resolve.{r.resolvers[par.func.id]}"
                    cs = eff.funcs[callee]
                    idx = par.args.index(n)
                    pname = cs.params[idx] if idx < len(cs.params) else None
                    w = [x for x in eff.tw[callee] if x[0] == ("param", pname)]
                    ctx.ob("O10", f"{self.q}/{r.RFC}:escape->{callee}", not w,
                           f"resolver must not mutate the list of resolved full citations or its elements (writes: {sorted(w)[:3]})",
                           node=par, mod=self.m)
                    continue
                ctx.ob("O10", f"{self.q}/{r.RFC}:escape", False, f"aliased/used in an unrecognised way: {norm(par)[:80]}", node=par, mod=self.m)
        # LAST only from KEY or None
        lb = [s for s in stmts_local(f.body) if isinstance(s, (ast.Assign, ast.AnnAssign, ast.AugAssign)) and r.LAST and r.LAST in assigned_names(s)]
        for s in lb:
            v = getattr(s, "value", None)
            good = isinstance(s, (ast.Assign, ast.AnnAssign)) and v is not None and (
                (isinstance(v, ast.Constant) and v.value is None) or (isinstance(v, ast.Name) and v.id == r.KEY))
            ctx.ob("O3", f"{self.q}/{r.LAST}:binding", good, "previous-resolution variable may only be None or the current resolution",
                   node=s, mod=self.m)
        ctx.ob("O3", f"{self.q}/{r.LAST}:bound", bool(lb) and r.LAST is not None, "previous-resolution variable located", node=self.f, mod=self.m, nontrivial=False)
        # every assignment to KEY in the fold is None or a resolver call on the fold variable
        for s in stmts_local(r.FOLD.body if r.FOLD else []):
            if isinstance(s, (ast.Assign, ast.AnnAssign, ast.AugAssign)) and r.KEY in assigned_names(s):
                v = getattr(s, "value", None)
                good = isinstance(s, (ast.Assign, ast.AnnAssign)) and v is not None and (
                    (isinstance(v, ast.Constant) and v.value is None)
                    or (isinstance(v, ast.Call) and isinstance(v.func, ast.Name) and v.func.id in r.resolvers
                        and v.args and isinstance(v.args[0], ast.Name) and v.args[0].id == r.CIT))
                ctx.ob("O3", f"{self.q}/{r.KEY}:binding", good,
                       "the resolution of an iteration must be None or the result of a resolver applied to the fold variable",
                       node=s, mod=self.m)

    # -- O4 --------------------------------------------------------------------
    def o4_full_branch(self):
        r, ctx = self.r, self.ctx
        full = self.full_resolver_param()
        if full is None or r.append_stmt is None:
            ctx.ob("O4", f"{self.q}/full-branch", False, "full-citation branch not located", node=self.f, mod=self.m)
            return
        st = r.append_stmt.parent
        n_full, ok = 0, True
        guard_classes: Set[str] = set()
        for p in self.body_paths():
            calls_full = False
            appended = False
            key_tested_false = False
            for ev in p.events:
                if ev[0] == "stmt":
                    s = ev[1]
                    if isinstance(s, ast.Assign) and isinstance(s.value, ast.Call) and isinstance(s.value.func, ast.Name) and s.value.func.id == full:
                        calls_full = True
                    if s is st:
                        appended = True
                elif ev[0] == "cond":
                    it = isinstance_test(ev[1])
                    if it and it[0] == r.CIT and ev[2] and not calls_full:
                        last_true = it[1]
                    if key_truth(ev, r.KEY) is False:
                        key_tested_false = True
            if calls_full:
                n_full += 1
                if not (appended or key_tested_false) or p.exit not in ("fall", "continue"):
                    ok = False
                if not appended and not key_tested_false:
                    ok = False
        ctx.ob("O4", f"{self.q}/full-branch->append", ok and n_full > 0,
               f"every path that resolves a full citation must reach the append (or fail the truthiness test); paths={n_full}",
               node=st, mod=self.m)
        # which class guards the full branch: every FullCitation must take it
        guard = None
        for n in walk_local(r.FOLD):
            if isinstance(n, ast.If):
                it = isinstance_test(n.test)
                if it and it[0] == r.CIT and any(
                    isinstance(s, ast.Assign) and isinstance(s.value, ast.Call) and isinstance(s.value.func, ast.Name) and s.value.func.id == full
                    for s in n.body
                ):
                    guard = it[1]
        ctx.ob("O4", f"{self.q}/full-branch-guard", guard == ["FullCitation"],
               f"the branch resolving full citations must be guarded by isinstance(<fold var>, FullCitation) exactly (got {guard})",
               node=r.FOLD, mod=self.m)
        # resolver returns Resource(<its argument>)
        fn = self.repo.need_func(f"resolve.{r.resolvers[full]}")
        pv = Prov(self.repo, fn, {fn.args.args[0].arg: "THECIT"})
        rets = [n for n in walk_local(fn) if isinstance(n, ast.Return)]
        for ret in rets:
            v = pv.of(ret.value) if ret.value is not None else {NONE}
            ctx.ob("O4", f"resolve.{fn.name}/return", v == {"FRESH:Resource(THECIT)"},
                   f"default full-citation resolver must return Resource(<its argument>); provenance={sorted(v)}", node=ret, mod=self.m)
        ctx.need(rets, f"resolve.{fn.name} has no return")

    # -- O5 --------------------------------------------------------------------
    def o5_dispatch_classes(self):
        r, ctx, repo = self.r, self.ctx, self.repo
        tested: List[str] = []
        for n in walk_local(r.FOLD):
            if isinstance(n, ast.If):
                it = isinstance_test(n.test)
                if it and it[0] == r.CIT:
                    for c in it[1]:
                        if c not in tested:
                            tested.append(c)
        ctx.need(len(tested) >= 5, f"expected >=5 dispatch classes in the fold, found {tested}")
        ctx.extra["dispatch_classes"] = tested
        for c in tested:
            ctx.ob("O5", f"{self.q}/dispatch:{c}/known", c in repo.classes, "dispatch class must be defined in models.py", node=r.FOLD, mod=self.m, nontrivial=False)
        for i, a in enumerate(tested):
            for b in tested[i + 1:]:
                if a not in repo.classes or b not in repo.classes:
                    continue
                common = [c for c in repo.classes if "." not in c and repo.is_subclass(c, a) and repo.is_subclass(c, b)]
                ctx.ob("O5", f"{self.q}/dispatch:{a}|{b}", not common,
                       f"dispatch classes must be disjoint (common subclasses: {common}); otherwise branch order decides the treatment",
                       node=r.FOLD, mod=self.m)
        if "UnknownCitation" in repo.classes:
            sup = [c for c in tested if c in repo.classes and repo.is_subclass("UnknownCitation", c)]
            ctx.ob("O5", f"{self.q}/dispatch:UnknownCitation", not sup,
                   f"UnknownCitation must not be an instance of any dispatch class (is a subclass of {sup})", node=r.FOLD, mod=self.m)
        # fall-through yields None
        n_ft, ok = 0, True
        for p in self.body_paths():
            any_true = False
            last_val = "<unassigned>"
            for ev in p.events:
                if ev[0] == "cond":
                    it = isinstance_test(ev[1])
                    if it and it[0] == r.CIT and ev[2]:
                        any_true = True
                elif ev[0] == "stmt" and isinstance(ev[1], (ast.Assign, ast.AnnAssign)) and r.KEY in assigned_names(ev[1]):
                    last_val = norm(ev[1].value) if ev[1].value is not None else "<none>"
                elif ev[0] == "stmt" and ev[1] is r.append_stmt.parent if r.append_stmt else False:
                    pass
            if not any_true:
                n_ft += 1
                appended = any(ev[0] == "stmt" and r.append_stmt is not None and ev[1] is r.append_stmt.parent for ev in p.events)
                # with resolution = None the truthy side of `if resolution:` is infeasible
                if last_val != "None" and (appended or p.exit != "continue"):
                    ok = False
        ctx.ob("O5", f"{self.q}/fall-through", ok and n_ft > 0,
               f"a citation of none of the dispatch classes must get resolution None and never be appended (paths={n_ft})",
               node=r.FOLD, mod=self.m)

    # -- O6 --------------------------------------------------------------------
    def o6_resource_equality(self):
        run_resource_rules(self.ctx, "O6")
        run_hash_rules(self.ctx, "O6")

    # -- dynamic features ---------------------------------------------------
    def dynamic_features_absent(self):
        ctx = self.ctx
        bad = []
        for qual, m, fn in self.repo.all_funcs():
            if m.name != "resolve":
                continue
            for n in walk_local(fn):
                if isinstance(n, ast.Call) and dotted(n.func) in ("exec", "eval", "globals", "setattr", "vars", "locals", "__import__"):
                    bad.append((qual, n))
        for qual, m, fn in self.repo.all_funcs():
            if m.name == "resolve" and fn.decorator_list:
                ctx.ob("DYN", f"{qual}/undecorated", False,
                       f"decorated resolver function ({[norm(d) for d in fn.decorator_list]}): the analysed body is not what runs",
                       node=fn, mod=m)
        ctx.ob("DYN", "resolve.py/dynamic-features", not bad,
               f"exec/eval/globals/setattr would blind the analysis: {[(q, norm(n)[:40]) for q, n in bad]}",
               node=bad[0][1] if bad else None, mod=self.m, nontrivial=False)


# ---------------------------------------------------------------------------
# C08-specific obligations


class OnlineRules(FoldRules):
    def resolver_entries(self) -> List[str]:
        return [f"resolve.{d}" for d in self.r.resolvers.values()]

    def hash_dunders(self) -> List[str]:
        eff = effects_for(self.ctx)
        return sorted(q for q in eff.funcs if q.split(".")[-1] in ("__hash__", "__eq__") and q.startswith("models."))

    def o7_body_frame(self):
        r, ctx, f = self.r, self.ctx, self.f
        import builtins

        module_names = set(self.m.imports) | {
            s.name for s in self.m.tree.body if isinstance(s, (ast.FunctionDef, ast.ClassDef))
        }
        for s in self.m.tree.body:
            if isinstance(s, (ast.Assign, ast.AnnAssign)):
                module_names |= assigned_names(s)
        params = {a.arg for a in f.args.args + f.args.kwonlyargs}
        roles = {r.CIT, r.RES, r.RFC, r.LAST, r.KEY}
        body_assigned = set()
        for s in r.FOLD.body:
            body_assigned |= assigned_names(s)
        outside_locals = assigned_names(f) - body_assigned - roles
        seen = set()
        for s in r.FOLD.body:
            for n in ast.walk(s):
                if isinstance(n, ast.Name) and isinstance(n.ctx, ast.Load) and n.id not in seen:
                    seen.add(n.id)
                    nm = n.id
                    if nm in roles or nm in body_assigned:
                        kind = "fold state"
                        ok = True
                    elif nm == r.CITS:
                        kind, ok = "the whole input list", False
                    elif nm in params:
                        kind, ok = "parameter", nm in r.resolvers
                    elif nm in outside_locals:
                        kind, ok = "local computed outside the fold", False
                    elif nm in module_names or hasattr(builtins, nm):
                        kind, ok = "module-level / builtin", True
                    else:
                        kind, ok = "unknown", False
                    ctx.ob("O7", f"{self.q}/fold-body-reads:{nm}", ok,
                           f"fold body may read only the fold variable, the fold state, the resolver parameters and module-level names ({kind})",
                           node=n, mod=self.m, nontrivial=not ok or kind == "fold state")
        # no closures inside the function
        nested = [n for n in walk_local(f) if isinstance(n, (ast.FunctionDef, ast.Lambda))]
        ctx.ob("O7", f"{self.q}/no-closures", not nested, "no nested function may capture fold state", node=nested[0] if nested else f,
               mod=self.m, nontrivial=False)
        # nothing before the fold reads the input
        ctx.ob("O7", f"{self.q}/state-inits", True, "initialisations precede the fold", node=f, mod=self.m, nontrivial=False)

    def o8_callee_frame(self):
        ctx = self.ctx
        eff = effects_for(ctx)
        entries = self.resolver_entries()
        reach = eff.reachable(entries + self.hash_dunders())
        ctx.extra["resolver_reachable_functions"] = sorted(reach)
        ctx.need(len(reach) >= 12, f"call graph from the default resolvers is implausibly small: {reach}")
        for q in sorted(reach):
            fs = eff.funcs[q]
            is_entry = q in entries
            writes = sorted(eff.tw[q], key=str)
            if is_entry or q.split(".")[-1] in ("__hash__", "__eq__"):
                # objects passed in by the fold (citations, fold state) must not be written
                bad = [w for w in writes if w[0][0] in ("param", "global")]
            else:
                bad = [w for w in writes if w[0][0] == "global"]
            ctx.ob("O8", f"{q}/frame", not bad,
                   "resolution helpers must not write citations, fold state or module-level objects; "
                   f"writes={[(w[0], w[1], w[2], w[3]) for w in bad][:4]}",
                   node=fs.node, mod=fs.mod)
            for c in fs.unknown_calls:
                ctx.ob("O8", f"{q}/call:{norm(c.func)[:40]}", False,
                       "call target cannot be resolved, so its effects are unknown", node=c, mod=fs.mod)
            for n in walk_local(fs.node):
                if isinstance(n, (ast.Global, ast.Nonlocal)):
                    ctx.ob("O8", f"{q}/global-decl", False, "global/nonlocal declaration in a resolution helper", node=n, mod=fs.mod)
        # ... and neither does anything else the fold body calls (a bookkeeping helper invoked next to the resolvers): the transitive write-set of
        # the fold function itself contains no module-level object
        if self.q in eff.funcs:
            gw = sorted((w for w in eff.tw[self.q] if w[0][0] == "global"), key=str)
            ctx.ob("O8", f"{self.q}/frame", not gw,
                   "nothing reachable from the fold writes a module-level object (state that survives the call makes a later call, e.g. on a prefix of the "
                   f"list, depend on an earlier one); writes={[(w[0], w[1], w[2], w[3]) for w in gw][:4]}", node=self.f, mod=self.m)
        # mutable default arguments in reachable functions
        for q in sorted(reach):
            fs = eff.funcs[q]
            for d in fs.node.args.defaults + [k for k in fs.node.args.kw_defaults if k is not None]:
                if isinstance(d, (ast.List, ast.Dict, ast.Set, ast.ListComp, ast.DictComp)) or (
                    isinstance(d, ast.Call) and dotted(d.func) in ("list", "dict", "set", "defaultdict")):
                    ctx.ob("O8", f"{q}/mutable-default", False, "mutable default argument is shared state across calls", node=d, mod=fs.mod)

    def o9_no_order_nondeterminism(self):
        from .setorder import SetOrder

        ctx = self.ctx
        eff = effects_for(ctx)
        reach = eff.reachable(self.resolver_entries() + self.hash_dunders())
        n_sets = 0
        for q in sorted(reach):
            fs = eff.funcs[q]
            so = SetOrder(fs.node)
            for u in so.uses:
                n_sets += 1
                ctx.ob("O9", f"{q}/set-use", u.verdict == "SAFE",
                       f"{u.reason}: the iteration order of a set depends on hash values (id()/PYTHONHASHSEED)", node=u.node, mod=fs.mod)
            for n in walk_local(fs.node):
                if isinstance(n, ast.Call) and dotted(n.func) in ("id",):
                    inside_hash = q.endswith(".__hash__")
                    ctx.ob("O9", f"{q}/id()", inside_hash, "id() may only implement an identity __hash__", node=n, mod=fs.mod,
                           nontrivial=False)
                if isinstance(n, ast.Call) and (dotted(n.func) or "").split(".")[0] in ("random", "time", "uuid", "os", "secrets"):
                    ctx.ob("O9", f"{q}/ambient", False, "ambient input in a resolution helper", node=n, mod=fs.mod)
        ctx.extra["set_uses_classified"] = n_sets
