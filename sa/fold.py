"""Role binding and shared obligations for resolve.resolve_citations, the left
fold that produces the resolution mapping (C06, C07, C08).

Roles are bound from structure, not from names:
  CITS  first parameter of resolve_citations
  RES   the name returned by the function
  FOLD  the single `for` whose iterable is CITS
  CIT   FOLD's target
  KEY   the subscript variable of the one `RES[KEY].append(CIT)` statement
  LAST  the variable initialised to None before FOLD and assigned from KEY in it
  RFC   the list that receives `(CIT, KEY)` tuples in FOLD
  resolver parameters: parameters whose default is a module-level function
"""
from __future__ import annotations

import ast
from typing import Dict, List, Optional, Set, Tuple

from .core import AnalysisError, Ctx, Module, Repo, dotted, norm, walk_local, stmts_local
from .paths import enumerate_paths

MUTATORS = {
    "append", "extend", "insert", "pop", "remove", "clear", "sort", "reverse",
    "update", "add", "discard", "setdefault", "popitem", "__setitem__",
    "__delitem__", "appendleft", "extendleft", "move_to_end", "difference_update",
    "intersection_update", "symmetric_difference_update",
}


class Roles:
    pass


def bind_roles(repo: Repo) -> Roles:
    m = repo.mod("resolve")
    f = repo.need_func("resolve.resolve_citations")
    r = Roles()
    r.mod, r.func = m, f
    args = f.args.args
    if not args:
        raise AnalysisError("resolve_citations has no parameters")
    r.CITS = args[0].arg
    # resolver parameters and their default functions
    r.resolvers: Dict[str, str] = {}
    defaults = f.args.defaults
    for a, d in zip(args[len(args) - len(defaults):], defaults):
        if isinstance(d, ast.Name) and repo.func(f"resolve.{d.id}") is not None:
            r.resolvers[a.arg] = d.id
    for a, d in zip(f.args.kwonlyargs, f.args.kw_defaults):
        if isinstance(d, ast.Name) and repo.func(f"resolve.{d.id}") is not None:
            r.resolvers[a.arg] = d.id
    if len(r.resolvers) < 5:
        raise AnalysisError(
            f"resolve_citations: expected >=5 resolver parameters with module-level defaults, found {sorted(r.resolvers)}"
        )
    # returned name
    rets = [n for n in walk_local(f) if isinstance(n, ast.Return)]
    r.returns = rets
    names = {n.value.id for n in rets if isinstance(n.value, ast.Name)}
    r.RES = next(iter(names)) if len(names) == 1 else None
    # the fold
    loops = [
        n for n in walk_local(f)
        if isinstance(n, ast.For) and isinstance(n.iter, ast.Name) and n.iter.id == r.CITS
    ]
    loops.sort(key=lambda n: n.lineno)
    r.folds = loops
    r.FOLD = loops[0] if loops else None
    r.CIT = r.FOLD.target.id if r.FOLD is not None and isinstance(r.FOLD.target, ast.Name) else None
    # append sites on RES
    r.KEY = None
    r.append_stmt = None
    if r.RES and r.FOLD is not None:
        for n in walk_local(f):
            if (
                isinstance(n, ast.Call)
                and isinstance(n.func, ast.Attribute)
                and n.func.attr == "append"
                and isinstance(n.func.value, ast.Subscript)
                and isinstance(n.func.value.value, ast.Name)
                and n.func.value.value.id == r.RES
                and isinstance(n.func.value.slice, ast.Name)
            ):
                r.KEY = n.func.value.slice.id
                r.append_stmt = n
                break
    # RFC: list receiving (CIT, KEY)
    r.RFC = None
    r.rfc_appends = []
    if r.FOLD is not None:
        for n in walk_local(f):
            if (
                isinstance(n, ast.Call)
                and isinstance(n.func, ast.Attribute)
                and n.func.attr == "append"
                and isinstance(n.func.value, ast.Name)
                and n.args
                and isinstance(n.args[0], ast.Tuple)
                and len(n.args[0].elts) == 2
                and all(isinstance(e, ast.Name) for e in n.args[0].elts)
                and n.args[0].elts[0].id == r.CIT
            ):
                r.RFC = n.func.value.id
                r.rfc_appends.append(n)
    # LAST: assigned from KEY inside the fold, initialised before it
    r.LAST = None
    r.last_assigns = []
    if r.FOLD is not None and r.KEY:
        for s in stmts_local(r.FOLD.body):
            if (
                isinstance(s, ast.Assign)
                and len(s.targets) == 1
                and isinstance(s.targets[0], ast.Name)
                and isinstance(s.value, ast.Name)
                and s.value.id == r.KEY
            ):
                r.LAST = s.targets[0].id
                r.last_assigns.append(s)
    return r


# ---------------------------------------------------------------------------
# provenance of values returned by the default resolvers

NONE, LAST, RESV, CITV, PAIRS, PAIR = "NONE", "LAST", "RES", "CIT", "PAIRS", "PAIR"


def LISTOF(x):
    return f"LIST[{x}]"


class Prov:
    """Flow-insensitive provenance of expressions inside one resolver, with
    one level per callee (recursion through module-level functions of
    resolve.py)."""

    def __init__(self, repo: Repo, func: ast.FunctionDef, param_roles: Dict[str, str], depth=0):
        self.repo = repo
        self.func = func
        self.roles = dict(param_roles)
        self.depth = depth
        self.env: Dict[str, Set[str]] = {}
        self.params = [a.arg for a in func.args.args]
        from .core import assigned_names

        self.assigned = assigned_names(func)
        self._solve()

    def _solve(self):
        for p in self.params:
            self.env[p] = {self.roles.get(p, f"PARAM:{p}")}
        changed = True
        rounds = 0
        while changed and rounds < 10:
            changed = False
            rounds += 1
            for n in walk_local(self.func):
                new: List[Tuple[str, Set[str]]] = []
                if isinstance(n, ast.Assign):
                    for t in n.targets:
                        new += self._bind(t, n.value)
                elif isinstance(n, ast.AnnAssign) and n.value is not None:
                    new += self._bind(n.target, n.value)
                elif isinstance(n, ast.NamedExpr):
                    new += self._bind(n.target, n.value)
                elif isinstance(n, (ast.For, ast.comprehension)):
                    new += self._bind_iter(n.target, n.iter)
                elif (
                    isinstance(n, ast.Call)
                    and isinstance(n.func, ast.Attribute)
                    and isinstance(n.func.value, ast.Name)
                    and n.func.attr in ("append", "add")
                    and n.args
                ):
                    v = self.of(n.args[0])
                    cont = set()
                    for x in v:
                        if x == "EMPTY":
                            continue
                        if x == PAIR:
                            cont.add(PAIRS)
                        else:
                            cont.add(LISTOF(x))
                    new.append((n.func.value.id, cont))
                for name, vals in new:
                    cur = self.env.setdefault(name, set())
                    # an empty-literal initialisation contributes nothing
                    if not vals <= cur:
                        cur |= vals
                        changed = True

    def _bind(self, target, value) -> List[Tuple[str, Set[str]]]:
        if isinstance(target, ast.Name):
            return [(target.id, self.of(value))]
        if isinstance(target, (ast.Tuple, ast.List)):
            out = []
            v = self.of(value)
            if v == {"EMPTY"}:
                return []
            for i, t in enumerate(target.elts):
                if isinstance(t, ast.Name):
                    if v == {PAIR} and len(target.elts) == 2:
                        out.append((t.id, {CITV if i == 0 else RESV}))
                    else:
                        out.append((t.id, {f"OTHER:unpack({norm(value)[:40]})"}))
            return out
        return []

    def _bind_iter(self, target, it) -> List[Tuple[str, Set[str]]]:
        v = self.of(it)
        elem: Set[str] = set()
        for x in v:
            if x == PAIRS:
                elem.add(PAIR)
            elif x.startswith("LIST[") or x.startswith("SET["):
                elem.add(x[x.index("[") + 1:-1])
            elif x == "EMPTY":
                pass
            else:
                elem.add(f"OTHER:iter({x})")
        if isinstance(target, ast.Name):
            return [(target.id, elem)]
        if isinstance(target, (ast.Tuple, ast.List)) and len(target.elts) == 2:
            out = []
            for i, t in enumerate(target.elts):
                if isinstance(t, ast.Name):
                    if elem <= {PAIR}:
                        out.append((t.id, {CITV if i == 0 else RESV}))
                    else:
                        out.append((t.id, {f"OTHER:iter-unpack({norm(it)[:40]})"}))
            return out
        return []

    def of(self, e: ast.AST) -> Set[str]:
        if isinstance(e, ast.Constant):
            return {NONE} if e.value is None else {f"CONST:{e.value!r}"}
        if isinstance(e, ast.Name):
            if e.id in self.env:
                vals = set(self.env[e.id])
                if len(vals) > 1:
                    vals.discard("EMPTY")
                return vals or {"EMPTY"}
            if e.id in self.assigned:
                return {"EMPTY"}  # bottom: not bound yet in this round
            return {f"GLOBAL:{e.id}"}
        if isinstance(e, (ast.List, ast.Set, ast.Tuple)) and not e.elts:
            return {"EMPTY"}
        if isinstance(e, ast.Tuple) and len(e.elts) == 2:
            a, b = self.of(e.elts[0]), self.of(e.elts[1])
            if a == {"EMPTY"} or b == {"EMPTY"}:
                return {"EMPTY"}
            if a == {CITV} and b == {RESV}:
                return {PAIR}
            return {f"OTHER:tuple({norm(e)[:40]})"}
        if isinstance(e, ast.IfExp):
            return self.of(e.body) | self.of(e.orelse)
        if isinstance(e, ast.BoolOp):
            out = set()
            for v in e.values:
                out |= self.of(v)
            return out
        if isinstance(e, ast.NamedExpr):
            return self.of(e.value)
        if isinstance(e, ast.Subscript):
            base = self.of(e.value)
            out = set()
            idx = e.slice
            for x in base:
                if isinstance(idx, ast.Slice):
                    out.add(x)
                elif x == PAIRS:
                    out.add(PAIR)
                elif x == PAIR and isinstance(idx, ast.Constant) and idx.value in (0, 1, -1, -2):
                    out.add(CITV if idx.value in (0, -2) else RESV)
                elif x.startswith("LIST["):
                    out.add(x[5:-1])
                elif x == "EMPTY":
                    pass
                else:
                    out.add(f"OTHER:subscript({norm(e)[:40]})")
            return out or {"EMPTY"}
        if isinstance(e, (ast.ListComp, ast.SetComp, ast.GeneratorExp)):
            # element provenance; generators bound by _solve via ast.comprehension
            el = self.of(e.elt)
            out = set()
            for x in el:
                if x == "EMPTY":
                    continue
                out.add(PAIRS if x == PAIR else LISTOF(x))
            return out or {"EMPTY"}
        if isinstance(e, ast.Call):
            fn = dotted(e.func)
            if fn in ("list", "set", "tuple", "dict", "frozenset") and not e.args and not e.keywords:
                return {"EMPTY"}
            if fn in ("list", "set", "tuple", "sorted", "frozenset", "reversed") and len(e.args) == 1:
                return self.of(e.args[0])
            if fn in ("cast", "typing.cast") and len(e.args) == 2:
                return self.of(e.args[1])
            if fn == "next" and e.args:
                inner = self.of(e.args[0])
                out = set()
                for x in inner:
                    if x == PAIRS:
                        out.add(PAIR)
                    elif x.startswith("LIST["):
                        out.add(x[5:-1])
                    else:
                        out.add(f"OTHER:next({x})")
                if len(e.args) > 1:
                    out |= self.of(e.args[1])
                return out
            if fn == "iter" and len(e.args) == 1:
                return self.of(e.args[0])
            if fn and self.repo.func(f"resolve.{fn}") is not None and self.depth < 4:
                callee = self.repo.func(f"resolve.{fn}")
                roles = {}
                cps = [a.arg for a in callee.args.args]
                for i, a in enumerate(e.args):
                    if i < len(cps):
                        v = self.of(a)
                        if len(v) == 1:
                            roles[cps[i]] = next(iter(v))
                        else:
                            roles[cps[i]] = "OTHER:multi(" + "|".join(sorted(v)) + ")"
                for k in e.keywords:
                    if k.arg in cps:
                        v = self.of(k.value)
                        roles[k.arg] = next(iter(v)) if len(v) == 1 else "OTHER:multi"
                return return_prov(self.repo, callee, roles, self.depth + 1)
            cls = fn.split(".")[-1] if fn else None
            if cls and cls in self.repo.classes:
                return {f"FRESH:{cls}({','.join(sorted(self.of(a))[0] if self.of(a) else '?' for a in e.args)})"}
            return {f"OTHER:call({norm(e)[:50]})"}
        return {f"OTHER:{type(e).__name__}({norm(e)[:40]})"}


def return_prov(repo: Repo, func: ast.FunctionDef, roles: Dict[str, str], depth=0) -> Set[str]:
    p = Prov(repo, func, roles, depth)
    out: Set[str] = set()
    rets = [n for n in walk_local(func) if isinstance(n, ast.Return)]
    for r in rets:
        out |= p.of(r.value) if r.value is not None else {NONE}
    # falling off the end returns None
    ps = enumerate_paths(func.body)
    if any(q.exit == "fall" for q in ps):
        out.add(NONE)
    return out


def resolver_call_roles(roles: Roles) -> Dict[str, Dict[str, str]]:
    """For each resolver parameter of resolve_citations: role of each positional
    parameter of its default function, read from the call inside the fold."""
    out: Dict[str, Dict[str, str]] = {}
    f = roles.func
    for n in walk_local(f):
        if isinstance(n, ast.Call) and isinstance(n.func, ast.Name) and n.func.id in roles.resolvers:
            rl = []
            for a in n.args:
                if isinstance(a, ast.Name):
                    if a.id == roles.CIT:
                        rl.append("THECIT")
                    elif a.id == roles.RFC:
                        rl.append(PAIRS)
                    elif a.id == roles.LAST:
                        rl.append(LAST)
                    elif a.id == roles.RES:
                        rl.append("RESMAP")
                    else:
                        rl.append(f"OTHER:arg({a.id})")
                else:
                    rl.append(f"OTHER:arg({norm(a)[:30]})")
            out.setdefault(n.func.id, {})["__list__"] = rl  # type: ignore
    return out
