"""Path enumeration over Python's structured statements.

A *path* is a list of events through a statement list:
  ("stmt", node)                 a simple statement executed
  ("cond", expr, True|False)     an atomic branch condition and its outcome
                                 (`and`/`or`/`not` are split into atoms)
  ("loop", node, "enter"|"skip"|"exit")  a nested for/while
  ("iter", node)                 for-target bound (after "enter")
  ("except", handler)            control transferred into an except handler
  ("with", node)                 with-items evaluated
ending in an exit kind: "fall" | "return" | "continue" | "break" | "raise".

Nested loops are traversed for zero or one iteration; clients must treat a
("loop", n, "enter") event as killing every fact about names assigned inside n
(see core.assigned_names) -- that is the usual widening and keeps the
enumeration finite and sound for must-facts.

try/except: the handler may be entered after any prefix of the try body
(including the empty prefix and after the full body is *not* included: a body
that completed cannot raise).  `finally` bodies are appended on every exit.

Statement kinds outside the supported set raise AnalysisError (fail closed).
"""
from __future__ import annotations

import ast
from typing import List, Optional, Tuple

from .core import AnalysisError

MAX_PATHS = 60000

SIMPLE = (
    ast.Assign,
    ast.AugAssign,
    ast.AnnAssign,
    ast.Expr,
    ast.Pass,
    ast.Import,
    ast.ImportFrom,
    ast.Delete,
    ast.Global,
    ast.Nonlocal,
    ast.Assert,
    ast.FunctionDef,
    ast.ClassDef,
)


class Path:
    __slots__ = ("events", "exit", "exit_node")

    def __init__(self, events, exit_kind="fall", exit_node=None):
        self.events = events
        self.exit = exit_kind
        self.exit_node = exit_node

    def extend(self, other: "Path") -> "Path":
        return Path(self.events + other.events, other.exit, other.exit_node)

    def __repr__(self):
        return f"<Path {len(self.events)} events -> {self.exit}>"


def cond_paths(expr: ast.expr) -> List[Tuple[list, bool]]:
    """All ways to evaluate a condition: list of (events, outcome)."""
    if isinstance(expr, ast.BoolOp):
        is_and = isinstance(expr.op, ast.And)
        # results: list of (events, outcome) for the prefix evaluated so far
        acc: List[Tuple[list, Optional[bool]]] = [([], None)]
        final: List[Tuple[list, bool]] = []
        for i, v in enumerate(expr.values):
            nxt = []
            for ev, _ in acc:
                for ev2, out in cond_paths(v):
                    if (is_and and not out) or (not is_and and out):
                        final.append((ev + ev2, out))  # short circuit
                    elif i == len(expr.values) - 1:
                        final.append((ev + ev2, out))
                    else:
                        nxt.append((ev + ev2, None))
            acc = nxt
        return final
    if isinstance(expr, ast.UnaryOp) and isinstance(expr.op, ast.Not):
        return [(ev, not out) for ev, out in cond_paths(expr.operand)]
    return [([("cond", expr, True)], True), ([("cond", expr, False)], False)]


def enumerate_paths(stmts: List[ast.stmt], in_loop: bool = False) -> List[Path]:
    """all paths through `stmts`, minus those a path-sensitive look at None /
    constant / tuple temporaries shows to be infeasible (see pathsimp)"""
    from .pathsimp import simplify_events

    out = []
    for p in _enumerate_raw(stmts):
        ev = simplify_events(p.events)
        if ev is None:
            continue
        if ev is not p.events:
            p = Path(ev, p.exit, p.exit_node)
        out.append(p)
    return out


def _enumerate_raw(stmts: List[ast.stmt]) -> List[Path]:
    paths = [Path([])]
    for s in stmts:
        live = [p for p in paths if p.exit == "fall"]
        done = [p for p in paths if p.exit != "fall"]
        if not live:
            break
        sub = _stmt_paths(s)
        new = []
        for p in live:
            for q in sub:
                new.append(p.extend(q))
        paths = done + new
        if len(paths) > MAX_PATHS:
            raise AnalysisError(f"more than {MAX_PATHS} paths at line {s.lineno}")
    return paths


def _stmt_paths(s: ast.stmt) -> List[Path]:
    if isinstance(s, SIMPLE):
        return [Path([("stmt", s)])]
    if isinstance(s, ast.Return):
        return [Path([("stmt", s)], "return", s)]
    if isinstance(s, ast.Raise):
        return [Path([("stmt", s)], "raise", s)]
    if isinstance(s, ast.Continue):
        return [Path([("stmt", s)], "continue", s)]
    if isinstance(s, ast.Break):
        return [Path([("stmt", s)], "break", s)]
    if isinstance(s, ast.If):
        out = []
        for ev, res in cond_paths(s.test):
            body = s.body if res else s.orelse
            for q in enumerate_paths(body) if body else [Path([])]:
                out.append(Path(ev + q.events, q.exit, q.exit_node))
        return out
    if isinstance(s, (ast.For, ast.While)):
        out = []
        # a while loop evaluates its test: false to skip / leave, true to enter
        if isinstance(s, ast.While):
            skips = [ev for ev, res in cond_paths(s.test) if not res]
            enters = [ev for ev, res in cond_paths(s.test) if res]
            is_true_const = isinstance(s.test, ast.Constant) and bool(s.test.value)
            if is_true_const:
                skips, enters = [], [[]]
        else:
            skips, enters = [[]], [[]]
        # zero iterations
        for sk in skips:
            skip_ev = [("loop", s, "skip")] + sk
            for q in enumerate_paths(s.orelse) if s.orelse else [Path([])]:
                out.append(Path(skip_ev + q.events, q.exit, q.exit_node))
        # one (representative) iteration
        for en in enters:
            enter = [("loop", s, "enter")] + en
            if isinstance(s, ast.For):
                enter.append(("iter", s))
            for q in enumerate_paths(s.body):
                ev = enter + q.events
                if q.exit in ("fall", "continue"):
                    ev = ev + [("loop", s, "exit")]
                    for r in enumerate_paths(s.orelse) if s.orelse else [Path([])]:
                        out.append(Path(ev + r.events, r.exit, r.exit_node))
                elif q.exit == "break":
                    out.append(Path(ev + [("loop", s, "exit")]))
                else:
                    out.append(Path(ev, q.exit, q.exit_node))
        return out
    if isinstance(s, ast.With):
        out = []
        for q in enumerate_paths(s.body):
            out.append(Path([("with", s)] + q.events, q.exit, q.exit_node))
        return out
    if isinstance(s, ast.Try):
        out = []
        body_paths = enumerate_paths(s.body)
        normal = []
        for q in body_paths:
            if q.exit == "fall" and s.orelse:
                for r in enumerate_paths(s.orelse):
                    normal.append(q.extend(r))
            else:
                normal.append(q)
        # exceptional: handler entered after any proper prefix of a body path
        exc = []
        seen = set()
        for q in body_paths:
            n = len(q.events)
            for k in range(0, n + (1 if q.exit == "raise" else 0)):
                prefix = q.events[:k]
                key = tuple(id(e[1]) for e in prefix) + tuple(
                    e[2] if len(e) > 2 else None for e in prefix
                )
                if key in seen:
                    continue
                seen.add(key)
                for h in s.handlers:
                    for r in enumerate_paths(h.body):
                        exc.append(
                            Path(prefix + [("except", h)] + r.events, r.exit, r.exit_node)
                        )
        allp = normal + exc
        if s.finalbody:
            fin = enumerate_paths(s.finalbody)
            out = []
            for q in allp:
                for f in fin:
                    if f.exit == "fall":
                        out.append(Path(q.events + f.events, q.exit, q.exit_node))
                    else:
                        out.append(Path(q.events + f.events, f.exit, f.exit_node))
            return out
        return allp
    raise AnalysisError(
        f"unsupported statement kind {type(s).__name__} at line {getattr(s, 'lineno', '?')}"
    )


def loop_body_paths(loop: ast.For | ast.While) -> List[Path]:
    """Paths through one iteration of a loop body (exit fall == continue)."""
    return enumerate_paths(loop.body)


def find_loops(func: ast.FunctionDef) -> List[ast.stmt]:
    from .core import walk_local

    return sorted(
        [n for n in walk_local(func) if isinstance(n, (ast.For, ast.While))],
        key=lambda n: n.lineno,
    )


def guards_of(paths: List[Path], stmt: ast.stmt):
    """Branch outcomes common to every path that executes `stmt`, restricted
    to the events *before* it: list of (expr, outcome).  Also returns the
    number of paths reaching stmt."""
    common = None
    n = 0
    for p in paths:
        idx = None
        for i, ev in enumerate(p.events):
            if ev[0] == "stmt" and (ev[1] is stmt or getattr(ev[1], "_orig", None) is stmt):
                idx = i
                break
        if idx is None:
            continue
        n += 1
        conds = {}
        for ev in p.events[:idx]:
            if ev[0] == "cond":
                conds[id(ev[1])] = (ev[1], ev[2])
        if common is None:
            common = conds
        else:
            common = {k: v for k, v in common.items() if k in conds and conds[k][1] == v[1]}
    return list((common or {}).values()), n


def stmt_of(node: ast.AST) -> ast.stmt:
    while not isinstance(node, ast.stmt):
        node = node.parent  # type: ignore[attr-defined]
    return node
