"""Is a use of an expression dominated by a truthiness / not-None test of it?

`guarded(fn, use_node, texts)` is True when, on every path through fn.body that
evaluates `use_node`, a branch condition established one of `texts` (normalised
source of the guarded expression) truthy after the last rebinding of its root
name -- or when the use sits behind the guard inside the same `and` / ternary.
"""
from __future__ import annotations

import ast
from typing import Iterable, List, Optional, Sequence, Set

from .core import assigned_names, norm, order_index
from .paths import enumerate_paths

_PATH_CACHE = {}


def paths_of(fn: ast.FunctionDef):
    k = id(fn)
    if k not in _PATH_CACHE:
        _PATH_CACHE[k] = enumerate_paths(fn.body)
    return _PATH_CACHE[k]


def _root(text: str) -> str:
    for i, ch in enumerate(text):
        if not (ch.isalnum() or ch == "_"):
            return text[:i]
    return text


def truth_of(cond: ast.AST, outcome: bool, texts: Set[str]) -> Optional[bool]:
    """does (cond, outcome) establish the guarded expression truthy (True) or
    falsy (False)?"""
    t = norm(cond)
    if t in texts:
        return outcome
    for x in texts:
        if t == f"{x} is not None":
            return True if outcome else False
        if t == f"{x} is None":
            return False if outcome else True
        if t in (f"len({x}) == 1", f"len({x}) > 0", f"len({x}) >= 1", f"len({x}) > 1") and outcome:
            return True
        if outcome and isinstance(cond, ast.Compare) and len(cond.ops) == 1 and norm(cond.left) == f"len({x})" and isinstance(cond.comparators[0], ast.Constant) \
                and isinstance(cond.comparators[0].value, int):
            k = cond.comparators[0].value
            if (isinstance(cond.ops[0], ast.Gt) and k >= 0) or (isinstance(cond.ops[0], (ast.GtE, ast.Eq)) and k >= 1):
                return True
        if t == f"len({x}) == 0" and not outcome:
            return True
        if t == f"isinstance({x}, str)" and outcome:
            return True
    return None


def local_guard(use: ast.AST, texts: Set[str]) -> bool:
    cur = use
    while not isinstance(cur, ast.stmt):
        par = cur.parent
        if isinstance(par, ast.BoolOp) and isinstance(par.op, ast.And):
            idx = next(i for i, v in enumerate(par.values) if v is cur)
            for v in par.values[:idx]:
                if truth_of(v, True, texts) is True:
                    return True
        if isinstance(par, ast.BoolOp) and isinstance(par.op, ast.Or):
            idx = next(i for i, v in enumerate(par.values) if v is cur)
            for v in par.values[:idx]:
                # `not x or use(x)`
                if isinstance(v, ast.UnaryOp) and isinstance(v.op, ast.Not) and truth_of(v.operand, True, texts) is True:
                    return True
        if isinstance(par, ast.IfExp):
            if par.body is cur and truth_of(par.test, True, texts) is True:
                return True
            if par.orelse is cur and truth_of(par.test, False, texts) is True:
                return True
        if isinstance(par, ast.comprehension) and cur in par.ifs:
            idx = par.ifs.index(cur)
            for v in par.ifs[:idx]:
                if truth_of(v, True, texts) is True:
                    return True
        if isinstance(par, (ast.ListComp, ast.SetComp, ast.GeneratorExp, ast.DictComp)) and cur is getattr(par, "elt", None):
            for g in par.generators:
                for v in g.ifs:
                    if truth_of(v, True, texts) is True:
                        return True
        cur = par
    return False


def guarded(fn: ast.FunctionDef, use: ast.AST, texts: Iterable[str]) -> bool:
    texts = set(texts)
    if local_guard(use, texts):
        return True
    roots = {_root(t) for t in texts}
    # locals that name a condition: bound once, to a comparison / boolean combination, and the guarded names are not rebound afterwards
    # (a rebinding resets `state` anyway, so a stale flag can only be used to *lose* a guard when the root is rebound between flag and test:
    # that order is checked through `state = False` on the rebinding event followed by the flag test -> handled by requiring the flag's
    # definition to come after every rebinding of the roots)
    flags = {}
    binds = {}
    for x in ast.walk(fn):
        if isinstance(x, (ast.Assign, ast.AugAssign, ast.AnnAssign, ast.For, ast.NamedExpr, ast.With)):
            for nm in assigned_names(x):
                binds.setdefault(nm, []).append(x)
    for nm, bs in binds.items():
        if len(bs) == 1 and isinstance(bs[0], ast.Assign) and len(bs[0].targets) == 1 and isinstance(bs[0].targets[0], ast.Name) \
                and isinstance(bs[0].value, (ast.BoolOp, ast.Compare, ast.Call)) and bs[0] in fn.body:
            oi = order_index(fn)
            later_rebind = any(oi.get(id(b), 0) > oi.get(id(bs[0]), 0) for r_ in roots for b in binds.get(r_, []))
            if not later_rebind:
                flags[nm] = bs[0].value
    contains = lambda node: any(n is use for n in ast.walk(node))  # noqa: E731
    n_paths = 0
    for p in paths_of(fn):
        state = False
        hit = False
        for ev in p.events:
            node = ev[1] if len(ev) > 1 else None
            if ev[0] == "cond":
                if contains(ev[1]):
                    hit = True
                    break
                r = truth_of(ev[1], ev[2], texts)
                if r is None and isinstance(ev[1], ast.Name) and ev[1].id in flags:
                    # a named condition: `ok = isinstance(x, str) and len(x) > 2` ... `if not ok: return`
                    d = flags[ev[1].id]
                    parts = d.values if isinstance(d, ast.BoolOp) else [d]
                    if (isinstance(d, ast.BoolOp) and isinstance(d.op, ast.And) and ev[2]) or (isinstance(d, ast.BoolOp) and isinstance(d.op, ast.Or) and not ev[2]) \
                            or not isinstance(d, ast.BoolOp):
                        for c_ in parts:
                            r_ = truth_of(c_, ev[2], texts)
                            if r_ is not None:
                                r = r_
                if r is not None:
                    state = r
            elif ev[0] == "stmt":
                if contains(ev[1]):
                    # an assignment `x = f(use)` evaluates the use before rebinding
                    hit = True
                    break
                if roots & assigned_names(ev[1]):
                    state = False
            elif ev[0] == "loop":
                if isinstance(ev[1], ast.For) and contains(ev[1].iter):
                    hit = True
                    break
                if ev[2] == "enter" and roots & assigned_names(ev[1]):
                    state = False
            elif ev[0] == "with":
                if any(contains(i.context_expr) for i in ev[1].items):
                    hit = True
                    break
        if hit:
            n_paths += 1
            if not state:
                return False
    return n_paths > 0
