"""Programmatic behaviour-preserving rewrites of a whole scratch copy of
eyecite/ (thorough tier: every check must stay silent on each of them).

  reformat        every module re-emitted with ast.unparse (comments gone,
                  layout and all line numbers changed)
  logging         a logging call inserted as first statement of every function
  rename-locals   every local variable (not parameters, not names shared with
                  nested functions' parameters) of every function renamed
"""
from __future__ import annotations

import ast
from pathlib import Path

SKIP = {"regexes.py", "__init__.py", "test_factories.py"}


def reformat(pkg: Path):
    for p in pkg.glob("*.py"):
        p.write_text(ast.unparse(ast.parse(p.read_text())) + "\n")


def logging_calls(pkg: Path):
    for p in pkg.glob("*.py"):
        if p.name in SKIP:
            continue
        src = p.read_text()
        tree = ast.parse(src)
        lines = src.splitlines()
        ins = []
        for n in ast.walk(tree):
            if isinstance(n, ast.FunctionDef) and not any(isinstance(d, ast.Name) and d.id in ("property", "staticmethod", "classmethod") for d in n.decorator_list):
                first = n.body[0]
                if isinstance(first, ast.Expr) and isinstance(first.value, ast.Constant) and isinstance(first.value.value, str) and len(n.body) > 1:
                    first = n.body[1]
                ins.append((first.lineno, first.col_offset))
        for ln, col in sorted(set(ins), reverse=True):
            lines.insert(ln - 1, " " * col + "logging.getLogger(__name__).debug('enter')")
        out = "\n".join(lines) + "\n"
        if "import logging" not in out:
            out = "import logging\n" + out
        ast.parse(out)
        p.write_text(out)


class _Renamer(ast.NodeTransformer):
    def __init__(self, mapping):
        self.m = mapping

    def visit_Name(self, n):
        if n.id in self.m:
            n.id = self.m[n.id]
        return n

    def visit_ExceptHandler(self, n):
        if n.name in self.m:
            n.name = self.m[n.name]
        self.generic_visit(n)
        return n


def _locals_of(fn):
    params = {a.arg for a in fn.args.posonlyargs + fn.args.args + fn.args.kwonlyargs}
    if fn.args.vararg:
        params.add(fn.args.vararg.arg)
    if fn.args.kwarg:
        params.add(fn.args.kwarg.arg)
    glob, assigned, nested_params = set(), set(), set()
    for n in ast.walk(fn):
        if isinstance(n, (ast.Global, ast.Nonlocal)):
            glob |= set(n.names)
        if isinstance(n, ast.Name) and isinstance(n.ctx, (ast.Store, ast.Del)):
            assigned.add(n.id)
        if isinstance(n, ast.ExceptHandler) and n.name:
            assigned.add(n.name)
        if isinstance(n, (ast.FunctionDef, ast.Lambda)) and n is not fn:
            a = n.args
            nested_params |= {x.arg for x in a.posonlyargs + a.args + a.kwonlyargs}
        if isinstance(n, (ast.Import, ast.ImportFrom)):
            for a in n.names:
                glob.add((a.asname or a.name).split(".")[0])
        if isinstance(n, ast.FunctionDef) and n is not fn:
            glob.add(n.name)
    return {x for x in assigned if x not in params and x not in glob and x not in nested_params and not x.startswith("_") and x != "self"}


def rename_locals(pkg: Path):
    for p in pkg.glob("*.py"):
        if p.name in SKIP:
            continue
        tree = ast.parse(p.read_text())

        def handle(body):
            for n in body:
                if isinstance(n, ast.FunctionDef):
                    _Renamer({x: x + "_v" for x in _locals_of(n)}).visit(n)
                elif isinstance(n, ast.ClassDef):
                    handle(n.body)

        handle(tree.body)
        p.write_text(ast.unparse(tree) + "\n")


GENERATORS = {"reformat": reformat, "logging": logging_calls, "rename-locals": rename_locals}
