"""Two-way validation of the checker (thorough tier, DESIGN section 4).

Variants of /repo/eyecite are produced in a scratch directory (mktemp, removed
after each variant) by exact-once text replacement or by applying a stored
patch; they are *analysed*, never imported or executed.

  breaking  the property's rules must report at least one new failing
            obligation (and, when `rule` is given, one of that rule)
  benign    behaviour-preserving rewrite: the set of failing obligations must
            be the same as on the unmodified tree

A variant whose anchor text is not present exactly once (because /repo has
changed) is skipped and counted as such.  A missed breaking variant or a flagged
benign one means the checker is broken: AnalysisError (exit 2), no verdict.
"""
from __future__ import annotations

import importlib
import json
import os
import shutil
import subprocess
import tempfile
from pathlib import Path
from typing import Any, Dict, List, Optional

from .core import AnalysisError, Ctx, Repo, VERIF


def _failing(ctx: Ctx) -> set:
    return {(o["rule"], o["construct"]) for o in ctx.obs if not o["ok"]}


def analyse(prop: str, root: Path) -> set:
    from . import foldrules

    foldrules._EFFECTS_CACHE.clear()
    repo = Repo(root)
    c = Ctx(repo, prop, "quick", 0)
    c.only_rule = None
    c.selftest = False
    c.in_selftest = True
    mod = importlib.import_module(f"sa.props.{prop.lower()}")
    try:
        mod.run(c)
    except AnalysisError as e:
        return {("ANALYSIS-ERROR", str(e)[:80])}
    return _failing(c)


def make_variant(base: Path, v: Dict[str, Any]) -> Optional[Path]:
    d = Path(tempfile.mkdtemp(prefix="sa-variant-", dir=os.environ.get("TMPDIR", "/tmp")))
    shutil.copytree(base / "eyecite", d / "eyecite", ignore=shutil.ignore_patterns("__pycache__"))
    try:
        if "gen" in v:
            from .benign_gen import GENERATORS

            GENERATORS[v["gen"]](d / "eyecite")
        elif "patch" in v:
            p = subprocess.run(["patch", "-p1", "-s", "--no-backup-if-mismatch", "-i", str(VERIF / v["patch"])], cwd=d,
                               capture_output=True, text=True)
            if p.returncode != 0:
                shutil.rmtree(d, ignore_errors=True)
                return None
        else:
            for ed in v["edits"]:
                fp = d / "eyecite" / ed["file"]
                s = fp.read_text()
                if s.count(ed["old"]) != 1:
                    shutil.rmtree(d, ignore_errors=True)
                    return None
                fp.write_text(s.replace(ed["old"], ed["new"]))
        # must still be syntactically valid Python
        import ast

        for fp in (d / "eyecite").glob("*.py"):
            ast.parse(fp.read_text())
        return d
    except SyntaxError as e:
        shutil.rmtree(d, ignore_errors=True)
        raise AnalysisError(f"self-test variant {v['id']} is not valid Python: {e}")


def _one_variant(args):
    prop, root, v = args
    d = make_variant(Path(root), v)
    if d is None:
        return None
    try:
        return analyse(prop, d)
    finally:
        shutil.rmtree(d, ignore_errors=True)


def run_selftest(ctx: Ctx, prop: str) -> Dict[str, Any]:
    from .mutants import VARIANTS

    base_fail = _failing(ctx)
    todo = [v for v in VARIANTS if prop in v["props"] or v["props"] == ["*"]]
    stats = {"variants": len(todo), "breaking_detected": 0, "benign_silent": 0, "skipped": 0, "details": []}
    problems = []
    import concurrent.futures as cf
    import multiprocessing as mp

    root = ctx.repo.root
    workers = max(1, min(8 if prop == "C13" else 14, len(todo), (os.cpu_count() or 2)))
    if workers > 1:
        with cf.ProcessPoolExecutor(max_workers=workers, mp_context=mp.get_context("fork")) as ex:
            results = list(ex.map(_one_variant, [(prop, str(root), v) for v in todo]))
    else:
        results = [_one_variant((prop, str(root), v)) for v in todo]
    for v, fail in zip(todo, results):
        if fail is None:
            stats["skipped"] += 1
            stats["details"].append({"id": v["id"], "result": "skipped (anchor text not found exactly once)"})
            continue
        new = fail - base_fail
        if v["kind"] == "breaking":
            want = v.get("rule", {}).get(prop) if isinstance(v.get("rule"), dict) else v.get("rule")
            hit = bool(new) and (want is None or any(r.startswith(want) for r, _ in new))
            if hit:
                stats["breaking_detected"] += 1
                stats["details"].append({"id": v["id"], "result": "detected", "rules": sorted({r for r, _ in new})[:6]})
            else:
                problems.append(f"breaking variant {v['id']} not reported (new failures: {sorted(new)[:3]}, wanted rule {want})")
        else:
            if fail == base_fail:
                stats["benign_silent"] += 1
                stats["details"].append({"id": v["id"], "result": "silent"})
            else:
                problems.append(f"benign variant {v['id']} flagged: {sorted(fail ^ base_fail)[:3]}")
    ctx.extra["selftest"] = stats
    if problems:
        raise AnalysisError("checker self-validation failed: " + " | ".join(problems))
    return stats
