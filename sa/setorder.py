"""Where can the iteration order of a set escape?  (C08-O9, C15-R1)

A *set source* is a set display, set comprehension, `set(...)`/`frozenset(...)`
call, a set-algebra expression over set sources, or a local name / self
attribute bound to one of those anywhere in the function / class (flow-
insensitive).  Every use of a set-valued expression is classified:

  SAFE   order-insensitive consumer (len, in, bool, sorted, min/max, any/all,
         set algebra, update/add into another set, equality, `list(S)[0]`
         under a `len(..) == 1` guard)
  LEAK   iteration, list()/tuple()/join()/unpacking whose result is used in
         an order-sensitive way, return, unknown call argument

The function-level result is a list of Use records; clients decide which
leaks matter (exception tables live with the client, one reason per line).
"""
from __future__ import annotations

import ast
from typing import Dict, List, Optional, Set, Tuple

from .core import dotted, norm, walk_local

SAFE_CALLS = {"len", "bool", "any", "all", "sorted", "min", "max", "sum", "frozenset", "set", "isinstance", "id", "type"}
SET_METHODS_SAFE = {
    "add", "update", "discard", "remove", "union", "intersection", "difference",
    "symmetric_difference", "issubset", "issuperset", "isdisjoint", "copy", "clear",
    "intersection_update", "difference_update", "symmetric_difference_update",
}
SET_ALGEBRA = (ast.BitAnd, ast.BitOr, ast.Sub, ast.BitXor)


class Use:
    def __init__(self, node, verdict, reason, source):
        self.node, self.verdict, self.reason, self.source = node, verdict, reason, source

    def __repr__(self):
        return f"<{self.verdict} {self.reason} @{getattr(self.node,'lineno','?')}: {norm(self.node)[:60]}>"


def _injective_key(key: ast.AST) -> bool:
    """a sort key under which two distinct elements cannot compare equal:
    the element itself, id(e) (possibly through a lookup table), or a tuple
    containing one of those."""
    if not isinstance(key, ast.Lambda) or len(key.args.args) != 1:
        return False
    v = key.args.args[0].arg
    b = key.body

    def inj(x) -> bool:
        t = norm(x)
        if t == v or t == f"id({v})":
            return True
        if isinstance(x, ast.Subscript) and norm(x.slice) in (v, f"id({v})"):
            return True  # position table indexed by the element / its identity
        if isinstance(x, ast.Tuple):
            return any(inj(e) for e in x.elts)
        return False

    return inj(b)


def _is_set_ctor(e: ast.AST) -> bool:
    return isinstance(e, ast.Call) and dotted(e.func) in ("set", "frozenset")


class SetOrder:
    def __init__(self, func: ast.FunctionDef, extra_set_names: Optional[Set[str]] = None,
                 set_attrs: Optional[Set[str]] = None, set_returning: Optional[Set[str]] = None):
        self.func = func
        self.set_names: Set[str] = set(extra_set_names or ())
        self.list_from_set_names: Set[str] = set()
        self.set_attrs = set(set_attrs or ())  # self.<attr> known to hold sets
        self.set_returning = set(set_returning or ())  # method/function names returning sets
        self.uses: List[Use] = []
        self._bind_names()
        self._classify()

    # -- what is set-valued ---------------------------------------------------
    def is_set(self, e: ast.AST) -> bool:
        if isinstance(e, (ast.Set, ast.SetComp)):
            return True
        if _is_set_ctor(e):
            return True
        if isinstance(e, ast.Name) and e.id in self.set_names:
            return True
        if isinstance(e, ast.Attribute) and isinstance(e.value, ast.Name) and e.value.id in ("self", "cls") and e.attr in self.set_attrs:
            return True
        if isinstance(e, ast.BinOp) and isinstance(e.op, SET_ALGEBRA) and (self.is_set(e.left) or self.is_set(e.right)):
            return True
        if isinstance(e, ast.Call) and isinstance(e.func, ast.Attribute):
            if e.func.attr in ("union", "intersection", "difference", "symmetric_difference", "copy") and self.is_set(e.func.value):
                return True
            if e.func.attr in self.set_returning:
                return True
        if isinstance(e, ast.Call) and isinstance(e.func, ast.Name) and e.func.id in self.set_returning:
            return True
        if isinstance(e, ast.IfExp):
            return self.is_set(e.body) or self.is_set(e.orelse)
        if isinstance(e, ast.BoolOp):
            return any(self.is_set(v) for v in e.values)
        return False

    def is_list_from_set(self, e: ast.AST) -> bool:
        if isinstance(e, ast.Call) and dotted(e.func) in ("list", "tuple") and len(e.args) == 1 and self.is_set(e.args[0]):
            return True
        if isinstance(e, ast.Name) and e.id in self.list_from_set_names:
            return True
        if isinstance(e, (ast.ListComp, ast.GeneratorExp)) and e.generators and self.is_set(e.generators[0].iter):
            return True
        if isinstance(e, ast.Call) and isinstance(e.func, ast.Attribute) and e.func.attr == "join" and e.args and (
            self.is_set(e.args[0]) or self.is_list_from_set(e.args[0])):
            return True
        return False

    def _bind_names(self):
        for _ in range(4):
            before = (len(self.set_names), len(self.list_from_set_names))
            for n in walk_local(self.func):
                tv = []
                if isinstance(n, ast.Assign):
                    tv = [(t, n.value) for t in n.targets]
                elif isinstance(n, ast.AnnAssign) and n.value is not None:
                    tv = [(n.target, n.value)]
                elif isinstance(n, ast.NamedExpr):
                    tv = [(n.target, n.value)]
                for t, v in tv:
                    if isinstance(t, ast.Name):
                        if self.is_set(v):
                            self.set_names.add(t.id)
                        elif self.is_list_from_set(v):
                            self.list_from_set_names.add(t.id)
            if (len(self.set_names), len(self.list_from_set_names)) == before:
                break
        # a name bound both to a list-from-set and re-bound from itself stays list-from-set

    # -- uses -------------------------------------------------------------------
    def _classify(self):
        for n in walk_local(self.func):
            if isinstance(n, ast.expr) and self.is_set(n):
                if isinstance(n, (ast.Name, ast.Attribute, ast.Subscript)) and isinstance(n.ctx, (ast.Store, ast.Del)):
                    continue
                self._use(n, n, setlike=True)
            elif isinstance(n, ast.expr) and self.is_list_from_set(n):
                if isinstance(n, ast.Name) and isinstance(n.ctx, ast.Store):
                    continue
                self._use(n, n, setlike=False)

    def _len1_guarded(self, node: ast.AST, name: str) -> bool:
        """node is inside the true side of a `len(name) == 1` test."""
        cur = node
        while cur is not None and cur is not self.func:
            par = getattr(cur, "parent", None)
            if isinstance(par, ast.IfExp) and par.body is cur and self._is_len1(par.test, name):
                return True
            if isinstance(par, ast.IfExp) and par.orelse is cur and self._is_len_not1(par.test, name):
                return True
            if isinstance(par, ast.If):
                if cur in par.body and self._is_len1(par.test, name):
                    return True
                if cur in par.orelse and self._is_len_not1(par.test, name):
                    return True
            cur = par
        return False

    @staticmethod
    def _is_len1(t: ast.AST, name: str) -> bool:
        if isinstance(t, ast.Compare) and len(t.ops) == 1 and isinstance(t.ops[0], ast.Eq):
            a, b = norm(t.left), norm(t.comparators[0])
            return {a, b} == {f"len({name})", "1"}
        if isinstance(t, ast.BoolOp) and isinstance(t.op, ast.And):
            return any(SetOrder._is_len1(v, name) for v in t.values)
        return False

    @staticmethod
    def _is_len_not1(t: ast.AST, name: str) -> bool:
        if isinstance(t, ast.Compare) and len(t.ops) == 1 and isinstance(t.ops[0], ast.NotEq):
            a, b = norm(t.left), norm(t.comparators[0])
            return {a, b} == {f"len({name})", "1"}
        return False

    def _use(self, e: ast.AST, source: ast.AST, setlike: bool):
        par = getattr(e, "parent", None)
        add = lambda v, r: self.uses.append(Use(e, v, r, source))  # noqa: E731
        if par is None:
            return
        # binding to a name: uses of the name are classified on their own
        if isinstance(par, (ast.Assign, ast.AnnAssign, ast.NamedExpr)) and getattr(par, "value", None) is e:
            tgt = par.targets[0] if isinstance(par, ast.Assign) else par.target
            if isinstance(tgt, ast.Name):
                return
            if isinstance(tgt, ast.Attribute) and setlike:
                add("SAFE", f"stored in attribute {norm(tgt)} (uses of the attribute are classified where they occur)")
                return
            add("LEAK", f"stored into {norm(tgt)[:40]}")
            return
        if isinstance(par, ast.Call):
            fn = dotted(par.func)
            if e in par.args or any(k.value is e for k in par.keywords):
                if fn == "sorted":
                    key = next((k.value for k in par.keywords if k.arg == "key"), None)
                    if key is not None and not _injective_key(key):
                        add("LEAK", "sorted(.., key=K) with a key that can tie: equal keys keep the set's iteration order")
                        return
                if fn in SAFE_CALLS:
                    add("SAFE", f"{fn}()")
                    return
                if fn in ("list", "tuple") and setlike:
                    return  # becomes list-from-set; classified as such
                if isinstance(par.func, ast.Attribute) and par.func.attr in SET_METHODS_SAFE:
                    add("SAFE", f".{par.func.attr}() into a set")
                    return
                if isinstance(par.func, ast.Attribute) and par.func.attr == "join":
                    return  # the join result is list-from-set; classified there
                if fn in ("enumerate", "iter", "zip", "map", "filter", "reversed", "next"):
                    add("LEAK", f"{fn}() iterates it")
                    return
                add("LEAK", f"passed to {fn or norm(par.func)[:30]}()")
                return
            if isinstance(par.func, ast.Attribute) and par.func.value is e:
                return  # method call on it; handled via the Attribute parent below
        if isinstance(par, ast.Attribute) and par.value is e:
            if setlike and par.attr in SET_METHODS_SAFE | {"pop"}:
                if par.attr == "pop":
                    add("LEAK", "set.pop() returns an arbitrary element")
                else:
                    add("SAFE", f".{par.attr}()")
                return
            if not setlike and par.attr in ("sort",):
                add("SAFE", ".sort()")
                return
            if par.attr in ("append", "extend", "insert", "count", "clear"):
                add("SAFE", f".{par.attr}() does not read the order")
                return
            add("LEAK", f".{par.attr}")
            return
        if isinstance(par, ast.Compare):
            add("SAFE", "comparison / membership")
            return
        if isinstance(par, ast.BinOp) and isinstance(par.op, SET_ALGEBRA) and setlike:
            return  # the enclosing expression is set-valued and classified itself
        if isinstance(par, (ast.If, ast.While, ast.IfExp)) and par.test is e:
            add("SAFE", "truth test")
            return
        if isinstance(par, ast.BoolOp) or (isinstance(par, ast.UnaryOp) and isinstance(par.op, ast.Not)):
            # truthiness inside a condition; value use of `a or b` is treated by is_set on the parent
            if setlike and self.is_set(par):
                return
            add("SAFE", "boolean context")
            return
        if isinstance(par, ast.Subscript) and par.value is e and not setlike:
            name = norm(e)
            if isinstance(par.slice, ast.Constant) and par.slice.value in (0, -1) and self._len1_guarded(par, name):
                add("SAFE", f"[{par.slice.value}] under len({name}) == 1")
            else:
                add("LEAK", f"indexing {norm(par)[:40]} without a len == 1 guard")
            return
        if isinstance(par, ast.For) and par.iter is e:
            add("LEAK", "for-loop iterates it")
            return
        if isinstance(par, ast.comprehension) and par.iter is e:
            comp = par.parent
            if isinstance(comp, ast.SetComp):
                add("SAFE", "set comprehension over it")
            elif isinstance(comp, (ast.GeneratorExp, ast.ListComp)) and setlike:
                cp = getattr(comp, "parent", None)
                if isinstance(cp, ast.Call) and dotted(cp.func) == "sorted" and comp in cp.args and any(
                        k.arg == "key" and not _injective_key(k.value) for k in cp.keywords):
                    add("LEAK", "sorted(<comprehension over it>, key=K) with a key that can tie: equal keys keep the set's iteration order")
                elif isinstance(cp, ast.Call) and dotted(cp.func) in SAFE_CALLS and comp in cp.args:
                    add("SAFE", f"{dotted(cp.func)}(comprehension over it)")
                else:
                    return  # list-from-set; classified as such
            else:
                add("LEAK", "comprehension iterates it")
            return
        if isinstance(par, ast.Return):
            add("LEAK", "returned to the caller")
            return
        if isinstance(par, (ast.Yield, ast.YieldFrom, ast.Starred)):
            add("LEAK", type(par).__name__.lower())
            return
        if isinstance(par, (ast.Tuple, ast.List, ast.Dict)) and not setlike:
            add("LEAK", "stored in a container")
            return
        if isinstance(par, ast.Expr):
            return
        if isinstance(par, ast.keyword):
            gp = par.parent
            add("LEAK", f"keyword argument to {norm(gp.func)[:30]}()")
            return
        if isinstance(par, (ast.Tuple, ast.List, ast.Dict, ast.Set)) and setlike:
            add("SAFE", "stored as a set inside a container (uses classified where they occur)")
            return
        if isinstance(par, ast.FormattedValue) or isinstance(par, ast.JoinedStr):
            add("LEAK", "formatted into a string")
            return
        add("LEAK", f"unrecognised use in {type(par).__name__}")
