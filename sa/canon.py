"""Canonical forms: behaviour-preserving rewrites applied to every module tree
before the rules run, so that equivalent spellings reach the rules as one.

  K1  local `x: T = v`                      ->  `x = v`
  K2  `m.group(k)` / `m.group()`            ->  `m[k]` / `m[0]`   (k a constant; every .group in eyecite is on a re.Match)
  K3  `max([a, b])`, `min((a, b))`          ->  `max(a, b)`, `min(a, b)`     (display with >= 2 elements)
      `set(<genexp>)`, `list(<genexp>)`     ->  set / list comprehension
      `x.pop(-1)`                           ->  `x.pop()`
  K4  `a <= b <= c` (b a name or constant)  ->  `a <= b and b <= c`
  K5  `x = A if C else B`, `return A if C else B`  ->  if/else statements
  K6  nested `def f(..): return e` used exactly once, as a value  ->  `lambda ..: e`
  K7  `x in [c1, c2]` / `not in [..]` over constants  ->  tuple display
  K9  `L = []` directly followed by `for v in X: [if not C: continue]* [if C2:] L.append(E)`  ->  `L = [E for v in X if C and C2]`
      (v unused outside the loop, L not read by X / C / E)
  K10 in a function that also returns the constants True / False: `return <comparison / and / or / not of comparisons>`
      ->  `if <that>: return True` / `return False`   (the expression is bool-valued, so nothing changes)
  K12 constant parts of an f-string are folded into its literal text (`f"({X})"` with X a str constant -> "(...)"); a sum of two
      string constants is one constant
  K14 `list(filter(lambda v: c, xs))`  ->  `[v for v in xs if c]`
  K8  `not (a or b)` / `not (a and b)` in an if/while test -> De Morgan form with `not` on the atoms; `not a not in b` etc. folded

None of these changes what the code computes; line/column of the rewritten
node are kept from the original for diagnostics and type look-ups.
"""
from __future__ import annotations

from .core import acopy
import ast
import copy
from typing import List, Optional


def _is_docstring(s: ast.stmt) -> bool:
    return isinstance(s, ast.Expr) and isinstance(s.value, ast.Constant) and isinstance(s.value.value, str)


class _Expr(ast.NodeTransformer):
    def visit_Call(self, node: ast.Call):
        self.generic_visit(node)
        f = node.func
        # K2
        if isinstance(f, ast.Attribute) and f.attr == "group" and not node.keywords and len(node.args) <= 1 \
                and (not node.args or (isinstance(node.args[0], ast.Constant) and isinstance(node.args[0].value, (int, str)))):
            key = node.args[0] if node.args else ast.Constant(value=0)
            new = ast.Subscript(value=f.value, slice=key, ctx=ast.Load())
            return ast.copy_location(new, node)
        # K3
        if isinstance(f, ast.Name) and f.id in ("max", "min") and len(node.args) == 1 and not node.keywords \
                and isinstance(node.args[0], (ast.List, ast.Tuple)) and len(node.args[0].elts) >= 2 \
                and not any(isinstance(e, ast.Starred) for e in node.args[0].elts):
            node.args = list(node.args[0].elts)
            return node
        if isinstance(f, ast.Name) and f.id == "list" and len(node.args) == 1 and not node.keywords and isinstance(node.args[0], ast.Call) \
                and isinstance(node.args[0].func, ast.Name) and node.args[0].func.id == "filter" and len(node.args[0].args) == 2 \
                and isinstance(node.args[0].args[0], ast.Lambda) and len(node.args[0].args[0].args.args) == 1 and not node.args[0].args[0].args.defaults:
            lam, xs = node.args[0].args
            v = lam.args.args[0].arg
            comp = ast.ListComp(elt=ast.Name(id=v, ctx=ast.Load()), generators=[ast.comprehension(target=ast.Name(id=v, ctx=ast.Store()), iter=xs, ifs=[lam.body], is_async=0)])
            return ast.copy_location(comp, node)
        if isinstance(f, ast.Name) and f.id in ("set", "list") and len(node.args) == 1 and not node.keywords and isinstance(node.args[0], ast.GeneratorExp):
            g = node.args[0]
            cls = ast.SetComp if f.id == "set" else ast.ListComp
            return ast.copy_location(cls(elt=g.elt, generators=g.generators), node)
        if isinstance(f, ast.Attribute) and f.attr == "pop" and len(node.args) == 1 and not node.keywords \
                and isinstance(node.args[0], ast.UnaryOp) and isinstance(node.args[0].op, ast.USub) and isinstance(node.args[0].operand, ast.Constant) \
                and node.args[0].operand.value == 1:
            node.args = []
            return node
        return node

    def visit_JoinedStr(self, node: ast.JoinedStr):
        self.generic_visit(node)
        parts: list = []
        for v in node.values:
            if isinstance(v, ast.FormattedValue) and isinstance(v.value, ast.Constant) and isinstance(v.value.value, str) and v.conversion == -1 and v.format_spec is None:
                v = ast.copy_location(ast.Constant(value=v.value.value), v)
            if isinstance(v, ast.Constant) and isinstance(v.value, str) and parts and isinstance(parts[-1], ast.Constant):
                parts[-1] = ast.copy_location(ast.Constant(value=parts[-1].value + v.value), parts[-1])
            else:
                parts.append(v)
        if all(isinstance(x, ast.Constant) for x in parts):
            return ast.copy_location(ast.Constant(value="".join(x.value for x in parts)), node)
        node.values = parts
        return node

    def visit_BinOp(self, node: ast.BinOp):
        self.generic_visit(node)
        if isinstance(node.op, ast.Add) and isinstance(node.left, ast.Constant) and isinstance(node.right, ast.Constant) \
                and isinstance(node.left.value, str) and isinstance(node.right.value, str):
            return ast.copy_location(ast.Constant(value=node.left.value + node.right.value), node)
        return node

    def visit_Compare(self, node: ast.Compare):
        self.generic_visit(node)
        # K15 `None is not x` / `1 == n` -> constant on the right (symmetric operators only)
        if len(node.ops) == 1 and isinstance(node.ops[0], (ast.Is, ast.IsNot, ast.Eq, ast.NotEq)) and isinstance(node.left, ast.Constant) \
                and not isinstance(node.comparators[0], ast.Constant) and (node.left.value is None or isinstance(node.ops[0], (ast.Is, ast.IsNot))):
            node.left, node.comparators = node.comparators[0], [node.left]
        # K7
        if len(node.ops) == 1 and isinstance(node.ops[0], (ast.In, ast.NotIn)) and isinstance(node.comparators[0], ast.List) \
                and all(isinstance(e, ast.Constant) for e in node.comparators[0].elts):
            lst = node.comparators[0]
            node.comparators = [ast.copy_location(ast.Tuple(elts=lst.elts, ctx=ast.Load()), lst)]
        # K4
        if len(node.ops) == 2 and isinstance(node.comparators[0], (ast.Name, ast.Constant)):
            mid = node.comparators[0]
            a = ast.copy_location(ast.Compare(left=node.left, ops=[node.ops[0]], comparators=[mid]), node)
            b = ast.copy_location(ast.Compare(left=acopy(mid), ops=[node.ops[1]], comparators=[node.comparators[1]]), node)
            return ast.copy_location(ast.BoolOp(op=ast.And(), values=[a, b]), node)
        return node

    def visit_UnaryOp(self, node: ast.UnaryOp):
        self.generic_visit(node)
        if isinstance(node.op, ast.Not):
            o = node.operand
            # not (x not in y) -> x in y ; not (x is not y) -> x is y  and the converses
            if isinstance(o, ast.Compare) and len(o.ops) == 1:
                flip = {ast.In: ast.NotIn, ast.NotIn: ast.In, ast.Is: ast.IsNot, ast.IsNot: ast.Is}
                t = type(o.ops[0])
                if t in flip:
                    o.ops = [flip[t]()]
                    return o
            if isinstance(o, ast.UnaryOp) and isinstance(o.op, ast.Not):
                pass  # not not x is bool(x): leave
        return node


def _demorgan(test: ast.expr) -> ast.expr:
    """push `not` through and/or in a branch condition (truth value unchanged)"""
    if isinstance(test, ast.UnaryOp) and isinstance(test.op, ast.Not) and isinstance(test.operand, ast.BoolOp):
        b = test.operand
        op = ast.And() if isinstance(b.op, ast.Or) else ast.Or()
        vals = [_demorgan(ast.copy_location(ast.UnaryOp(op=ast.Not(), operand=v), v)) for v in b.values]
        return ast.copy_location(ast.BoolOp(op=op, values=vals), test)
    if isinstance(test, ast.UnaryOp) and isinstance(test.op, ast.Not):
        return _Expr().visit_UnaryOp(test)
    if isinstance(test, ast.BoolOp):
        test.values = [_demorgan(v) for v in test.values]
    return test


def _canon_block(body: List[ast.stmt], in_function: bool) -> List[ast.stmt]:
    out: List[ast.stmt] = []
    for s in body:
        # recurse first
        for fld in ("body", "orelse", "finalbody"):
            sub = getattr(s, fld, None)
            if isinstance(sub, list) and sub and isinstance(sub[0], ast.stmt):
                inner_fn = in_function or isinstance(s, (ast.FunctionDef, ast.AsyncFunctionDef))
                if isinstance(s, ast.ClassDef):
                    inner_fn = False
                setattr(s, fld, _canon_block(sub, inner_fn))
        if isinstance(s, ast.Try):
            for h in s.handlers:
                h.body = _canon_block(h.body, in_function)
        if isinstance(s, (ast.If, ast.While)):
            s.test = _demorgan(s.test)
        # K1
        if in_function and isinstance(s, ast.AnnAssign) and isinstance(s.target, ast.Name) and s.value is not None and s.simple:
            s = ast.copy_location(ast.Assign(targets=[s.target], value=s.value, lineno=s.lineno), s)
        # K5
        if in_function and isinstance(s, ast.Assign) and len(s.targets) == 1 and isinstance(s.value, ast.IfExp):
            e = s.value
            a = ast.copy_location(ast.Assign(targets=[acopy(s.targets[0])], value=e.body, lineno=s.lineno), s)
            b = ast.copy_location(ast.Assign(targets=[acopy(s.targets[0])], value=e.orelse, lineno=s.lineno), s)
            new = ast.copy_location(ast.If(test=_demorgan(e.test), body=_canon_block([a], True), orelse=_canon_block([b], True)), s)
            out.append(new)
            continue
        if in_function and isinstance(s, ast.Return) and isinstance(s.value, ast.IfExp):
            e = s.value
            a = ast.copy_location(ast.Return(value=e.body), s)
            b = ast.copy_location(ast.Return(value=e.orelse), s)
            new = ast.copy_location(ast.If(test=_demorgan(e.test), body=_canon_block([a], True), orelse=_canon_block([b], True)), s)
            out.append(new)
            continue
        out.append(s)
    return out


def _append_loop(init: ast.stmt, loop: ast.stmt, fn_names_outside) -> Optional[ast.stmt]:
    """K9: returns the comprehension assignment replacing (init, loop), or None"""
    if not (isinstance(init, ast.Assign) and len(init.targets) == 1 and isinstance(init.targets[0], ast.Name)):
        return None
    v = init.value
    if not ((isinstance(v, ast.List) and not v.elts) or (isinstance(v, ast.Call) and isinstance(v.func, ast.Name) and v.func.id == "list" and not v.args and not v.keywords)):
        return None
    L = init.targets[0].id
    if not (isinstance(loop, ast.For) and not loop.orelse and isinstance(loop.target, (ast.Name, ast.Tuple))):
        return None
    conds: List[ast.expr] = []
    body = [x for x in loop.body if not _is_docstring(x)]
    while len(body) > 1 and isinstance(body[0], ast.If) and not body[0].orelse and len(body[0].body) == 1 and isinstance(body[0].body[0], ast.Continue):
        conds.append(_demorgan(ast.copy_location(ast.UnaryOp(op=ast.Not(), operand=body[0].test), body[0].test)))
        body = body[1:]
    if len(body) == 1 and isinstance(body[0], ast.If) and not body[0].orelse and len(body[0].body) == 1:
        conds.append(body[0].test)
        body = body[0].body
    if not (len(body) == 1 and isinstance(body[0], ast.Expr) and isinstance(body[0].value, ast.Call) and isinstance(body[0].value.func, ast.Attribute)
            and body[0].value.func.attr == "append" and isinstance(body[0].value.func.value, ast.Name) and body[0].value.func.value.id == L
            and len(body[0].value.args) == 1 and not body[0].value.keywords):
        return None
    elt = body[0].value.args[0]
    reads = set()
    for e in [elt, loop.iter] + conds:
        reads |= {n.id for n in ast.walk(e) if isinstance(n, ast.Name)}
    if L in reads:
        return None
    if any(isinstance(n, (ast.NamedExpr, ast.Yield, ast.YieldFrom, ast.Await)) for e in [elt, loop.iter] + conds for n in ast.walk(e)):
        return None
    tnames = {n.id for n in ast.walk(loop.target) if isinstance(n, ast.Name)}
    if tnames & fn_names_outside:
        return None
    flat: List[ast.expr] = []
    for c in conds:
        if isinstance(c, ast.BoolOp) and isinstance(c.op, ast.And):
            flat.extend(c.values)
        else:
            flat.append(c)
    comp = ast.ListComp(elt=elt, generators=[ast.comprehension(target=loop.target, iter=loop.iter, ifs=flat, is_async=0)])
    ast.copy_location(comp, loop)
    new = ast.Assign(targets=[init.targets[0]], value=comp, lineno=init.lineno)
    return ast.copy_location(new, init)


def _append_loops(fn: ast.AST) -> None:
    def names_outside(loop: ast.stmt):
        inside = {id(n) for n in ast.walk(loop)}
        # names bound by a comprehension live in the comprehension's own scope
        scoped = set()
        for c in ast.walk(fn):
            if isinstance(c, (ast.ListComp, ast.SetComp, ast.DictComp, ast.GeneratorExp)):
                bound = {n.id for g in c.generators for n in ast.walk(g.target) if isinstance(n, ast.Name)}
                for n in ast.walk(c):
                    if isinstance(n, ast.Name) and n.id in bound:
                        scoped.add(id(n))
        return {n.id for n in ast.walk(fn) if isinstance(n, ast.Name) and id(n) not in inside and id(n) not in scoped} | {a.arg for a in fn.args.args + fn.args.kwonlyargs}

    def visit(body: List[ast.stmt]) -> List[ast.stmt]:
        out: List[ast.stmt] = []
        i = 0
        while i < len(body):
            s = body[i]
            if i + 1 < len(body) and isinstance(body[i + 1], ast.For):
                new = _append_loop(s, body[i + 1], names_outside(body[i + 1]))
                if new is not None:
                    out.append(new)
                    i += 2
                    continue
            if not isinstance(s, (ast.FunctionDef, ast.AsyncFunctionDef, ast.ClassDef)):
                for fld in ("body", "orelse", "finalbody"):
                    sub = getattr(s, fld, None)
                    if isinstance(sub, list) and sub and isinstance(sub[0], ast.stmt):
                        setattr(s, fld, visit(sub))
                if isinstance(s, ast.Try):
                    for h in s.handlers:
                        h.body = visit(h.body)
            out.append(s)
            i += 1
        return out

    fn.body = visit(fn.body)


def _strictly_bool(e: ast.AST) -> bool:
    if isinstance(e, ast.Compare):
        return True
    if isinstance(e, ast.UnaryOp) and isinstance(e.op, ast.Not):
        return True
    if isinstance(e, ast.BoolOp):
        return all(_strictly_bool(v) for v in e.values)
    if isinstance(e, ast.Constant):
        return isinstance(e.value, bool)
    return False


def _bool_returns(fn: ast.AST) -> None:
    """K10"""
    rets = [n for n in _walk_fn(fn) if isinstance(n, ast.Return)]
    if not any(isinstance(r.value, ast.Constant) and isinstance(r.value.value, bool) for r in rets):
        return

    def visit(body: List[ast.stmt]) -> List[ast.stmt]:
        out: List[ast.stmt] = []
        for s in body:
            if isinstance(s, (ast.FunctionDef, ast.AsyncFunctionDef, ast.ClassDef)):
                out.append(s)
                continue
            for fld in ("body", "orelse", "finalbody"):
                sub = getattr(s, fld, None)
                if isinstance(sub, list) and sub and isinstance(sub[0], ast.stmt):
                    setattr(s, fld, visit(sub))
            if isinstance(s, ast.Try):
                for h in s.handlers:
                    h.body = visit(h.body)
            if isinstance(s, ast.Return) and s.value is not None and not isinstance(s.value, ast.Constant) and _strictly_bool(s.value):
                t = ast.copy_location(ast.Return(value=ast.copy_location(ast.Constant(value=True), s)), s)
                f = ast.copy_location(ast.Return(value=ast.copy_location(ast.Constant(value=False), s)), s)
                out.append(ast.copy_location(ast.If(test=_demorgan(s.value), body=[t], orelse=[f]), s))
                continue
            out.append(s)
        return out

    fn.body = visit(fn.body)


def _walk_fn(fn: ast.AST):
    todo = list(ast.iter_child_nodes(fn))
    while todo:
        n = todo.pop()
        yield n
        if isinstance(n, (ast.FunctionDef, ast.AsyncFunctionDef, ast.ClassDef, ast.Lambda)):
            continue
        todo.extend(ast.iter_child_nodes(n))


def _lambda_defs(fn: ast.AST) -> None:
    """K6 inside one function body (and nested blocks at the same function level)"""
    body = fn.body
    for s in list(body):
        if not isinstance(s, ast.FunctionDef) or s.decorator_list:
            continue
        inner = [x for x in s.body if not _is_docstring(x)]
        if len(inner) != 1 or not isinstance(inner[0], ast.Return) or inner[0].value is None:
            continue
        a = s.args
        if a.vararg or a.kwarg or a.kwonlyargs or a.posonlyargs or a.defaults:
            continue
        if any(isinstance(n, (ast.Yield, ast.YieldFrom, ast.Await)) for n in ast.walk(s)):
            continue
        uses = [n for n in ast.walk(fn) if isinstance(n, ast.Name) and n.id == s.name and n is not s]
        if len(uses) != 1 or not isinstance(uses[0].ctx, ast.Load):
            continue
        if any(isinstance(n, ast.Name) and n.id == s.name for n in ast.walk(s)):
            continue  # recursive
        use = uses[0]
        # the use must be a value (argument / assignment), not the callee of a call
        par = getattr(use, "_canon_parent", None)
        if isinstance(par, ast.Call) and par.func is use:
            continue
        lam = ast.Lambda(args=ast.arguments(posonlyargs=[], args=[ast.arg(arg=x.arg) for x in a.args], kwonlyargs=[], kw_defaults=[], defaults=[]),
                         body=inner[0].value)
        ast.copy_location(lam, use)
        if par is None:
            continue
        for fld, val in ast.iter_fields(par):
            if val is use:
                setattr(par, fld, lam)
            elif isinstance(val, list):
                for i, v in enumerate(val):
                    if v is use:
                        val[i] = lam
        body.remove(s)


def canonicalise(tree: ast.Module) -> None:
    _Expr().visit(tree)
    tree.body = _canon_block(tree.body, False)
    for n in ast.walk(tree):
        for c in ast.iter_child_nodes(n):
            c._canon_parent = n  # type: ignore[attr-defined]
    for n in list(ast.walk(tree)):
        if isinstance(n, (ast.FunctionDef, ast.AsyncFunctionDef)):
            _lambda_defs(n)
            _append_loops(n)
            _bool_returns(n)
    ast.fix_missing_locations(tree)
