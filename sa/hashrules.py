"""Equality / hash discipline of the citation classes (shared by C06-O6 and
C16).  All decisions are made on the class definitions in models.py."""
from __future__ import annotations

import ast
from typing import Dict, List, Optional, Set, Tuple

from .core import stmts_local, AnalysisError, Ctx, Repo, dotted, effective_body, norm, walk_local
from .paths import enumerate_paths

CMP_DUNDERS = {"__eq__", "__ne__", "__lt__", "__le__", "__gt__", "__ge__"}


def citation_classes(repo: Repo) -> List[str]:
    if "CitationBase" not in repo.classes:
        raise AnalysisError("models.CitationBase not found")
    return sorted(c for c in repo.classes if "." not in c and repo.is_subclass(c, "CitationBase"))


def is_identity_hash(fn: ast.FunctionDef) -> bool:
    body = effective_body(fn)
    return (
        len(body) == 1
        and isinstance(body[0], ast.Return)
        and isinstance(body[0].value, ast.Call)
        and dotted(body[0].value.func) == "id"
        and len(body[0].value.args) == 1
        and isinstance(body[0].value.args[0], ast.Name)
        and body[0].value.args[0].id == fn.args.args[0].arg
    )


def is_hash_eq_body(fn: ast.FunctionDef) -> bool:
    """return self.__hash__() == other.__hash__()  (or hash(self) == hash(other))"""
    body = effective_body(fn)
    # a leading `if not isinstance(other, <own class>): return NotImplemented` (Python's protocol for "not comparable") changes nothing between
    # citations / resources
    if len(body) == 2 and isinstance(body[0], ast.If) and not body[0].orelse and len(body[0].body) == 1 and isinstance(body[0].body[0], ast.Return) \
            and norm(body[0].body[0].value) == "NotImplemented" and len(fn.args.args) == 2 \
            and norm(body[0].test).startswith(f"not isinstance({fn.args.args[1].arg}, "):
        body = body[1:]
    if len(body) != 1 or not isinstance(body[0], ast.Return):
        return False
    v = body[0].value
    if not (isinstance(v, ast.Compare) and len(v.ops) == 1 and isinstance(v.ops[0], ast.Eq)):
        return False
    params = [a.arg for a in fn.args.args]
    if len(params) != 2:
        return False

    def hash_of(e) -> Optional[str]:
        if isinstance(e, ast.Call) and not e.args and isinstance(e.func, ast.Attribute) and e.func.attr == "__hash__":
            return dotted(e.func.value)
        if isinstance(e, ast.Call) and dotted(e.func) == "hash" and len(e.args) == 1:
            return dotted(e.args[0])
        return None

    return {hash_of(v.left), hash_of(v.comparators[0])} == set(params)


def self_reads(repo: Repo, cls: str, meth: ast.FunctionDef, seen=None) -> Tuple[Set[str], Set[str], List[str]]:
    """Attributes of self read by a method, transitively through self.m()
    calls resolved in cls's MRO *and every override in subclasses*.
    Returns (attrs, groups_keys, problems)."""
    seen = seen if seen is not None else set()
    attrs: Set[str] = set()
    keys: Set[str] = set()
    problems: List[str] = []
    selfname = meth.args.args[0].arg
    # comprehension / loop variables over literal lists, for groups[k]
    lit_iters: Dict[str, Set[str]] = {}
    for n in walk_local(meth):
        if isinstance(n, (ast.comprehension, ast.For)) and isinstance(n.target, ast.Name):
            if isinstance(n.iter, (ast.List, ast.Tuple, ast.Set)) and all(
                isinstance(e, ast.Constant) and isinstance(e.value, str) for e in n.iter.elts
            ):
                lit_iters[n.target.id] = {e.value for e in n.iter.elts}
    for n in walk_local(meth):
        if isinstance(n, ast.Attribute) and isinstance(n.value, ast.Name) and n.value.id == selfname:
            par = getattr(n, "parent", None)
            if isinstance(par, ast.Call) and par.func is n:
                # method call on self
                name = n.attr
                if name in ("__hash__",):
                    continue
                targets = []
                found = repo.find_method(cls, name)
                if found:
                    targets.append(found)
                for sub in repo.subclasses(cls):
                    ci = repo.classes[sub]
                    if sub != cls and name in ci.methods:
                        targets.append((sub, ci.methods[name]))
                if not targets:
                    problems.append(f"self.{name}() cannot be resolved")
                for c, m in targets:
                    key = (c, name)
                    if key in seen:
                        continue
                    seen.add(key)
                    a2, k2, p2 = self_reads(repo, c, m, seen)
                    attrs |= a2
                    keys |= k2
                    problems += p2
            else:
                attrs.add(n.attr)
                # groups key tracking
                if n.attr == "groups":
                    if isinstance(par, ast.Subscript) and par.value is n:
                        sl = par.slice
                        if isinstance(sl, ast.Constant) and isinstance(sl.value, str):
                            keys.add(sl.value)
                        elif isinstance(sl, ast.Name) and sl.id in lit_iters:
                            keys |= lit_iters[sl.id]
                        else:
                            keys.add("<dynamic>")
                    elif (
                        isinstance(par, ast.Attribute)
                        and par.attr == "get"
                        and isinstance(getattr(par, "parent", None), ast.Call)
                        and par.parent.args
                        and isinstance(par.parent.args[0], ast.Constant)
                    ):
                        keys.add(par.parent.args[0].value)
                    elif isinstance(par, ast.Compare) and any(isinstance(o, (ast.In, ast.NotIn)) for o in par.ops):
                        pass  # `k in self.groups`
                    else:
                        keys.add("<all>")
        elif isinstance(n, ast.Name) and n.id == selfname and isinstance(n.ctx, ast.Load):
            par = getattr(n, "parent", None)
            if isinstance(par, ast.Attribute):
                continue
            if isinstance(par, ast.Call) and dotted(par.func) in ("type", "id", "super"):
                continue
            problems.append(f"self escapes: {norm(par)[:60]}")
    return attrs, keys, problems


def has_class_tag(fn: ast.FunctionDef) -> bool:
    """some dict display in the method maps "class" to type(self).__name__."""
    selfname = fn.args.args[0].arg
    want = (f"type({selfname}).__name__", f"{selfname}.__class__.__name__")
    for n in walk_local(fn):
        if isinstance(n, ast.Dict):
            for k, v in zip(n.keys, n.values):
                if isinstance(k, ast.Constant) and k.value == "class" and norm(v) in want:
                    return True
        # step-wise construction of a local dict: d["class"] = type(self).__name__
        if isinstance(n, ast.Assign) and len(n.targets) == 1 and isinstance(n.targets[0], ast.Subscript) and isinstance(n.targets[0].value, ast.Name) \
                and isinstance(n.targets[0].slice, ast.Constant) and n.targets[0].slice.value == "class" and norm(n.value) in want \
                and n in fn.body:
            return True
    return False


FORBIDDEN_IN_VALUE_HASH = {
    "metadata", "token", "index", "span_start", "span_end", "full_span_start",
    "full_span_end", "year",
}


def run_hash_rules(ctx: Ctx, pfx: str):
    """Emit obligations H1..H6 under rule names f'{pfx}-H*'."""
    repo = ctx.repo
    m = repo.mod("models")
    classes = citation_classes(repo)
    ctx.need(len(classes) >= 10, f"expected >=10 citation classes, found {classes}")

    # H1: one equality, derived from the hash
    for c in classes + (["Resource"] if "Resource" in repo.classes else []):
        ci = repo.classes[c]
        for d in sorted(CMP_DUNDERS & set(ci.methods)):
            fn = ci.methods[d]
            ok = d == "__eq__" and c in ("CitationBase", "Resource") and is_hash_eq_body(fn)
            ctx.ob(f"{pfx}-H1", f"models.{c}.{d}", ok,
                   "equality must be defined only in CitationBase/Resource as equality of __hash__() results",
                   node=fn, mod=m)
        if c == "Resource":
            continue
        kw = ci.dataclass_kwargs()
        if kw is None:
            ctx.ob(f"{pfx}-H1", f"models.{c}/@dataclass", c != "CitationBase" and True,
                   "plain class in the citation hierarchy inherits CitationBase.__eq__", node=ci.node, mod=m,
                   nontrivial=False)
        else:
            ok = kw.get("eq", True) is False and not kw.get("order", False)
            ctx.ob(f"{pfx}-H1", f"models.{c}/@dataclass", ok,
                   f"citation dataclasses must be declared eq=False (got {kw}); a synthesised __eq__ compares fields "
                   "(pin cite, year, span...) and sets __hash__ to None",
                   node=ci.node, mod=m)
    for c in ("CitationBase", "Resource"):
        ci = repo.classes.get(c)
        ctx.need(ci is not None, f"models.{c} not found")
        ctx.ob(f"{pfx}-H1", f"models.{c}.__eq__/defined", "__eq__" in ci.methods,
               "hash-derived __eq__ must be defined", node=ci.node, mod=m)

    # the functions analysed below must be the functions that run: a decorator
    # (memoisation, wrapping) replaces them
    for c in classes + ["Resource"]:
        ci = repo.classes.get(c)
        if ci is None:
            continue
        for d in ("__hash__", "__eq__"):
            fn = ci.methods.get(d)
            if fn is not None:
                ctx.ob(f"{pfx}-H0", f"models.{c}.{d}/undecorated", not fn.decorator_list,
                       f"decorated dunder ({[norm(x) for x in fn.decorator_list]}): a wrapper (e.g. a memo) makes the hash depend on "
                       "the object's history instead of its current value", node=fn, mod=m, nontrivial=False)
        # a stored hash attribute is the same defect without a decorator
        for d, fn in ci.methods.items():
            if d in ("__hash__", "__eq__"):
                params = {a.arg for a in fn.args.args}
                local_fresh = {t.id for x in stmts_local(fn.body) if isinstance(x, ast.Assign) for t in x.targets if isinstance(t, ast.Name)
                               and (isinstance(x.value, (ast.Dict, ast.List, ast.Set, ast.DictComp, ast.ListComp, ast.SetComp))
                                    or (isinstance(x.value, ast.Call) and dotted(x.value.func) in ("dict", "list", "set", "sorted")))}
                not_fresh = {t.id for x in stmts_local(fn.body) if isinstance(x, ast.Assign) for t in x.targets if isinstance(t, ast.Name)} - local_fresh
                for n in walk_local(fn):
                    if isinstance(n, (ast.Attribute, ast.Subscript)) and isinstance(n.ctx, ast.Store):
                        root = n
                        while isinstance(root, (ast.Attribute, ast.Subscript)):
                            root = root.value
                        if isinstance(root, ast.Name) and root.id in local_fresh and root.id not in params and isinstance(n, ast.Subscript) and n.value is root:
                            continue  # filling a dict / list built in this call
                        ctx.ob(f"{pfx}-H0", f"models.{c}.{d}/pure", False,
                               "hash/equality must not store state on the object", node=n, mod=m)

    # H2/H3/H4 per __hash__
    n_value = 0
    for c in classes:
        ci = repo.classes[c]
        fn = ci.methods.get("__hash__")
        if fn is None:
            continue
        construct = f"models.{c}.__hash__"
        if is_identity_hash(fn):
            ctx.ob(f"{pfx}-H4", construct, c in ("IdCitation", "UnknownCitation"),
                   "identity hash is expected only on IdCitation and UnknownCitation", node=fn, mod=m)
            continue
        n_value += 1
        attrs, keys, problems = self_reads(repo, c, fn)
        bad = attrs & FORBIDDEN_IN_VALUE_HASH
        if c == "ReferenceCitation":
            # a reference citation has no groups: its identity, if it has one at all, is the name it was found by, which lives in metadata.
            # Neither C06 (resources are made from full citations) nor C16 (case / law / journal / id / unknown citations) constrains it
            bad -= {"metadata"}
        ctx.ob(f"{pfx}-H2", construct, not bad and not problems,
               f"value hash must not read context fields; reads={sorted(attrs)} forbidden={sorted(bad)} {problems}",
               node=fn, mod=m)
        ctx.ob(f"{pfx}-H3", construct, has_class_tag(fn),
               'hashed dict must contain "class": type(self).__name__ (kinds never collide)', node=fn, mod=m)
        if c == "CaseCitation":
            want_attrs = {"groups", "edition_guess"}
            ok = attrs <= want_attrs and keys == {"volume", "page", "reporter"}
            ctx.ob(f"{pfx}-H2", construct + "/case-read-set", ok,
                   f"case citation hash must read exactly groups[volume,page,reporter] and the guessed edition; "
                   f"attrs={sorted(attrs)} keys={sorted(keys)}", node=fn, mod=m)
            # H4: placeholder page => identity on every path
            selfname = fn.args.args[0].arg
            paths = enumerate_paths(fn.body)
            all_ok, n_paths = True, 0
            for p in paths:
                if p.exit != "return":
                    all_ok = False
                    continue
                n_paths += 1
                test = None
                for ev in p.events:
                    if ev[0] == "cond":
                        t = norm(ev[1])
                        if t in (f"{selfname}.groups['page'] is None", f"{selfname}.groups.get('page') is None"):
                            test = ev[2]
                        elif t in (f"{selfname}.groups['page'] is not None", f"{selfname}.groups.get('page') is not None"):
                            test = not ev[2]
                        elif t in (f"{selfname}.groups['page']", f"{selfname}.groups.get('page')"):
                            # truthiness: falsy covers None (and ''), accept as placeholder side
                            test = not ev[2]
                rv = p.exit_node.value
                is_id = isinstance(rv, ast.Call) and dotted(rv.func) == "id" and norm(rv.args[0]) == selfname
                if test is True and not is_id:
                    all_ok = False
                if test is not True and is_id:
                    all_ok = False
                if test is None and not is_id:
                    all_ok = False
            ctx.ob(f"{pfx}-H4", construct + "/placeholder", all_ok and n_paths >= 2,
                   "every path returning a value hash must be on the false side of `groups['page'] is None`, and the "
                   "true side must return id(self)", node=fn, mod=m)
    ctx.need(n_value >= 3, f"expected >=3 value __hash__ definitions in the citation hierarchy, found {n_value}")
    for c in ("IdCitation", "UnknownCitation"):
        ci = repo.classes.get(c)
        ctx.need(ci is not None, f"models.{c} not found")
        fn = ci.methods.get("__hash__")
        ctx.ob(f"{pfx}-H4", f"models.{c}.__hash__/identity", fn is not None and is_identity_hash(fn),
               f"{c} must hash by identity (equal only to itself)", node=fn or ci.node, mod=m)
        # no subclass-side override elsewhere
    # H6 canonical serialisation
    um = repo.mod("utils")
    hs = repo.need_func("utils.hash_sha256")
    ok = False
    for n in walk_local(hs):
        if isinstance(n, ast.Call) and dotted(n.func) in ("json.dumps",):
            for k in n.keywords:
                if k.arg == "sort_keys" and isinstance(k.value, ast.Constant) and k.value.value is True:
                    ok = True
    ctx.ob(f"{pfx}-H6", "utils.hash_sha256", ok, "json.dumps(..., sort_keys=True) makes the hash independent of dict order",
           node=hs, mod=um)
    uses_sha = any(isinstance(n, ast.Attribute) and n.attr in ("sha256", "sha512", "sha1", "md5", "blake2b") for n in walk_local(hs))
    ctx.ob(f"{pfx}-H6", "utils.hash_sha256/digest", uses_sha and not any(
        isinstance(n, ast.Call) and dotted(n.func) == "hash" for n in walk_local(hs)),
        "hash must come from a hashlib digest, not from Python's randomised hash()", node=hs, mod=um)


def run_resource_rules(ctx: Ctx, pfx: str):
    repo = ctx.repo
    m = repo.mod("models")
    ci = repo.classes.get("Resource")
    ctx.need(ci is not None, "models.Resource not found")
    kw = ci.dataclass_kwargs()
    ctx.ob(f"{pfx}", "models.Resource/@dataclass", kw is not None and kw.get("frozen") is True,
           "Resource must be a frozen dataclass (keys of the resolution mapping are immutable)", node=ci.node, mod=m)
    fn = ci.methods.get("__hash__")
    ok = False
    detail = "Resource.__hash__ must read only self.citation (through hash) and the class name"
    if fn is not None:
        attrs, keys, problems = self_reads(repo, "Resource", fn)
        ok = attrs == {"citation"} and not problems
        # citation read must be hash(self.citation) / self.citation.__hash__()
        for n in walk_local(fn):
            if isinstance(n, ast.Attribute) and n.attr == "citation":
                par = n.parent
                good = (isinstance(par, ast.Call) and dotted(par.func) == "hash") or (
                    isinstance(par, ast.Attribute) and par.attr == "__hash__")
                ok = ok and good
        detail += f"; reads={sorted(attrs)} {problems}"
    ctx.ob(f"{pfx}", "models.Resource.__hash__", ok, detail, node=fn or ci.node, mod=m)
    eq = ci.methods.get("__eq__")
    ctx.ob(f"{pfx}", "models.Resource.__eq__", eq is not None and is_hash_eq_body(eq),
           "Resource.__eq__ must be equality of __hash__() results", node=eq or ci.node, mod=m)
    for d in ("__bool__", "__len__"):
        present = any(d in repo.classes[c].methods for c in repo.mro("Resource") if c in repo.classes)
        ctx.ob(f"{pfx}", f"models.Resource.{d}/absent", not present,
               f"Resource must stay truthy: defining {d} can make a resolved full citation vanish at `if resolution:`",
               node=ci.node, mod=m, nontrivial=False)
