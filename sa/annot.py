"""Cursor-loop model of annotate.annotate_citations (C09, C10, C11).

Roles (bound from structure):
  OUT   list joined by the return statement
  LOOP  the top-level `for` whose body emits into OUT; target ((S, E), BEFORE, AFTER)
  T     the text sliced in the emitted gap  T[CUR:S]
  CUR   cursor (lower bound of the gap slice)
  SPAN  the variable holding the text of the current span

Every acyclic path through the loop body is simulated with a small symbolic
state: version counters for S, E, SPAN; order facts (le/lt) between S, E, CUR;
the definition of SPAN (slice T[S:E] at given versions, possibly passed through
the additive wrapper); balance facts for SPAN.  Facts are killed by any
assignment to a variable they mention and generated only by the recognised
idioms listed in `_assign` / `_cond`.
"""
from __future__ import annotations

import ast
import re as _re
from typing import Any, Dict, List, Optional, Set, Tuple

from .core import AnalysisError, Ctx, assigned_names, presence_test, dotted, effective_body, names_in, norm, stmts_local, walk_local
from .paths import Path, enumerate_paths

try:
    import re._parser as sre_parse  # py3.11+
except ImportError:  # pragma: no cover
    import sre_parse  # type: ignore


class PathRec:
    def __init__(self):
        self.conds: List[Tuple[str, bool]] = []
        self.emits: List[Dict[str, Any]] = []
        self.exit = "fall"
        self.problems: List[str] = []
        self.presence: List[Tuple[str, bool]] = []
        self.cur_assigns: List[Dict[str, Any]] = []
        self.trace: List[str] = []

    def cond_str(self):
        return "; ".join(f"{c}={'T' if o else 'F'}" for c, o in self.conds)

    def has(self, text: str, outcome: bool) -> bool:
        return (text, outcome) in self.conds

    def absent(self, name: str) -> bool:
        """the path took the `name is absent` side of a presence test (`if name:` false, `name is None` true, ...)"""
        return (name, False) in self.presence


class AnnotateModel:
    def __init__(self, ctx: Ctx):
        self.ctx = ctx
        repo = ctx.repo
        self.m = repo.mod("annotate")
        self.um = repo.mod("utils")
        self.f = repo.need_func("annotate.annotate_citations")
        self.bind_errors: List[str] = []
        self._bind()
        self.wrap_cover = (False, "wrap helper not analysed")
        self.wrap_ok, self.wrap_why, self.wrap_fn = self._wrap_summary()
        self.bal_ok, self.bal_why, self.bal_fn = self._balance_summary()
        self.paths: List[PathRec] = []
        if not self.bind_errors:
            for p in enumerate_paths(self.LOOP.body):
                self.paths.append(self._simulate(p))

    # ------------------------------------------------------------------ roles
    def _bind(self):
        f = self.f
        self.OUT = self.T = self.CUR = self.S = self.E = self.BEFORE = self.AFTER = self.SPAN = None
        self.LOOP = None
        rets = [n for n in walk_local(f) if isinstance(n, ast.Return)]
        self.returns = rets
        for r in rets:
            v = r.value
            if (isinstance(v, ast.Call) and isinstance(v.func, ast.Attribute) and v.func.attr == "join"
                    and isinstance(v.func.value, ast.Constant) and v.func.value.value == "" and len(v.args) == 1
                    and isinstance(v.args[0], ast.Name)):
                self.OUT = v.args[0].id
        if self.OUT is None:
            self.bind_errors.append('no `return "".join(<list>)` found')
            return
        for s in f.body:
            if isinstance(s, ast.For):
                emits = [n for n in walk_local(s) if self._is_out_call(n)]
                if emits:
                    self.LOOP = s
        if self.LOOP is None:
            self.bind_errors.append("no top-level for-loop emitting into the output list")
            return
        t = self.LOOP.target
        if (isinstance(t, ast.Tuple) and len(t.elts) == 3 and isinstance(t.elts[0], ast.Tuple) and len(t.elts[0].elts) == 2
                and all(isinstance(e, ast.Name) for e in t.elts[0].elts) and all(isinstance(e, ast.Name) for e in t.elts[1:])):
            self.S, self.E = t.elts[0].elts[0].id, t.elts[0].elts[1].id
            self.BEFORE, self.AFTER = t.elts[1].id, t.elts[2].id
        else:
            self.bind_errors.append(f"loop target is not ((start, end), before, after): {norm(t)}")
            return
        # gap slice T[CUR:S] in an emission
        for n in walk_local(self.LOOP):
            if self._is_out_call(n):
                for a in self._emitted_exprs(n):
                    if (isinstance(a, ast.Subscript) and isinstance(a.value, ast.Name) and isinstance(a.slice, ast.Slice)
                            and isinstance(a.slice.lower, ast.Name) and isinstance(a.slice.upper, ast.Name)
                            and a.slice.upper.id == self.S):
                        self.T, self.CUR = a.value.id, a.slice.lower.id
        if self.T is None:
            self.bind_errors.append("no emitted gap slice T[cursor:start] found")
            return
        # SPAN: variable assigned from T[S:E]
        for s in stmts_local(self.LOOP.body):
            if isinstance(s, ast.Assign) and len(s.targets) == 1 and isinstance(s.targets[0], ast.Name) and self._is_span_slice(s.value):
                self.SPAN = s.targets[0].id
        if self.SPAN is None:
            self.bind_errors.append("no `span = T[start:end]` assignment found")

    def _is_out_call(self, n: ast.AST) -> bool:
        return (isinstance(n, ast.Call) and isinstance(n.func, ast.Attribute) and isinstance(n.func.value, ast.Name)
                and n.func.value.id == self.OUT and n.func.attr in ("append", "extend", "insert", "pop", "remove", "clear", "sort", "reverse", "__setitem__"))

    @staticmethod
    def _emitted_exprs(call: ast.Call) -> List[ast.AST]:
        if call.func.attr == "append" and len(call.args) == 1:
            return [call.args[0]]
        if call.func.attr == "extend" and len(call.args) == 1 and isinstance(call.args[0], (ast.List, ast.Tuple)):
            return list(call.args[0].elts)
        return []

    def _is_span_slice(self, v: ast.AST) -> bool:
        return (isinstance(v, ast.Subscript) and isinstance(v.value, ast.Name) and v.value.id == self.T and isinstance(v.slice, ast.Slice)
                and isinstance(v.slice.lower, ast.Name) and v.slice.lower.id == self.S
                and isinstance(v.slice.upper, ast.Name) and v.slice.upper.id == self.E and v.slice.step is None)

    # -------------------------------------------------------- callee summaries
    def _wrap_summary(self):
        """utils.<wrap> is additive: re.sub(P, R, text) where P is exactly one
        capturing group (= the whole match) and R re-emits group 1 once,
        surrounded only by the function's other parameters, via a callable."""
        # which callee wraps SPAN?
        name = None
        if self.LOOP is not None and self.SPAN:
            for s in stmts_local(self.LOOP.body):
                if (isinstance(s, ast.Assign) and len(s.targets) == 1 and isinstance(s.targets[0], ast.Name) and s.targets[0].id == self.SPAN
                        and isinstance(s.value, ast.Call) and isinstance(s.value.func, ast.Name) and s.value.args
                        and isinstance(s.value.args[0], ast.Name) and s.value.args[0].id == self.SPAN):
                    name = s.value.func.id
        if name is None:
            return False, "no wrapping call found", None
        fn = self.ctx.repo.func(f"utils.{name}")
        if fn is None:
            return False, f"utils.{name} not found", None
        body = effective_body(fn)
        if len(body) != 1 or not isinstance(body[0], ast.Return):
            return False, "body is not a single return", fn
        c = body[0].value
        if not (isinstance(c, ast.Call) and dotted(c.func) in ("re.sub",) and len(c.args) == 3 and not c.keywords):
            return False, "not `return re.sub(pattern, repl, text)`", fn
        pat, repl, text = c.args
        params = [a.arg for a in fn.args.args]
        if not (isinstance(text, ast.Name) and text.id == params[0]):
            return False, "substitution is not applied to the first parameter", fn
        if not (isinstance(pat, ast.Constant) and isinstance(pat.value, str)):
            return False, "pattern is not a constant", fn
        try:
            tree = sre_parse.parse(pat.value)
        except Exception as e:  # noqa: BLE001
            return False, f"pattern does not parse: {e}", fn
        items = list(tree)
        if not (len(items) == 1 and str(items[0][0]) == "SUBPATTERN" and items[0][1][0] == 1):
            return False, f"pattern {pat.value!r} is not exactly one capturing group spanning the whole match", fn
        inner = items[0][1][3]
        if any(str(op) in ("SUBPATTERN", "GROUPREF", "ASSERT", "ASSERT_NOT", "AT") for op, _ in _flatten(inner)):
            return False, "nested groups / assertions inside the pattern", fn
        # every tag token must be matched: a tag the pattern does not recognise stays inside the annotation and is crossed by it
        try:
            from . import rx as _rx

            tags = _rx.build_nfa(r"</?[A-Za-z_:][^<>]*>", 0)
            mine = _rx.build_nfa(pat.value, 0)
            w = _rx.find_not_included(tags, mine, list("<>/aA1-_:. =\"'\n\t") + ["\u00e9"])
            self.wrap_cover = (w is None, f"the tag pattern {pat.value!r} matches every tag token </?name ...>" if w is None else
                               f"the tag pattern {pat.value!r} does not match the tag {w!r}: such a tag is left inside the annotation and crossed by it")
        except Exception as e:  # noqa: BLE001
            self.wrap_cover = (False, f"tag pattern {pat.value!r} cannot be analysed: {e}")
        # replacement
        others = set(params[1:])
        if isinstance(repl, ast.Lambda):
            marg = repl.args.args[0].arg if repl.args.args else None
            parts = _concat_parts(repl.body)
            if parts is None:
                return False, f"replacement is not a concatenation: {norm(repl.body)}", fn
            n_group = 0
            for p in parts:
                t = norm(p)
                if t in (f"{marg}[1]", f"{marg}.group(1)", f"{marg}[0]", f"{marg}.group(0)", f"{marg}.group()"):
                    n_group += 1
                elif isinstance(p, ast.Name) and p.id in others:
                    pass
                elif isinstance(p, ast.Constant) and p.value == "":
                    pass
                else:
                    return False, f"replacement part {t!r} is neither the matched tag nor a before/after parameter", fn
            if n_group != 1:
                return False, f"matched text is re-emitted {n_group} times", fn
            return True, f"re.sub({pat.value!r}, callable re-emitting group 1 once, text)", fn
        return False, ("replacement is a template built from the before/after strings: backslashes and group "
                       "references in user strings are interpreted (not additive)"), fn

    def _balance_summary(self):
        """utils.<balance>(start, end, text) returns (s, e, text[s:e]) with
        s <= e whenever start <= end held at the call."""
        name = None
        call = None
        if self.LOOP is not None and self.SPAN:
            for s in stmts_local(self.LOOP.body):
                if (isinstance(s, ast.Assign) and len(s.targets) == 1 and isinstance(s.targets[0], ast.Tuple)
                        and [norm(e) for e in s.targets[0].elts] == [self.S, self.E, self.SPAN]
                        and isinstance(s.value, ast.Call) and isinstance(s.value.func, ast.Name)):
                    name, call = s.value.func.id, s.value
        if name is None:
            return False, "no `start, end, span = f(start, end, text)` call found", None
        self.balance_call = call
        fn = self.ctx.repo.func(f"utils.{name}")
        if fn is None:
            return False, f"utils.{name} not found", None
        if [norm(a) for a in call.args[:3]] != [self.S, self.E, self.T]:
            return False, f"called with {[norm(a) for a in call.args]} instead of (start, end, text)", fn
        ps = [a.arg for a in fn.args.args]
        if len(ps) < 3:
            return False, "fewer than three parameters", fn
        ST, EN, TX = ps[0], ps[1], ps[2]
        from .paths import enumerate_paths as _ep

        def _names_slice_now(ret: ast.Return, name: str) -> bool:
            """on every path to `ret`, `name` was last assigned text[start:end] and neither start nor end changed since"""
            seen = False
            for p_ in _ep(fn.body):
                if p_.exit != "return" or p_.exit_node is not ret:
                    continue
                seen = True
                valid = False
                for ev in p_.events:
                    if ev[0] != "stmt":
                        continue
                    an_ = assigned_names(ev[1])
                    if name in an_:
                        valid = isinstance(ev[1], ast.Assign) and norm(ev[1].value) == f"{TX}[{ST}:{EN}]"
                    elif ST in an_ or EN in an_:
                        valid = False
                if not valid:
                    return False
            return seen

        for r in [n for n in walk_local(fn) if isinstance(n, ast.Return)]:
            v = r.value
            third_ok = isinstance(v, ast.Tuple) and len(v.elts) == 3 and (norm(v.elts[2]) == f"{TX}[{ST}:{EN}]" or (
                isinstance(v.elts[2], ast.Name) and _names_slice_now(r, v.elts[2].id)))
            if not (isinstance(v, ast.Tuple) and len(v.elts) == 3 and norm(v.elts[0]) == ST and norm(v.elts[1]) == EN and third_ok):
                return False, f"return is not (start, end, text[start:end]): {norm(v) if v else None}", fn
        if any(TX in assigned_names(s) for s in stmts_local(fn.body)):
            return False, "the text parameter is rebound", fn
        # every rebinding of start/end keeps start <= end
        from .paths import guards_of

        # name -> [(defining statement, kind, searched slice)]; kind "match" (finditer list / index: always a position) or "find" (-1 when absent)
        pos_defs: Dict[str, List[Tuple[ast.stmt, str, ast.AST]]] = {}
        for s in stmts_local(fn.body):
            if isinstance(s, ast.Assign) and len(s.targets) == 1 and isinstance(s.targets[0], ast.Name):
                v = s.value
                nm = s.targets[0].id
                inner = v.args[0] if isinstance(v, ast.Call) and dotted(v.func) in ("list", "tuple") and v.args else v
                if isinstance(inner, ast.Call) and dotted(inner.func) in ("re.finditer",) and len(inner.args) >= 2:
                    pos_defs.setdefault(nm, []).append((s, "match", inner.args[1]))
                    continue
                # a compiled pattern object (whatever it is): P.finditer(slice) gives matches of that slice, P.search / P.match(slice) one match;
                # positions of a match lie inside the searched string for any pattern
                if isinstance(inner, ast.Call) and isinstance(inner.func, ast.Attribute) and inner.func.attr == "finditer" and dotted(inner.func.value) not in ("re", "regex") \
                        and len(inner.args) == 1 and not inner.keywords:
                    pos_defs.setdefault(nm, []).append((s, "match", inner.args[0]))
                    continue
                if isinstance(v, ast.Call) and isinstance(v.func, ast.Attribute) and v.func.attr in ("search", "match", "fullmatch") and not v.keywords:
                    is_mod = dotted(v.func.value) in ("re", "regex")
                    if (is_mod and len(v.args) == 2) or (not is_mod and len(v.args) == 1):
                        pos_defs.setdefault(nm, []).append((s, "match", v.args[-1]))
                        continue
                if isinstance(v, ast.Call) and isinstance(v.func, ast.Attribute) and v.func.attr in ("find", "rfind", "index", "rindex") and len(v.args) == 1 \
                        and isinstance(v.func.value, ast.Subscript):
                    pos_defs.setdefault(nm, []).append((s, "match" if v.func.attr in ("index", "rindex") else "find", v.func.value))
                    continue
            for nm in assigned_names(s) & set(pos_defs):
                pos_defs[nm].append((s, "other", None))

        def reaching(nm: str, at: ast.stmt):
            """the definition of nm that reaches `at`: the closest earlier assignment whose block encloses `at`"""
            anc = set()
            cur = at
            while cur is not None and cur is not fn:
                anc.add(id(getattr(cur, "parent", None)))
                cur = getattr(cur, "parent", None)
            best = None
            for d in pos_defs.get(nm, []):
                if d[0].lineno < at.lineno or (d[0].lineno == at.lineno and d[0] is not at):
                    if best is None or d[0].lineno >= best[0].lineno:
                        best = d
            if best is None or best[1] == "other" or id(getattr(best[0], "parent", None)) not in anc:
                return None
            return best

        matches_src = {nm: True for nm in pos_defs}
        find_vars = matches_src
        fpaths = enumerate_paths(fn.body)

        def position(e: ast.AST, at: ast.stmt) -> Optional[ast.AST]:
            """e is an offset inside a searched slice (0 <= e <= len(slice)): returns the slice expression"""
            mp = _match_pos(e, matches_src)
            if mp is not None:
                d = reaching(mp, at)
                return d[2] if d is not None and d[1] == "match" else None
            if isinstance(e, ast.Name) and e.id in pos_defs:
                d = reaching(e.id, at)
                if d is None:
                    return None
                if d[1] == "match" and not isinstance(d[2], ast.Subscript):
                    return None
                if d[1] == "match" and isinstance(d[0].value, ast.Call) and isinstance(d[0].value.func, ast.Attribute) and d[0].value.func.attr in ("index", "rindex"):
                    return d[2]
                if d[1] == "find":
                    guards, _ = guards_of(fpaths, at)
                    for c, o in guards:
                        t = norm(c)
                        if (t in (f"{e.id} == -1", f"{e.id} < 0", f"{e.id} <= -1") and not o) or (t in (f"{e.id} != -1", f"{e.id} >= 0", f"{e.id} > -1") and o):
                            return d[2]
            return None

        def nonneg(e: ast.AST, at: ast.stmt) -> bool:
            if isinstance(e, ast.Constant):
                return isinstance(e.value, int) and e.value >= 0
            if isinstance(e, ast.Call) and dotted(e.func) == "len":
                return True
            if isinstance(e, ast.BinOp) and isinstance(e.op, ast.Add):
                return nonneg(e.left, at) and nonneg(e.right, at)
            return position(e, at) is not None

        def terms(e: ast.AST) -> List[ast.AST]:
            if isinstance(e, ast.BinOp) and isinstance(e.op, ast.Add):
                return terms(e.left) + terms(e.right)
            return [e]

        def slice_bounds(sl: ast.AST):
            if isinstance(sl, ast.Subscript) and norm(sl.value) == TX and isinstance(sl.slice, ast.Slice) and sl.slice.step is None:
                return (norm(sl.slice.lower) if sl.slice.lower is not None else "0", norm(sl.slice.upper) if sl.slice.upper is not None else None)
            return None

        for s in stmts_local(fn.body):
            if not isinstance(s, (ast.Assign, ast.AugAssign, ast.AnnAssign)):
                continue
            an = assigned_names(s)
            v = getattr(s, "value", None)
            if EN in an:
                # end = start + <offset found in text[start:..]> (+ non-negative terms)  =>  start <= end, rebased by the slice's own lower bound
                ok = False
                if isinstance(s, ast.Assign) and v is not None:
                    ts = terms(v)
                    if norm(ts[0]) == ST and len(ts) >= 2 and all(nonneg(t, s) for t in ts[1:]):
                        srcs = [position(t, s) for t in ts[1:] if position(t, s) is not None]
                        ok = len(srcs) == 1 and slice_bounds(srcs[0]) is not None and slice_bounds(srcs[0])[0] == ST
                if not ok:
                    return False, f"cannot show start <= end after `{norm(s)}`", fn
            if ST in an:
                # start = A + <offset of a match found in text[A:end]>  =>  start <= end
                ok = False
                if isinstance(s, ast.Assign) and v is not None:
                    ts = terms(v)
                    if len(ts) == 2:
                        src = position(ts[1], s)
                        sb = slice_bounds(src) if src is not None else None
                        ok = sb is not None and sb[0] == norm(ts[0]) and sb[1] == EN
                if not ok:
                    return False, f"cannot show start <= end after `{norm(s)}`", fn
        return True, "returns (s, e, text[s:e]); every rebinding of start/end keeps s <= e", fn

    # -------------------------------------------------------------- simulation
    def _simulate(self, p: Path) -> PathRec:
        S, E, CUR, SPAN, T, OUT = self.S, self.E, self.CUR, self.SPAN, self.T, self.OUT
        rec = PathRec()
        rec.exit = p.exit
        ver = {S: 0, E: 0, CUR: 0}
        facts: Set[Tuple[str, str, str]] = {("le", S, E)}  # input assumption: spans are given with start <= end
        span_def: Optional[Tuple[str, int, int]] = None
        bal: Optional[bool] = None  # last balance-test outcome valid for the current SPAN
        defs: Dict[str, ast.AST] = {}
        emitted_at: Optional[Dict[str, Any]] = None

        def kill(var: str, keep_lower_bounds=False, keep_upper_bounds=False):
            new = set()
            for k, a, b in facts:
                if var not in (a, b):
                    new.add((k, a, b))
                elif keep_lower_bounds and b == var and a != var:
                    new.add((k, a, b))  # a <= var still true if var grew
                elif keep_upper_bounds and a == var and b != var:
                    new.add((k, a, b))
            facts.clear()
            facts.update(new)
            ver[var] = ver.get(var, 0) + 1

        def holds_le(a: str, b: str) -> bool:
            if a == b:
                return True
            # transitive closure over the tiny fact set
            reach = {a}
            changed = True
            while changed:
                changed = False
                for k, x, y in facts:
                    if x in reach and y not in reach:
                        reach.add(y)
                        changed = True
            return b in reach

        for ev in p.events:
            kind = ev[0]
            if kind == "cond":
                c, o = ev[1], ev[2]
                # `X != c` taken with outcome o is `X == c` with outcome not o: one spelling for the rules that read the conditions
                if isinstance(c, ast.Compare) and len(c.ops) == 1 and isinstance(c.ops[0], ast.NotEq):
                    c = ast.copy_location(ast.Compare(left=c.left, ops=[ast.Eq()], comparators=list(c.comparators)), c)
                    o = not o
                rec.conds.append((norm(c), o))
                pt_ = presence_test(c, o)
                if pt_:
                    rec.presence.append(pt_)
                rel = _cmp(c, {S, E, CUR})
                if rel:
                    a, op, b = rel
                    if not o:
                        # negate
                        op = {"<": ">=", "<=": ">", ">": "<=", ">=": "<", "==": "!=", "!=": "=="}[op]
                    if op == "<":
                        facts.add(("lt", a, b)); facts.add(("le", a, b))
                    elif op == "<=":
                        facts.add(("le", a, b))
                    elif op == ">":
                        facts.add(("lt", b, a)); facts.add(("le", b, a))
                    elif op == ">=":
                        facts.add(("le", b, a))
                    elif op == "==":
                        facts.add(("le", a, b)); facts.add(("le", b, a))
                # balance tests on SPAN
                if isinstance(c, ast.Call) and isinstance(c.func, ast.Name) and len(c.args) == 1 and norm(c.args[0]) == SPAN and "balanced" in c.func.id:
                    bal = o
                    self.balance_test_name = c.func.id
                continue
            if kind == "loop":
                if ev[2] == "enter":
                    for nm in assigned_names(ev[1]) & {S, E, CUR}:
                        kill(nm)
                    if SPAN in assigned_names(ev[1]):
                        span_def, bal = None, None
                    rec.problems.append(f"nested loop at line {ev[1].lineno}")
                continue
            if kind != "stmt":
                continue
            s = ev[1]
            # emissions / other OUT mutations
            calls = [n for n in ast.walk(s) if self._is_out_call(n)]
            if calls:
                for c in calls:
                    exprs = self._emitted_exprs(c)
                    if not exprs:
                        rec.problems.append(f"output list mutated by `{norm(c)[:60]}`")
                        continue
                    for x in exprs:
                        info = self._classify_emit(x, defs)
                        info.update({
                            "node": c, "F1": holds_le(CUR, S), "F2": holds_le(S, E),
                            "F3": span_def is not None and span_def[1] == ver[S] and span_def[2] == ver[E],
                            "span_def": span_def, "bal": bal, "ver": dict(ver), "facts": sorted(facts),
                        })
                        rec.emits.append(info)
                        if info["kind"] == "piece":
                            emitted_at = {"verE": ver[E], "verS": ver[S]}
                continue
            if isinstance(s, (ast.Assign, ast.AnnAssign, ast.AugAssign)):
                v = getattr(s, "value", None)
                tgts = s.targets if isinstance(s, ast.Assign) else [s.target]
                names: List[str] = []
                for t in tgts:
                    if isinstance(t, ast.Name):
                        names.append(t.id)
                    elif isinstance(t, (ast.Tuple, ast.List)):
                        names += [e.id for e in t.elts if isinstance(e, ast.Name)]
                    elif isinstance(t, (ast.Subscript, ast.Attribute)):
                        root = t
                        while isinstance(root, (ast.Subscript, ast.Attribute)):
                            root = root.value
                        if isinstance(root, ast.Name) and root.id == OUT:
                            rec.problems.append(f"output list written by `{norm(s)[:60]}`")
                if T in names:
                    rec.problems.append(f"text rebound inside the loop: `{norm(s)[:60]}`")
                if OUT in names:
                    rec.problems.append(f"output list rebound inside the loop: `{norm(s)[:60]}`")
                # tuple call with verified summary
                if (isinstance(s, ast.Assign) and isinstance(tgts[0], ast.Tuple) and [norm(e) for e in tgts[0].elts] == [S, E, SPAN]
                        and isinstance(v, ast.Call)):
                    had_f2 = holds_le(S, E)
                    kill(S); kill(E)
                    if self.bal_ok and v is getattr(self, "balance_call", None):
                        if had_f2:
                            facts.add(("le", S, E))
                        span_def = ("slice", ver[S], ver[E])
                    else:
                        span_def = None
                    bal = None
                    continue
                for nm in names:
                    if nm == CUR:
                        kill(CUR)
                        src = norm(v) if v is not None else "?"
                        rec.cur_assigns.append({"node": s, "from": src, "verE": ver[E], "after_emit": emitted_at is not None,
                                                "emit_verE": emitted_at["verE"] if emitted_at else None})
                        if isinstance(s, ast.Assign) and isinstance(v, ast.Name) and v.id in (S, E):
                            facts.add(("le", v.id, CUR)); facts.add(("le", CUR, v.id))
                    elif nm in (S, E):
                        self._assign_se(nm, s, v, facts, kill, holds_le)
                        bal = bal  # balance fact is about SPAN's text, unaffected
                    elif nm == SPAN:
                        if isinstance(s, ast.Assign) and self._is_span_slice(v):
                            span_def = ("slice", ver[S], ver[E])
                        elif (isinstance(s, ast.Assign) and isinstance(v, ast.Call) and isinstance(v.func, ast.Name) and self.wrap_fn is not None
                              and v.func.id == self.wrap_fn.name and v.args and norm(v.args[0]) == SPAN):
                            rec.trace.append("wrap")
                            self.last_wrap_call = v
                            if self.wrap_ok and span_def is not None:
                                span_def = ("wrapped", span_def[1], span_def[2])
                            else:
                                span_def = None
                        else:
                            span_def = None
                        bal = None
                    else:
                        if v is not None and isinstance(s, ast.Assign):
                            defs[nm] = v
                continue
        # end of path bookkeeping
        rec.final_facts = sorted(facts)
        return rec

    def _assign_se(self, nm, s, v, facts, kill, holds_le):
        S, E, CUR = self.S, self.E, self.CUR
        if isinstance(s, ast.AugAssign) or v is None:
            kill(nm)
            return
        # X = Y  (Y tracked)
        if isinstance(v, ast.Name) and v.id in (S, E, CUR) and v.id != nm:
            kill(nm)
            facts.add(("le", v.id, nm)); facts.add(("le", nm, v.id))
            return
        if isinstance(v, ast.Call) and dotted(v.func) in ("max", "min") and len(v.args) >= 2 and not v.keywords:
            is_max = dotted(v.func) == "max"
            arg_names = [a.id for a in v.args if isinstance(a, ast.Name) and a.id in (S, E, CUR)]
            self_in = nm in arg_names
            kill(nm, keep_lower_bounds=self_in and is_max, keep_upper_bounds=self_in and not is_max)
            for y in arg_names:
                if y != nm:
                    facts.add(("le", y, nm) if is_max else ("le", nm, y))
            return
        kill(nm)

    def _classify_emit(self, x: ast.AST, defs: Dict[str, ast.AST]) -> Dict[str, Any]:
        S, E, CUR, T, SPAN = self.S, self.E, self.CUR, self.T, self.SPAN
        if (isinstance(x, ast.Subscript) and isinstance(x.value, ast.Name) and x.value.id == T and isinstance(x.slice, ast.Slice)):
            lo = norm(x.slice.lower) if x.slice.lower is not None else ""
            hi = norm(x.slice.upper) if x.slice.upper is not None else ""
            return {"kind": "gap", "ok": lo == CUR and hi == S and x.slice.step is None, "text": norm(x)}
        e = x
        via = None
        if isinstance(x, ast.Name) and x.id in defs:
            via = x.id
            e = defs[x.id]
        parts = _concat_parts(e)
        if parts is not None and len(parts) == 3:
            names = [norm(p) for p in parts]
            return {"kind": "piece", "form": "concat", "ok": names == [self.BEFORE, SPAN, self.AFTER], "text": norm(e), "via": via}
        if isinstance(e, ast.Call) and isinstance(e.func, ast.Name) and e.func.id in {a.arg for a in self.f.args.args + self.f.args.kwonlyargs}:
            args = [norm(a) for a in e.args]
            return {"kind": "piece", "form": "callback", "ok": args == [self.BEFORE, SPAN, self.AFTER], "text": norm(e), "via": via}
        return {"kind": "piece", "form": "other", "ok": False, "text": norm(e), "via": via}


def _flatten(items):
    for op, av in items:
        yield op, av
        name = str(op)
        if name == "SUBPATTERN":
            yield from _flatten(av[3])
        elif name in ("MAX_REPEAT", "MIN_REPEAT", "POSSESSIVE_REPEAT"):
            yield from _flatten(av[2])
        elif name == "BRANCH":
            for b in av[1]:
                yield from _flatten(b)
        elif name in ("ASSERT", "ASSERT_NOT"):
            yield from _flatten(av[1])


def _concat_parts(e: ast.AST) -> Optional[List[ast.AST]]:
    """a + b + c  or f"{a}{b}{c}"  ->  [a, b, c]"""
    if isinstance(e, ast.BinOp) and isinstance(e.op, ast.Add):
        l = _concat_parts(e.left)
        r = _concat_parts(e.right)
        if l is None or r is None:
            return None
        return l + r
    if isinstance(e, ast.JoinedStr):
        out = []
        for v in e.values:
            if isinstance(v, ast.FormattedValue):
                if v.conversion != -1 or v.format_spec is not None:
                    return None
                out.append(v.value)
            else:
                out.append(v)
        return out
    if isinstance(e, (ast.Name, ast.Subscript, ast.Constant, ast.Call, ast.Attribute)):
        return [e]
    return None


def _match_pos(e: ast.AST, matches_src: Dict[str, ast.AST]) -> Optional[str]:
    """`matches[i].start()` / `.end()`  ->  name of the match list."""
    if (isinstance(e, ast.Call) and isinstance(e.func, ast.Attribute) and e.func.attr in ("start", "end") and not e.args
            and isinstance(e.func.value, ast.Subscript) and isinstance(e.func.value.value, ast.Name)
            and e.func.value.value.id in matches_src):
        return e.func.value.value.id
    # `m.start()` / `m.end()` of a single match object
    if (isinstance(e, ast.Call) and isinstance(e.func, ast.Attribute) and e.func.attr in ("start", "end") and not e.args
            and isinstance(e.func.value, ast.Name) and e.func.value.id in matches_src):
        return e.func.value.id
    return None


def _cmp(c: ast.AST, vars_: Set[str]) -> Optional[Tuple[str, str, str]]:
    if isinstance(c, ast.Compare) and len(c.ops) == 1 and isinstance(c.left, ast.Name) and isinstance(c.comparators[0], ast.Name):
        a, b = c.left.id, c.comparators[0].id
        if a in vars_ and b in vars_:
            op = {ast.Lt: "<", ast.LtE: "<=", ast.Gt: ">", ast.GtE: ">=", ast.Eq: "==", ast.NotEq: "!="}.get(type(c.ops[0]))
            if op:
                return a, op, b
    return None
