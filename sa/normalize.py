"""Whole-package normalisation run before the helper inliner (sa/inline.py) and after the per-module canonical forms (sa/canon.py).

The rules are written against the functions, module constants and signatures of the reference tree (sa/reference_*.txt/json, frozen).
Anything a maintainer *added around* that code -- a constant hoisted to module level (possibly in another module), a `re.compile` /
`operator.itemgetter` / `functools.partial` object, an optional parameter whose default reproduces today's behaviour, a local alias
of a bound method, a named boolean -- is folded back, so a rule sees the same expressions whether or not the addition exists.  Every
rewrite is behaviour-preserving for the tree that is analysed (it never touches /repo):

  N1  extra module constants (not names of the reference tree, bound once): literals, `re.compile(<literal>)`, and constants imported
      from a sibling module are replaced by their value at their uses in functions;
  N2  `operator.itemgetter/attrgetter/methodcaller`, `functools.partial(operator.<op>, ..)` objects (module-level or in place) become
      the expression they compute (`_res = itemgetter(1); _res(x)` -> `x[1]`; `key=methodcaller('span')` -> `key=lambda v: v.span()`);
      `map(<lambda>, xs)` / `filter(<lambda>, xs)` directly consumed by a collection builder become generator expressions;
  N3  an *extra* parameter (not in the reference signature) with a default that no call site of the package passes -- or passes only
      the callee's own default / the caller's own extra parameter -- is replaced by its default (the property's quantifier does not
      range over configurations that did not exist); tests of the form `<const> is None` are folded afterwards;
  N4  locals: `f = obj.method` (obj bound once) called as `f(..)` -> `obj.method(..)`; a local bound once, at function level, to a
      pure boolean expression over never-rebound names is replaced by that expression; `r = re.compile(P, F)` bound once and used
      only as `r.<method>(..)` -> `re.<method>(P, .., flags=F)`; `typing.cast(T, e)` -> `e`;
  N5  `for T in NAME` where NAME is an extra module constant `tuple(ELT for v in <literal tuple>)` -> `for v in <literal>: T = ELT; ..`
"""
from __future__ import annotations

import ast
import json
from pathlib import Path
from typing import Dict, List, Optional, Set, Tuple

from .core import acopy

HERE = Path(__file__).parent
REFERENCE_NAMES: Set[str] = set((HERE / "reference_names.txt").read_text().split())
REFERENCE_FUNCS: Set[str] = set((HERE / "reference_funcs.txt").read_text().split())
try:
    REFERENCE_SIGS: Dict[str, List[str]] = json.loads((HERE / "reference_sigs.json").read_text())
except FileNotFoundError:  # pragma: no cover
    REFERENCE_SIGS = {}

RE_METHODS = {"sub": (2, 3), "subn": (2, 3), "finditer": (1, 1), "findall": (1, 1), "match": (1, 1), "search": (1, 1), "fullmatch": (1, 1), "split": (1, 2)}
OPERATOR_BINOPS = {"is_not": ast.IsNot, "is_": ast.Is, "eq": ast.Eq, "ne": ast.NotEq, "lt": ast.Lt, "le": ast.LtE, "gt": ast.Gt, "ge": ast.GtE}
CONSUMERS = {"set", "list", "tuple", "sorted", "frozenset", "any", "all", "sum", "min", "max", "dict"}


def _literal(e: ast.AST) -> bool:
    if isinstance(e, ast.Constant):
        return isinstance(e.value, (str, int, float, bytes, bool)) or e.value is None
    if isinstance(e, ast.Tuple):
        return all(_literal(x) for x in e.elts)
    if isinstance(e, ast.UnaryOp) and isinstance(e.op, ast.USub):
        return _literal(e.operand)
    return False


def _dotted(n: ast.AST) -> Optional[str]:
    parts = []
    while isinstance(n, ast.Attribute):
        parts.append(n.attr)
        n = n.value
    if isinstance(n, ast.Name):
        return ".".join([n.id] + parts[::-1])
    return None


def _imports(tree: ast.Module) -> Dict[str, str]:
    out: Dict[str, str] = {}
    for n in tree.body:
        if isinstance(n, ast.ImportFrom) and n.module:
            for a in n.names:
                out[a.asname or a.name] = f"{n.module}.{a.name}"
        elif isinstance(n, ast.Import):
            for a in n.names:
                out[a.asname or a.name.split(".")[0]] = a.name if a.asname else a.name.split(".")[0]
    return out


def _origin(imports: Dict[str, str], func: ast.AST) -> Optional[str]:
    d = _dotted(func)
    if d is None:
        return None
    head, _, rest = d.partition(".")
    o = imports.get(head)
    if o is None:
        return None
    return o + ("." + rest if rest else "")


def _module_single_bindings(modname: str, tree: ast.Module) -> Dict[str, ast.AST]:
    """module-level names bound exactly once (no global rebinding anywhere) that are not names of the reference tree"""
    counts: Dict[str, int] = {}
    for s in tree.body:
        if isinstance(s, (ast.FunctionDef, ast.AsyncFunctionDef, ast.ClassDef)):
            counts[s.name] = counts.get(s.name, 0) + 1
            continue
        for n in ast.walk(s):
            if isinstance(n, ast.Name) and isinstance(n.ctx, (ast.Store, ast.Del)):
                counts[n.id] = counts.get(n.id, 0) + 1
    for n in ast.walk(tree):
        if isinstance(n, (ast.Global, ast.Nonlocal)):
            for nm in n.names:
                counts[nm] = counts.get(nm, 0) + 2
    out: Dict[str, ast.AST] = {}
    for s in tree.body:
        tgt = val = None
        if isinstance(s, ast.Assign) and len(s.targets) == 1 and isinstance(s.targets[0], ast.Name):
            tgt, val = s.targets[0].id, s.value
        elif isinstance(s, ast.AnnAssign) and isinstance(s.target, ast.Name) and s.value is not None:
            tgt, val = s.target.id, s.value
        if tgt is None or f"{modname}.{tgt}" in REFERENCE_NAMES or counts.get(tgt, 0) != 1:
            continue
        out[tgt] = val
    return out


# ---------------------------------------------------------------------------------------------------- N2 operator objects
def _operator_object(imports: Dict[str, str], e: ast.AST):
    """(builder) for `itemgetter(k)`, `attrgetter('a.b')`, `methodcaller('m', ..)`, `partial(operator.<binop>, c)`:
    builder(arg_expr) -> expression computed by calling the object with arg_expr; None if `e` is not such an object"""
    if not isinstance(e, ast.Call) or any(isinstance(a, ast.Starred) for a in e.args) or any(k.arg is None for k in e.keywords):
        return None
    o = _origin(imports, e.func)
    if o == "operator.itemgetter" and e.args and not e.keywords and all(_literal(a) for a in e.args):
        keys = e.args

        def build(x, keys=keys):
            items = [ast.Subscript(value=acopy(x), slice=acopy(k), ctx=ast.Load()) for k in keys]
            return items[0] if len(items) == 1 else ast.Tuple(elts=items, ctx=ast.Load())
        return build, len(keys)
    if o == "operator.attrgetter" and e.args and not e.keywords and all(isinstance(a, ast.Constant) and isinstance(a.value, str) for a in e.args):
        paths = [a.value.split(".") for a in e.args]

        def build(x, paths=paths):
            outs = []
            for p in paths:
                cur = acopy(x)
                for seg in p:
                    cur = ast.Attribute(value=cur, attr=seg, ctx=ast.Load())
                outs.append(cur)
            return outs[0] if len(outs) == 1 else ast.Tuple(elts=outs, ctx=ast.Load())
        return build, len(paths)
    if o == "operator.methodcaller" and e.args and isinstance(e.args[0], ast.Constant) and isinstance(e.args[0].value, str) \
            and all(_literal(a) for a in e.args[1:]) and all(_literal(k.value) for k in e.keywords):
        name, rest, kws = e.args[0].value, e.args[1:], e.keywords

        def build(x, name=name, rest=rest, kws=kws):
            return ast.Call(func=ast.Attribute(value=acopy(x), attr=name, ctx=ast.Load()), args=[acopy(a) for a in rest],
                            keywords=[ast.keyword(arg=k.arg, value=acopy(k.value)) for k in kws])
        return build, 1
    if o == "functools.partial" and len(e.args) == 2 and not e.keywords and _literal(e.args[1]):
        fo = _origin(imports, e.args[0])
        if fo and fo.startswith("operator.") and fo.split(".")[1] in OPERATOR_BINOPS:
            op, c = OPERATOR_BINOPS[fo.split(".")[1]], e.args[1]

            def build(x, op=op, c=c):
                return ast.Compare(left=acopy(c), ops=[op()], comparators=[acopy(x)])
            return build, 1
    return None


def _as_lambda(build, at: ast.AST) -> ast.Lambda:
    v = ast.Name(id="_v", ctx=ast.Load())
    lam = ast.Lambda(args=ast.arguments(posonlyargs=[], args=[ast.arg(arg="_v")], kwonlyargs=[], kw_defaults=[], defaults=[]), body=build(v))
    return ast.copy_location(lam, at)


def _simple_arg(e: ast.AST) -> bool:
    return isinstance(e, (ast.Name, ast.Constant)) or (isinstance(e, ast.Attribute) and _simple_arg(e.value)) or (
        isinstance(e, ast.Subscript) and _simple_arg(e.value) and _simple_arg(e.slice))


class _Shadow(ast.NodeTransformer):
    """base: tracks names bound in enclosing functions so module constants shadowed by a local are left alone"""

    def __init__(self):
        self.shadow: List[Set[str]] = []

    def _fn(self, node):
        a = node.args
        bound = {x.arg for x in a.args + a.kwonlyargs + a.posonlyargs}
        if a.vararg:
            bound.add(a.vararg.arg)
        if a.kwarg:
            bound.add(a.kwarg.arg)
        if not isinstance(node, ast.Lambda):
            bound |= {n.id for n in ast.walk(node) if isinstance(n, ast.Name) and isinstance(n.ctx, ast.Store)}
        self.shadow.append(bound)
        self.generic_visit(node)
        self.shadow.pop()
        return node

    visit_FunctionDef = visit_AsyncFunctionDef = visit_Lambda = _fn

    def shadowed(self, name: str) -> bool:
        return any(name in b for b in self.shadow)

    def in_function(self) -> bool:
        return bool(self.shadow)


def propagate_constants(trees: Dict[str, ast.Module]) -> List[str]:
    log: List[str] = []
    singles = {m: _module_single_bindings(m, t) for m, t in trees.items() if m != "test_factories"}
    imports = {m: _imports(t) for m, t in trees.items()}
    for modname, tree in trees.items():
        if modname == "test_factories":
            continue
        imp = imports[modname]
        # name -> (value expression, imports of the module that defines it)
        visible: Dict[str, Tuple[ast.AST, Dict[str, str]]] = {n: (v, imp) for n, v in singles[modname].items()}
        for local, origin in imp.items():
            parts = origin.split(".")
            if len(parts) == 3 and parts[0] == "eyecite" and parts[1] in singles and parts[2] in singles[parts[1]]:
                visible[local] = (singles[parts[1]][parts[2]], imports[parts[1]])
        lits: Dict[str, ast.AST] = {}
        comps: Dict[str, ast.Call] = {}
        ops: Dict[str, tuple] = {}
        for n, (v, vimp) in visible.items():
            if _literal(v):
                lits[n] = v
            elif isinstance(v, ast.Call) and _origin(vimp, v.func) in ("re.compile",) and v.args and _literal(v.args[0]) \
                    and all(_simple_arg(a) for a in v.args[1:]) and all(k.arg == "flags" and _simple_arg(k.value) for k in v.keywords) and "re" in imp \
                    and imp.get("re") == "re":
                comps[n] = v
            else:
                ob = _operator_object(vimp, v)
                if ob is not None:
                    ops[n] = ob

        class T(_Shadow):
            def visit_Call(self, node: ast.Call):
                f = node.func
                # N1 compiled pattern method
                if isinstance(f, ast.Attribute) and isinstance(f.value, ast.Name) and f.value.id in comps and not self.shadowed(f.value.id) \
                        and f.attr in RE_METHODS and self.in_function():
                    comp = comps[f.value.id]
                    lo, hi = RE_METHODS[f.attr]
                    if lo <= len(node.args) <= hi and all(k.arg in ("count", "maxsplit") for k in node.keywords):
                        self.generic_visit(node)
                        flags = comp.args[1] if len(comp.args) > 1 else next((k.value for k in comp.keywords if k.arg == "flags"), None)
                        new = ast.Call(func=ast.copy_location(ast.Attribute(value=ast.copy_location(ast.Name(id="re", ctx=ast.Load()), f), attr=f.attr, ctx=ast.Load()), f),
                                       args=[ast.copy_location(acopy(comp.args[0]), f.value)] + node.args, keywords=list(node.keywords))
                        if flags is not None:
                            new.keywords.append(ast.keyword(arg="flags", value=acopy(flags)))
                        log.append(f"{modname}: {f.value.id}.{f.attr}(..) -> re.{f.attr}(<literal>, ..) at line {node.lineno}")
                        return ast.copy_location(new, node)
                # N2 call of an operator object bound at module level
                if isinstance(f, ast.Name) and f.id in ops and not self.shadowed(f.id) and self.in_function() and len(node.args) == 1 and not node.keywords \
                        and not isinstance(node.args[0], ast.Starred):
                    build, width = ops[f.id]
                    self.generic_visit(node)
                    if width == 1 or _simple_arg(node.args[0]):
                        log.append(f"{modname}: {f.id}(x) -> expression at line {node.lineno}")
                        return ast.copy_location(build(node.args[0]), node)
                    return node
                # N2 call of an operator object built in place: itemgetter(1)(x)
                if isinstance(f, ast.Call) and len(node.args) == 1 and not node.keywords and not isinstance(node.args[0], ast.Starred):
                    ob = _operator_object(imp, f)
                    if ob is not None and (ob[1] == 1 or _simple_arg(node.args[0])):
                        self.generic_visit(node)
                        return ast.copy_location(ob[0](node.args[0]), node)
                self.generic_visit(node)
                # N2 operator object used as a value (key=.., map(.., xs))
                ob = _operator_object(imp, node)
                if ob is not None and self.in_function():
                    log.append(f"{modname}: operator object -> lambda at line {node.lineno}")
                    return _as_lambda(ob[0], node)
                return node

            def visit_Name(self, node: ast.Name):
                if not isinstance(node.ctx, ast.Load) or not self.in_function() or self.shadowed(node.id):
                    return node
                if node.id in lits:
                    log.append(f"{modname}: constant {node.id} propagated at line {node.lineno}")
                    return ast.copy_location(acopy(lits[node.id]), node)
                if node.id in ops:
                    log.append(f"{modname}: operator object {node.id} -> lambda at line {node.lineno}")
                    return _as_lambda(ops[node.id][0], node)
                return node

        T().visit(tree)
        _MapFilter().visit(tree)
        ast.fix_missing_locations(tree)
    return log


class _MapFilter(ast.NodeTransformer):
    """`map(lambda v: E, xs)` / `filter(lambda v: C, xs)` consumed at once by a collection builder / join / for -> generator expression"""

    @staticmethod
    def _gen(call: ast.AST) -> Optional[ast.GeneratorExp]:
        if not (isinstance(call, ast.Call) and isinstance(call.func, ast.Name) and call.func.id in ("map", "filter") and len(call.args) == 2 and not call.keywords):
            return None
        lam, xs = call.args
        if not (isinstance(lam, ast.Lambda) and len(lam.args.args) == 1 and not lam.args.defaults and not lam.args.vararg and not lam.args.kwarg
                and not lam.args.kwonlyargs and not lam.args.posonlyargs):
            return None
        v = lam.args.args[0].arg
        # the lambda's parameter must not capture a name used by xs
        if any(isinstance(n, ast.Name) and n.id == v for n in ast.walk(xs)):
            return None
        tgt = ast.Name(id=v, ctx=ast.Store())
        if call.func.id == "map":
            g = ast.GeneratorExp(elt=lam.body, generators=[ast.comprehension(target=tgt, iter=xs, ifs=[], is_async=0)])
        else:
            g = ast.GeneratorExp(elt=ast.Name(id=v, ctx=ast.Load()), generators=[ast.comprehension(target=tgt, iter=xs, ifs=[lam.body], is_async=0)])
        return ast.copy_location(g, call)

    def visit_Call(self, node: ast.Call):
        self.generic_visit(node)
        f = node.func
        consumer = (isinstance(f, ast.Name) and f.id in CONSUMERS) or (isinstance(f, ast.Attribute) and f.attr in ("join", "extend", "update"))
        if consumer and node.args:
            g = self._gen(node.args[0])
            if g is not None:
                node.args[0] = g
        return node

    def visit_For(self, node: ast.For):
        self.generic_visit(node)
        g = self._gen(node.iter)
        if g is not None:
            node.iter = g
        return node


# ---------------------------------------------------------------------------------------------------- N3 extra default parameters
def _functions(tree: ast.Module, modname: str):
    """(qualname, FunctionDef, class name or None)"""
    def rec(body, prefix, cls):
        for s in body:
            if isinstance(s, (ast.FunctionDef, ast.AsyncFunctionDef)):
                yield f"{prefix}.{s.name}", s, cls
                yield from rec(s.body, f"{prefix}.{s.name}", None)
            elif isinstance(s, ast.ClassDef):
                yield from rec(s.body, f"{prefix}.{s.name}", s.name)
            elif isinstance(s, (ast.If, ast.Try, ast.With, ast.For, ast.While)):
                for fld in ("body", "orelse", "finalbody", "handlers"):
                    sub = getattr(s, fld, None) or []
                    for x in sub:
                        if isinstance(x, ast.ExceptHandler):
                            yield from rec(x.body, prefix, cls)
                    yield from rec([x for x in sub if isinstance(x, ast.stmt)], prefix, cls)
    yield from rec(tree.body, modname, None)


def _param_defaults(fn: ast.FunctionDef) -> Dict[str, ast.AST]:
    a = fn.args
    pos = a.posonlyargs + a.args
    out = {}
    for p, d in zip(pos[len(pos) - len(a.defaults):], a.defaults):
        out[p.arg] = d
    for p, d in zip(a.kwonlyargs, a.kw_defaults):
        if d is not None:
            out[p.arg] = d
    return out


def _same(a: ast.AST, b: ast.AST) -> bool:
    return ast.dump(a) == ast.dump(b)


def _flow_substitute(fn: ast.FunctionDef, p: str, d: ast.AST) -> None:
    """replace loads of `p` by the literal `d` wherever only the initial binding of `p` can reach them (a flow-sensitive walk over the structured
    statements; a loop whose body stores `p` is left alone entirely; nested functions are not entered)"""

    def stores(node) -> bool:
        return any(isinstance(x, ast.Name) and x.id == p and isinstance(x.ctx, (ast.Store, ast.Del)) for x in ast.walk(node)) or any(
            isinstance(x, ast.ExceptHandler) and x.name == p for x in ast.walk(node))

    class Sub(ast.NodeTransformer):
        def visit_Name(self, node):
            if node.id == p and isinstance(node.ctx, ast.Load):
                return ast.copy_location(acopy(d), node)
            return node

        def visit_Lambda(self, node):
            return node

        def visit_FunctionDef(self, node):
            return node

    def sub_expr(owner, field):
        v = getattr(owner, field, None)
        if isinstance(v, ast.AST):
            setattr(owner, field, Sub().visit(v))

    def block(stmts, live: bool) -> bool:
        """process a statement list; `live` = only the initial binding reaches here.  Returns whether that still holds afterwards."""
        for st in stmts:
            if not live:
                return False
            if isinstance(st, (ast.FunctionDef, ast.AsyncFunctionDef, ast.ClassDef)):
                continue
            if isinstance(st, ast.If):
                sub_expr(st, "test")
                if stores(st.test):
                    return False
                a = block(st.body, True)
                b = block(st.orelse, True)
                live = a and b
            elif isinstance(st, (ast.For, ast.AsyncFor, ast.While)):
                if stores(st):
                    return False
                Sub().visit(st)
            elif isinstance(st, (ast.With, ast.AsyncWith)):
                for it in st.items:
                    it.context_expr = Sub().visit(it.context_expr)
                if any(stores(it) for it in st.items):
                    return False
                live = block(st.body, True)
            elif isinstance(st, ast.Try) or st.__class__.__name__ == "TryStar":
                if stores(st):
                    return False
                Sub().visit(st)
            else:
                # simple statement: the right-hand side is evaluated before the store
                if isinstance(st, (ast.Assign, ast.AnnAssign, ast.AugAssign)) and getattr(st, "value", None) is not None:
                    st.value = Sub().visit(st.value)
                    if isinstance(st, ast.AugAssign) and stores(st.target):
                        return False
                    tg = st.targets if isinstance(st, ast.Assign) else [st.target]
                    for t in tg:
                        if not (isinstance(t, ast.Name)):
                            Sub().visit(t)
                    if stores(st):
                        live = False
                elif stores(st):
                    return False
                else:
                    Sub().visit(st)
        return live

    block(fn.body, True)


def specialise_defaults(trees: Dict[str, ast.Module]) -> List[str]:
    log: List[str] = []
    for _round in range(4):
        changed = False
        funcs = []
        for m, t in trees.items():
            if m == "test_factories":
                continue
            funcs += [(q, fn, cls, m) for q, fn, cls in _functions(t, m)]
        by_name: Dict[str, List] = {}
        for q, fn, cls, m in funcs:
            by_name.setdefault(fn.name, []).append((q, fn, cls, m))
        # every call in the package, by callee simple name
        calls: Dict[str, List[Tuple[ast.Call, Optional[ast.FunctionDef]]]] = {}
        for m, t in trees.items():
            owner: Dict[int, ast.FunctionDef] = {}
            for q, fn, cls, mm in [f for f in funcs if f[3] == m]:
                for n in ast.walk(fn):
                    if isinstance(n, ast.Call):
                        owner[id(n)] = fn  # innermost wins because nested functions are visited later
            for n in ast.walk(t):
                if isinstance(n, ast.Call):
                    nm = n.func.id if isinstance(n.func, ast.Name) else n.func.attr if isinstance(n.func, ast.Attribute) else None
                    if nm:
                        calls.setdefault(nm, []).append((n, owner.get(id(n))))
        for q, fn, cls, m in funcs:
            if q not in REFERENCE_SIGS:
                continue  # an extra function: the inliner deals with it
            ref = set(REFERENCE_SIGS[q])
            defaults = _param_defaults(fn)
            extra = [p for p in defaults if p not in ref]
            if not extra:
                continue
            a = fn.args
            pos_names = [x.arg for x in a.posonlyargs + a.args]
            is_method = cls is not None and pos_names[:1] in (["self"], ["cls"]) and not any(
                isinstance(d, ast.Name) and d.id == "staticmethod" for d in fn.decorator_list)
            for p in extra:
                d = defaults[p]
                if not (_literal(d) or isinstance(d, ast.Name)):
                    continue
                if p in pos_names and p != pos_names[-1]:
                    continue  # dropping it would shift later positional arguments
                ok = True
                sites = []
                # a constructor is called by the class's name, not by `__init__`
                for call, caller in (calls.get(cls, []) if fn.name == "__init__" and cls else calls.get(fn.name, [])):
                    if any(isinstance(x, ast.Starred) for x in call.args) or any(k.arg is None for k in call.keywords):
                        ok = False
                        break
                    passed = None
                    for k in call.keywords:
                        if k.arg == p:
                            passed = k.value
                    if passed is None and p in pos_names:
                        idx = pos_names.index(p) - (1 if is_method and (isinstance(call.func, ast.Attribute) or fn.name == "__init__") else 0)
                        if 0 <= idx < len(call.args):
                            passed = call.args[idx]
                    if passed is None:
                        continue
                    # the caller forwards its own extra parameter of the same default, or passes the default itself
                    fwd = False
                    if isinstance(passed, ast.Name) and caller is not None:
                        cd = _param_defaults(caller)
                        fwd = passed.id in cd and _same(cd[passed.id], d) and not any(
                            isinstance(x, ast.Name) and x.id == passed.id and isinstance(x.ctx, ast.Store) for x in ast.walk(caller))
                    if not (fwd or _same(passed, d)):
                        ok = False
                        break
                    sites.append((call, passed))
                if not ok:
                    continue
                # the parameter must not be rebound in the body -- except by the leading idiom `if p is None: p = E` (default None),
                # which becomes the plain local binding `p = E`
                rebound = [x for x in ast.walk(fn) if isinstance(x, ast.Name) and x.id == p and isinstance(x.ctx, (ast.Store, ast.Del))]
                idiom = None
                if rebound:
                    want = ast.dump(ast.parse(f"{p} is None", mode="eval").body)
                    for s_ in fn.body:
                        if isinstance(s_, ast.If) and not s_.orelse and len(s_.body) == 1 and isinstance(s_.body[0], ast.Assign) \
                                and s_.body[0].targets[0] is rebound[0] and ast.dump(s_.test) == want:
                            idiom = s_
                            break
                        if any(isinstance(x, ast.Name) and x.id == p for x in ast.walk(s_)):
                            break  # used before the idiom
                    if not (idiom is not None and len(rebound) == 1 and isinstance(d, ast.Constant) and d.value is None):
                        idiom = None
                        if not _literal(d):
                            continue
                        # the parameter doubles as a local: loads that only the parameter binding reaches get the default, and the binding itself
                        # becomes a leading `p = <default>` (kept only as long as some load still needs it)
                        _flow_substitute(fn, p, d)
                        init = ast.copy_location(ast.Assign(targets=[ast.Name(id=p, ctx=ast.Store())], value=acopy(d)), fn.body[0])
                        init._inl_temp = True  # type: ignore[attr-defined]
                        k0 = 1 if fn.body and isinstance(fn.body[0], ast.Expr) and isinstance(fn.body[0].value, ast.Constant) and isinstance(fn.body[0].value.value, str) else 0
                        fn.body.insert(k0, init)
                        rebound = "flow"
                # substitute the default in the body
                class S(ast.NodeTransformer):
                    def visit_Name(self, node):
                        if node.id == p and isinstance(node.ctx, ast.Load):
                            return ast.copy_location(acopy(d), node)
                        return node

                    def visit_Lambda(self, node):
                        if any(x.arg == p for x in node.args.args + node.args.kwonlyargs):
                            return node
                        return self.generic_visit(node)

                    def visit_FunctionDef(self, node):
                        if node is not fn and any(x.arg == p for x in node.args.args + node.args.kwonlyargs + node.args.posonlyargs):
                            return node
                        return self.generic_visit(node)
                if idiom is not None:
                    idiom.body[0]._inl_temp = True  # type: ignore[attr-defined]  # a binding this pass introduced: folded back if used once
                    fn.body[fn.body.index(idiom)] = idiom.body[0]
                elif rebound == "flow":
                    pass
                else:
                    fn.body = [S().visit(s) for s in fn.body]
                # drop the parameter
                if p in pos_names:
                    i = pos_names.index(p)
                    allpos = a.posonlyargs + a.args
                    di = i - (len(allpos) - len(a.defaults))
                    del a.defaults[di]
                    if i < len(a.posonlyargs):
                        del a.posonlyargs[i]
                    else:
                        del a.args[i - len(a.posonlyargs)]
                    # later positional arguments at call sites shift: only drop when the parameter is last or every site uses keywords after it
                else:
                    j = [x.arg for x in a.kwonlyargs].index(p)
                    del a.kwonlyargs[j]
                    del a.kw_defaults[j]
                for call, passed in sites:
                    call.keywords = [k for k in call.keywords if k.arg != p]
                    if passed in call.args:
                        call.args.remove(passed)
                log.append(f"{q}: extra parameter `{p}` specialised to its default {ast.unparse(d)}")
                changed = True
        if not changed:
            break
    if log:
        for t in trees.values():
            _Fold().visit(t)
            t.body = _prune(t.body)
            for n in ast.walk(t):
                for fld in ("body", "orelse", "finalbody"):
                    b = getattr(n, fld, None)
                    if isinstance(b, list) and b and isinstance(b[0], ast.stmt):
                        setattr(n, fld, _prune(b) or ([ast.copy_location(ast.Pass(), b[0])] if fld == "body" else []))
            ast.fix_missing_locations(t)
    return log


class _Fold(ast.NodeTransformer):
    """constant tests that parameter specialisation leaves behind"""

    @staticmethod
    def _truth(e: ast.AST) -> Optional[bool]:
        if isinstance(e, ast.Constant):
            return bool(e.value)
        return None

    def visit_Compare(self, node: ast.Compare):
        self.generic_visit(node)
        if len(node.ops) == 1 and isinstance(node.left, ast.Constant) and isinstance(node.comparators[0], ast.Constant):
            l, r = node.left.value, node.comparators[0].value
            op = node.ops[0]
            single = (None, True, False)
            if isinstance(op, (ast.Is, ast.IsNot)) and (any(l is s for s in single) or any(r is s for s in single)):
                v = (l is r) if isinstance(op, ast.Is) else (l is not r)
                return ast.copy_location(ast.Constant(value=v), node)
            if isinstance(op, (ast.Eq, ast.NotEq)) and type(l) is type(r):
                return ast.copy_location(ast.Constant(value=(l == r) if isinstance(op, ast.Eq) else (l != r)), node)
        return node

    def visit_UnaryOp(self, node: ast.UnaryOp):
        self.generic_visit(node)
        if isinstance(node.op, ast.Not) and isinstance(node.operand, ast.Constant) and isinstance(node.operand.value, bool):
            return ast.copy_location(ast.Constant(value=not node.operand.value), node)
        return node

    def visit_IfExp(self, node: ast.IfExp):
        self.generic_visit(node)
        t = self._truth(node.test)
        if t is not None:
            return node.body if t else node.orelse
        return node

    def visit_BoolOp(self, node: ast.BoolOp):
        self.generic_visit(node)
        vals = []
        for i, v in enumerate(node.values):
            t = self._truth(v) if isinstance(v, ast.Constant) and isinstance(v.value, bool) else None
            last = i == len(node.values) - 1
            if t is None or last:
                vals.append(v)
                continue
            if isinstance(node.op, ast.And):
                if t:
                    continue  # True and X -> X
                vals.append(v)
                break  # False and X -> False
            else:
                if not t:
                    continue  # False or X -> X
                vals.append(v)
                break
        if len(vals) == 1:
            return vals[0]
        node.values = vals
        return node


def _prune(body: List[ast.stmt]) -> List[ast.stmt]:
    out: List[ast.stmt] = []
    for s in body:
        if isinstance(s, ast.If) and isinstance(s.test, ast.Constant) and isinstance(s.test.value, bool):
            out.extend(_prune(s.body if s.test.value else s.orelse))
        else:
            out.append(s)
    return out


# ---------------------------------------------------------------------------------------------------- N4 / N5 locals
def _store_count(fn: ast.AST, name: str) -> int:
    c = 0
    for n in ast.walk(fn):
        if isinstance(n, ast.Name) and n.id == name and isinstance(n.ctx, (ast.Store, ast.Del)):
            c += 1
        elif isinstance(n, ast.arg) and n.arg == name:
            c += 1
        elif isinstance(n, (ast.Global, ast.Nonlocal)) and name in n.names:
            c += 5
        elif isinstance(n, ast.ExceptHandler) and n.name == name:
            c += 1
        elif isinstance(n, (ast.FunctionDef, ast.AsyncFunctionDef, ast.ClassDef)) and n is not fn and n.name == name:
            c += 1
        elif isinstance(n, ast.alias) and (n.asname or n.name.split(".")[0]) == name:
            c += 1
    return c


def _pure_bool(e: ast.AST) -> bool:
    if isinstance(e, ast.Compare):
        return all(isinstance(x, (ast.Name, ast.Constant)) or (isinstance(x, ast.Tuple) and _literal(x)) for x in [e.left] + e.comparators) and all(
            isinstance(o, (ast.Eq, ast.NotEq, ast.Is, ast.IsNot, ast.In, ast.NotIn, ast.Lt, ast.LtE, ast.Gt, ast.GtE)) for o in e.ops)
    if isinstance(e, ast.BoolOp):
        return all(_pure_bool(v) for v in e.values)
    if isinstance(e, ast.UnaryOp) and isinstance(e.op, ast.Not):
        return _pure_bool(e.operand) or isinstance(e.operand, ast.Name)
    if isinstance(e, ast.Call) and isinstance(e.func, ast.Name) and e.func.id in ("isinstance", "callable") and not e.keywords \
            and all(isinstance(a, (ast.Name, ast.Attribute, ast.Tuple)) for a in e.args):
        return True
    return False


def _fn_nodes(tree: ast.Module):
    for n in ast.walk(tree):
        if isinstance(n, (ast.FunctionDef, ast.AsyncFunctionDef)):
            yield n


def _walk_own(fn: ast.AST):
    """nodes of fn without descending into nested function/class definitions (lambdas and comprehensions are descended into)"""
    todo = list(ast.iter_child_nodes(fn))
    while todo:
        n = todo.pop()
        yield n
        if isinstance(n, (ast.FunctionDef, ast.AsyncFunctionDef, ast.ClassDef)):
            continue
        todo.extend(ast.iter_child_nodes(n))


def local_propagation(modname: str, tree: ast.Module, singles: Dict[str, ast.AST], phase: str = "pre") -> List[str]:
    log: List[str] = []
    imp = _imports(tree)
    # cast(T, e) -> e
    class Cast(ast.NodeTransformer):
        def visit_Call(self, node):
            self.generic_visit(node)
            if _origin(imp, node.func) == "typing.cast" and len(node.args) == 2 and not node.keywords:
                return node.args[1]
            return node
    Cast().visit(tree)

    for fn in list(_fn_nodes(tree)):
        # N5 loops over an extra module constant built by a comprehension over a literal
        for loop in [n for n in _walk_own(fn) if isinstance(n, ast.For)]:
            if not (isinstance(loop.iter, ast.Name) and loop.iter.id in singles and _store_count(fn, loop.iter.id) == 0):
                continue
            v = singles[loop.iter.id]
            if isinstance(v, ast.Call) and isinstance(v.func, ast.Name) and v.func.id in ("tuple", "list") and len(v.args) == 1 and not v.keywords:
                v = v.args[0]
            if not (isinstance(v, (ast.GeneratorExp, ast.ListComp)) and len(v.generators) == 1 and not v.generators[0].ifs
                    and isinstance(v.generators[0].target, ast.Name) and isinstance(v.generators[0].iter, (ast.Tuple, ast.List)) and _literal(
                        ast.Tuple(elts=v.generators[0].iter.elts, ctx=ast.Load()))):
                continue
            var = v.generators[0].target.id
            if _store_count(fn, var) != 0 or any(isinstance(n, ast.Name) and n.id == var for n in ast.walk(loop)):
                continue
            if not _pure_elt(v.elt, imp):
                continue
            elt = acopy(v.elt)
            tgt = loop.target
            if isinstance(tgt, (ast.Tuple, ast.List)) and isinstance(elt, ast.Tuple) and len(tgt.elts) == len(elt.elts) and all(isinstance(t, ast.Name) for t in tgt.elts):
                binds = [ast.copy_location(ast.Assign(targets=[ast.Name(id=t.id, ctx=ast.Store())], value=e, lineno=loop.lineno), loop) for t, e in zip(tgt.elts, elt.elts)]
            else:
                binds = [ast.copy_location(ast.Assign(targets=[tgt], value=elt, lineno=loop.lineno), loop)]
            loop.target = ast.copy_location(ast.Name(id=var, ctx=ast.Store()), tgt)
            loop.iter = ast.copy_location(ast.Tuple(elts=[acopy(x) for x in v.generators[0].iter.elts], ctx=ast.Load()), loop.iter)
            loop.body = binds + loop.body
            log.append(f"{modname}.{fn.name}: loop over module constant expanded at line {loop.lineno}")
        ast.fix_missing_locations(fn)
        # N5b first-match loops over a literal table (an extra module constant or a new local): `for k, v in ((k1, v1), ..): if P(k): return v`
        # and `for k, v in TABLE: if P(k): X(v); break` [else: E]  ->  the if / elif chain they stand for
        _unroll_tables(modname, fn, singles, log)
        if phase == "post":
            coalesce_loop_targets(modname, fn, log)

        changed = True
        guard = 0
        while changed and guard < 20:
            changed = False
            guard += 1
            for blk_owner, blk in _blocks(fn):
                for i, s in enumerate(blk):
                    if not (isinstance(s, ast.Assign) and len(s.targets) == 1 and isinstance(s.targets[0], ast.Name)):
                        continue
                    name = s.targets[0].id
                    if _store_count(fn, name) != 1:
                        continue
                    loads = [n for n in _walk_own(fn) if isinstance(n, ast.Name) and n.id == name and isinstance(n.ctx, ast.Load)]
                    nested_use = any(isinstance(n, ast.Name) and n.id == name for sub in _walk_own(fn) if isinstance(sub, (ast.FunctionDef, ast.AsyncFunctionDef))
                                     for n in ast.walk(sub))
                    if not loads or nested_use:
                        continue
                    v = s.value
                    # bound-method alias
                    if isinstance(v, ast.Attribute) and isinstance(v.value, ast.Name) and _store_count(fn, v.value.id) <= 1 and blk_owner is fn \
                            and all(isinstance(getattr(n, "_np", None), ast.Call) and n._np.func is n for n in _with_parents(fn, loads)):
                        for n in loads:
                            n._np.func = ast.copy_location(acopy(v), n)
                        blk.pop(i)
                        log.append(f"{modname}.{fn.name}: alias {name} = {ast.unparse(v)} folded")
                        changed = True
                        break
                    # named pure boolean at function level
                    if blk_owner is fn and _pure_bool(v) and all(_store_count(fn, x.id) <= 1 for x in ast.walk(v) if isinstance(x, ast.Name) and x.id not in ("isinstance", "callable")) \
                            and all(_bound_before(fn, x.id, s) for x in ast.walk(v) if isinstance(x, ast.Name)):
                        _with_parents(fn, loads)
                        for n in loads:
                            _replace_child(n._np, n, ast.copy_location(acopy(v), n))
                        blk.pop(i)
                        log.append(f"{modname}.{fn.name}: named boolean {name} folded")
                        changed = True
                        break
                    # local bound once to a literal, or to a name that is never bound in the function (module constant / builtin)
                    if _literal(v) or (isinstance(v, ast.Name) and _store_count(fn, v.id) == 0):
                        _with_parents(fn, loads)
                        if all(not isinstance(n._np, (ast.AugAssign,)) for n in loads) and _dominates(fn, blk_owner, blk, i, loads):
                            for n in loads:
                                _replace_child(n._np, n, ast.copy_location(acopy(v), n))
                            blk.pop(i)
                            log.append(f"{modname}.{fn.name}: local constant {name} = {ast.unparse(v)[:30]} folded")
                            changed = True
                            break
                    # a *new* local (not a local of the reference function) bound once to a pure expression over names that are bound at
                    # most once: every use, all dominated by the binding, can take the expression itself
                    if phase == "post" and getattr(s, "_inl_temp", False) and _pureish(v) and _is_new_local(modname, fn, name) and all(_store_count(fn, x.id) <= 1 for x in ast.walk(v) if isinstance(x, ast.Name)) \
                            and not _self_ref(v, name):
                        _with_parents(fn, loads)
                        if all(not isinstance(n._np, ast.AugAssign) for n in loads) and _dominates(fn, blk_owner, blk, i, loads):
                            for n in loads:
                                _replace_child(n._np, n, ast.copy_location(acopy(v), n))
                            blk.pop(i)
                            log.append(f"{modname}.{fn.name}: new pure local {name} = {ast.unparse(v)[:30]} folded")
                            changed = True
                            break
                    # an inliner binding that merely renames a caller variable (`text_inl1 = text`): the uses take the variable itself, provided
                    # the variable is not rebound between the binding and the last of those uses
                    if phase == "post" and getattr(s, "_inl_temp", False) and isinstance(v, ast.Name) and _is_new_local(modname, fn, name):
                        from .core import order_index as _oi_

                        oi_ = _oi_(fn)
                        last_use = max(oi_[id(n_)] for n_ in loads)
                        src_stores = [oi_[id(n_)] for n_ in _walk_own(fn) if isinstance(n_, ast.Name) and n_.id == v.id and isinstance(n_.ctx, ast.Store)]
                        in_loop = any(isinstance(a_, (ast.For, ast.While)) for a_ in [blk_owner])
                        if all(p_ < oi_[id(s)] or p_ > last_use for p_ in src_stores) and not in_loop and _dominates(fn, blk_owner, blk, i, loads):
                            _with_parents(fn, loads)
                            for n_ in loads:
                                n_.id = v.id
                            blk.pop(i)
                            log.append(f"{modname}.{fn.name}: inliner alias {name} = {v.id} folded")
                            changed = True
                            break
                    # single-use temporary consumed by the very next statement before anything else is evaluated there
                    if phase == "post" and getattr(s, "_inl_temp", False) and len(loads) == 1 and i + 1 < len(blk) and not isinstance(v, (ast.Yield, ast.YieldFrom, ast.Await)) and _first_evaluated(blk[i + 1], loads[0]) \
                            and not isinstance(blk[i + 1], (ast.For, ast.While, ast.FunctionDef, ast.AsyncFunctionDef, ast.ClassDef, ast.With, ast.Try)) \
                            and name.startswith("_") is False and _is_new_local(modname, fn, name):
                        _with_parents(fn, loads)
                        _replace_child(loads[0]._np, loads[0], ast.copy_location(acopy(v), loads[0]))
                        blk.pop(i)
                        log.append(f"{modname}.{fn.name}: single-use temporary {name} folded into the next statement")
                        changed = True
                        break
                    # coalescing: `T = expr` ... `V = T` with T a new local used nowhere after the copy and V untouched in between  ->  `V = expr`
                    # (what inlining a helper that returns its locals leaves behind: `new_start = f(start)` ... `start = new_start`)
                    if phase == "post" and _is_new_local(modname, fn, name):
                        copies = [(j, c_) for j, c_ in enumerate(blk) if j > i and isinstance(c_, ast.Assign) and len(c_.targets) == 1 and isinstance(c_.targets[0], ast.Name)
                                  and isinstance(c_.value, ast.Name) and c_.value.id == name]
                        if len(copies) == 1:
                            j, cp = copies[0]
                            V = cp.targets[0].id
                            between = blk[i + 1:j]
                            touched = any(isinstance(n_, ast.Name) and n_.id == V for b_ in between for n_ in ast.walk(b_))
                            later_use = any(isinstance(n_, ast.Name) and n_.id == name for b_ in blk[j + 1:] for n_ in ast.walk(b_))
                            outside = [n_ for n_ in loads if not any(n_ is x_ for b_ in blk[i:j + 1] for x_ in ast.walk(b_))]
                            if not touched and not later_use and not outside and V != name:
                                for n_ in loads:
                                    n_.id = V
                                s.targets[0].id = V
                                blk.pop(j)
                                log.append(f"{modname}.{fn.name}: {name} coalesced with {V}")
                                changed = True
                                break
                    # local compiled pattern
                    if isinstance(v, ast.Call) and _origin(imp, v.func) == "re.compile" and v.args and imp.get("re") == "re" \
                            and all(k.arg == "flags" for k in v.keywords) and len(v.args) <= 2 and _pure_elt(v.args[0], imp) \
                            and all(_store_count(fn, x.id) <= 1 for x in ast.walk(v) if isinstance(x, ast.Name)):
                        ps = _with_parents(fn, loads)
                        if all(isinstance(n._np, ast.Attribute) and n._np.attr in RE_METHODS and isinstance(getattr(n._np, "_np", None), ast.Call)
                               and n._np._np.func is n._np and RE_METHODS[n._np.attr][0] <= len(n._np._np.args) <= RE_METHODS[n._np.attr][1]
                               and all(k.arg in ("count", "maxsplit") for k in n._np._np.keywords) for n in ps):
                            flags = v.args[1] if len(v.args) > 1 else next((k.value for k in v.keywords if k.arg == "flags"), None)
                            for n in loads:
                                call = n._np._np
                                call.func = ast.copy_location(ast.Attribute(value=ast.copy_location(ast.Name(id="re", ctx=ast.Load()), n), attr=n._np.attr, ctx=ast.Load()), n)
                                call.args = [ast.copy_location(acopy(v.args[0]), n)] + call.args
                                if flags is not None:
                                    call.keywords.append(ast.keyword(arg="flags", value=acopy(flags)))
                            blk.pop(i)
                            log.append(f"{modname}.{fn.name}: local compiled pattern {name} folded")
                            changed = True
                            break
                if changed:
                    break
        ast.fix_missing_locations(fn)
    return log


PURE_ACCESSORS = {"groupdict", "span", "start", "end", "group", "groups"}
PURE_FUNCS = {"len", "min", "max", "abs"}


def _pureish(e: ast.AST) -> bool:
    """no side effects and the same value wherever it is evaluated while its operand names keep their values: arithmetic, attribute and
    item reads, tuple displays, accessors of match objects, len/min/max"""
    for n in ast.walk(e):
        if isinstance(n, ast.Call):
            if isinstance(n.func, ast.Attribute) and n.func.attr in PURE_ACCESSORS and not n.keywords:
                continue
            if isinstance(n.func, ast.Name) and n.func.id in PURE_FUNCS and not n.keywords:
                continue
            return False
        if isinstance(n, (ast.Await, ast.Yield, ast.YieldFrom, ast.NamedExpr, ast.Lambda, ast.ListComp, ast.SetComp, ast.DictComp, ast.GeneratorExp, ast.Starred,
                          ast.List, ast.Dict, ast.Set, ast.JoinedStr)):
            return False
    return isinstance(e, (ast.BinOp, ast.Call, ast.Attribute, ast.Subscript, ast.Tuple, ast.UnaryOp))


def _self_ref(v: ast.AST, name: str) -> bool:
    return any(isinstance(x, ast.Name) and x.id == name for x in ast.walk(v))


def _dominates(fn, blk_owner, blk, i, loads) -> bool:
    """every load lies in a statement after position i of the same block (or nested in one): the binding is always executed first"""
    later = set()
    for s_ in blk[i + 1:]:
        for n in ast.walk(s_):
            later.add(id(n))
    if all(id(n) in later for n in loads):
        return True
    # a binding inside a loop body whose loads are all in the same iteration after it is covered above; anything else is not
    return False


def _first_evaluated(stmt: ast.stmt, use: ast.AST) -> bool:
    """`use` occurs in stmt's own expression (not in a nested block) and no call / comprehension / await is evaluated before it"""
    if isinstance(stmt, ast.If):
        roots = [stmt.test]
    elif isinstance(stmt, (ast.Return, ast.Expr)):
        roots = [stmt.value] if stmt.value is not None else []
    elif isinstance(stmt, ast.Assign):
        roots = [stmt.value]
    elif isinstance(stmt, ast.AnnAssign):
        roots = [stmt.value] if stmt.value is not None else []
    else:
        return False
    nodes = [n for r in roots for n in ast.walk(r)]
    if not any(n is use for n in nodes):
        return False
    # ancestors of use
    anc = set()
    def mark(n, path):
        if n is use:
            for a in path:
                anc.add(id(a))
            return True
        return any(mark(c, path + [n]) for c in ast.iter_child_nodes(n))
    for r in roots:
        mark(r, [])
    pos = (use.lineno, use.col_offset)
    for n in nodes:
        if id(n) in anc or n is use:
            # a lazily evaluated context (and/or right operands, conditional branches, lambdas, comprehensions) changes whether it runs
            if isinstance(n, (ast.Lambda, ast.ListComp, ast.SetComp, ast.DictComp, ast.GeneratorExp)):
                return False
            if isinstance(n, ast.BoolOp) and not any(v is use or id(v) in anc for v in n.values[:1]):
                return False
            if isinstance(n, ast.IfExp) and not (n.test is use or id(n.test) in anc):
                return False
            continue
        if isinstance(n, (ast.Call, ast.Await, ast.Yield, ast.YieldFrom, ast.NamedExpr, ast.ListComp, ast.SetComp, ast.DictComp, ast.GeneratorExp)) \
                and hasattr(n, "lineno") and (n.lineno, n.col_offset) < pos:
            return False
    return True


_REF_LOCALS_CACHE: Dict[str, Set[str]] = {}


def _is_new_local(modname: str, fn: ast.AST, name: str) -> bool:
    """the temporary is not a local of the reference version of this function (those are left alone: rules may bind roles to them)"""
    try:
        ref = json.loads((HERE / "reference_locals.json").read_text()) if not _REF_LOCALS_CACHE else None
    except FileNotFoundError:
        return False
    if ref is not None:
        for k, v in ref.items():
            _REF_LOCALS_CACHE[k] = set(v)
    known = False
    for k, v in _REF_LOCALS_CACHE.items():
        if k.startswith(modname + ".") and k.split(".")[-1] == fn.name:
            known = True
            if name in v:
                return False
    # in an extra function (one the reference tree does not have) nothing is folded: it is inlined first, and its locals are then
    # judged against the reference function they end up in
    return known


def _table_rows(e: ast.AST):
    """rows of a literal table: a tuple/list display of tuple displays whose cells are constants, names or dotted names"""
    if not isinstance(e, (ast.Tuple, ast.List)) or not (1 <= len(e.elts) <= 8):
        return None
    rows = []
    for r in e.elts:
        cells = list(r.elts) if isinstance(r, (ast.Tuple, ast.List)) else [r]
        if not all(isinstance(c, ast.Constant) or _dotted(c) is not None for c in cells):
            return None
        rows.append((cells, isinstance(r, (ast.Tuple, ast.List))))
    return rows


def _unroll_tables(modname: str, fn: ast.AST, singles: Dict[str, ast.AST], log: List[str]) -> None:
    for owner, blk in list(_blocks(fn)):
        for i, loop in enumerate(list(blk)):
            if not isinstance(loop, ast.For) or loop not in blk:
                continue
            it = loop.iter
            table = None
            drop_local = None
            if isinstance(it, ast.Name) and it.id in singles and _store_count(fn, it.id) == 0:
                table = singles[it.id]
            elif isinstance(it, ast.Name) and _store_count(fn, it.id) == 1 and _is_new_local(modname, fn, it.id):
                binds = [s_ for s_ in fn.body if isinstance(s_, (ast.Assign, ast.AnnAssign)) and getattr(s_, "value", None) is not None and isinstance(
                    s_.targets[0] if isinstance(s_, ast.Assign) else s_.target, ast.Name) and (s_.targets[0] if isinstance(s_, ast.Assign) else s_.target).id == it.id]
                uses = [n for n in _walk_own(fn) if isinstance(n, ast.Name) and n.id == it.id and isinstance(n.ctx, ast.Load)]
                if len(binds) == 1 and len(uses) == 1:
                    table, drop_local = binds[0].value, binds[0]
            elif isinstance(it, (ast.Tuple, ast.List)):
                continue  # a literal written in place is how the reference code itself loops (e.g. over tag names): left alone
            rows = _table_rows(table) if table is not None else None
            if rows is None:
                continue
            tgt = loop.target
            names = [t.id for t in tgt.elts] if isinstance(tgt, (ast.Tuple, ast.List)) and all(isinstance(t, ast.Name) for t in tgt.elts) else (
                [tgt.id] if isinstance(tgt, ast.Name) else None)
            if names is None or any(len(cells) != len(names) for cells, _ in rows) or (len(names) > 1 and not all(is_t for _, is_t in rows)):
                continue
            if len(names) < 2:
                continue  # only key/value dispatch tables; a loop over a plain list of values is an ordinary loop
            body_nodes = [n for b in loop.body for n in [b, *_walk_own(b)]]
            if any(isinstance(n, ast.Continue) for n in body_nodes) or any(isinstance(n, ast.Name) and n.id in names and isinstance(n.ctx, ast.Store) for n in body_nodes):
                continue
            if any(isinstance(n, ast.Name) and n.id in names for st_ in blk[i + 1:] for n in ast.walk(st_)):
                continue  # the loop variables are read after the loop
            breaks = [n for n in body_nodes if isinstance(n, ast.Break)]

            def inst(stmts, cells):
                class Sub(ast.NodeTransformer):
                    def visit_Name(self, node):
                        if isinstance(node.ctx, ast.Load) and node.id in names:
                            return ast.copy_location(acopy(cells[names.index(node.id)]), node)
                        return node
                return [Sub().visit(acopy(s_)) for s_ in stmts]

            new: Optional[List[ast.stmt]] = None
            if not breaks and not loop.orelse:
                new = [s_ for cells, _ in rows for s_ in inst(loop.body, cells)]
            elif len(loop.body) == 1 and isinstance(loop.body[0], ast.If) and not loop.body[0].orelse and loop.body[0].body \
                    and isinstance(loop.body[0].body[-1], ast.Break) and len(breaks) == 1:
                chain: List[ast.stmt] = list(loop.orelse)
                for cells, _ in reversed(rows):
                    test = inst([ast.Expr(value=loop.body[0].test)], cells)[0].value
                    body = inst(loop.body[0].body[:-1], cells) or [ast.copy_location(ast.Pass(), loop)]
                    chain = [ast.copy_location(ast.If(test=test, body=body, orelse=chain), loop)]
                new = chain
            if new is None:
                continue
            blk[blk.index(loop):blk.index(loop) + 1] = new
            if drop_local is not None and drop_local in fn.body:
                fn.body.remove(drop_local)
            log.append(f"{modname}.{fn.name}: first-match loop over a literal table unrolled at line {loop.lineno}")
    ast.fix_missing_locations(fn)


def coalesce_loop_targets(modname: str, fn: ast.AST, log: List[str]) -> None:
    """`for .., T in X:` whose body starts with `V = T` (T a new name used nowhere else)  ->  `for .., V in X:`"""
    for loop in [n for n in _walk_own(fn) if isinstance(n, ast.For)]:
        if not loop.body:
            continue
        first = loop.body[0]
        if not (isinstance(first, ast.Assign) and len(first.targets) == 1 and isinstance(first.targets[0], ast.Name) and isinstance(first.value, ast.Name)):
            continue
        T, V = first.value.id, first.targets[0].id
        tnodes = [n for n in ast.walk(loop.target) if isinstance(n, ast.Name) and n.id == T]
        uses = [n for n in _walk_own(fn) if isinstance(n, ast.Name) and n.id == T]
        if len(tnodes) != 1 or len(uses) != 2 or not _is_new_local(modname, fn, T) or any(isinstance(n, ast.Name) and n.id == V for n in ast.walk(loop.target)) \
                or any(isinstance(n, ast.Name) and n.id == V for n in ast.walk(loop.iter)):
            continue
        tnodes[0].id = V
        loop.body.pop(0)
        if not loop.body:
            loop.body.append(ast.copy_location(ast.Pass(), loop))
        log.append(f"{modname}.{fn.name}: loop target {T} coalesced with {V}")


def _pure_elt(e: ast.AST, imp: Dict[str, str]) -> bool:
    """evaluating e has no effect and gives equal results every time: literals, names, f-strings, tuples, re.escape / re.compile"""
    for n in ast.walk(e):
        if isinstance(n, ast.Call):
            if _origin(imp, n.func) not in ("re.escape", "re.compile"):
                return False
        elif isinstance(n, (ast.Await, ast.Yield, ast.YieldFrom, ast.NamedExpr, ast.Lambda, ast.ListComp, ast.SetComp, ast.DictComp, ast.GeneratorExp)):
            return False
    return True


def _blocks(fn: ast.AST):
    """(owner node, statement list) for every block of fn, outermost first, not entering nested defs"""
    yield fn, fn.body
    for n in _walk_own(fn):
        for fld in ("body", "orelse", "finalbody"):
            b = getattr(n, fld, None)
            if isinstance(b, list) and b and isinstance(b[0], ast.stmt) and not isinstance(n, (ast.FunctionDef, ast.AsyncFunctionDef, ast.ClassDef, ast.Lambda)):
                yield n, b
        if isinstance(n, ast.ExceptHandler):
            pass


def _with_parents(fn: ast.AST, nodes):
    for n in ast.walk(fn):
        for c in ast.iter_child_nodes(n):
            c._np = n  # type: ignore[attr-defined]
    return nodes


def _replace_child(parent: ast.AST, old: ast.AST, new: ast.AST):
    for f, v in ast.iter_fields(parent):
        if v is old:
            setattr(parent, f, new)
            return
        if isinstance(v, list):
            for i, x in enumerate(v):
                if x is old:
                    v[i] = new
                    return


def _bound_before(fn: ast.AST, name: str, stmt: ast.stmt) -> bool:
    """name is a parameter, a global/builtin (never stored in fn), or its single store is in a function-level statement before stmt"""
    if name in ("isinstance", "callable", "True", "False", "None"):
        return True
    a = fn.args
    if name in {x.arg for x in a.args + a.kwonlyargs + a.posonlyargs}:
        return True
    if _store_count(fn, name) == 0:
        return True
    for s in fn.body:
        if s is stmt:
            return False
        if isinstance(s, (ast.Assign, ast.AnnAssign)) and any(isinstance(n, ast.Name) and n.id == name and isinstance(n.ctx, ast.Store) for n in ast.walk(s)):
            return True
    return False


# ---------------------------------------------------------------------------------------------------- N0 functions moved between modules
def _toplevel_bound(tree: ast.Module) -> Dict[str, str]:
    """module-level name -> how it is bound ('import:<origin>' | 'def' | 'assign')"""
    out: Dict[str, str] = {}
    for s in tree.body:
        if isinstance(s, ast.ImportFrom) and s.module:
            for a in s.names:
                out[a.asname or a.name] = f"import:{s.module}.{a.name}"
        elif isinstance(s, ast.Import):
            for a in s.names:
                out[a.asname or a.name.split(".")[0]] = f"import:{a.name if a.asname else a.name.split('.')[0]}"
        elif isinstance(s, (ast.FunctionDef, ast.AsyncFunctionDef, ast.ClassDef)):
            out[s.name] = "def"
        else:
            for n in ast.walk(s):
                if isinstance(n, ast.Name) and isinstance(n.ctx, ast.Store):
                    out.setdefault(n.id, "assign")
    return out


def relocate_functions(trees: Dict[str, ast.Module]) -> List[str]:
    """A module-level function that the reference tree has in module M but that now lives in a sibling module X and is imported by M
    is analysed where the reference has it; an *extra* helper defined in X and used by M only is analysed in M (so the inliner can
    fold it back).  Names the function needs from X's namespace are imported into M when M does not bind them differently."""
    import builtins

    log: List[str] = []
    for M, mt in trees.items():
        if M == "test_factories":
            continue
        for imp_stmt in [s for s in mt.body if isinstance(s, ast.ImportFrom) and s.module and s.module.startswith("eyecite.") and s.level == 0]:
            X = s_mod = imp_stmt.module.split(".", 1)[1]
            xt = trees.get(X)
            if xt is None or X == M:
                continue
            for al in list(imp_stmt.names):
                local = al.asname or al.name
                fdef = next((s for s in xt.body if isinstance(s, ast.FunctionDef) and s.name == al.name), None)
                if fdef is None or fdef.decorator_list or f"{X}.{al.name}" in REFERENCE_FUNCS:
                    continue
                moved_back = f"{M}.{local}" in REFERENCE_FUNCS
                if not moved_back:
                    # an extra helper: only M may use it
                    used_elsewhere = False
                    for O, ot in trees.items():
                        if O == M:
                            continue
                        for n in ast.walk(ot):
                            if n is fdef:
                                continue
                            if isinstance(n, ast.Name) and n.id == al.name and O == X and not _inside(fdef, n):
                                used_elsewhere = True
                            if isinstance(n, ast.alias) and n.name == al.name and O != X:
                                used_elsewhere = True
                            if isinstance(n, ast.Attribute) and n.attr == al.name:
                                used_elsewhere = True
                    if used_elsewhere:
                        continue
                xb, mb = _toplevel_bound(xt), _toplevel_bound(mt)
                params_locals = {a.arg for a in ast.walk(fdef) if isinstance(a, ast.arg)} | {n.id for n in ast.walk(fdef) if isinstance(n, ast.Name) and isinstance(n.ctx, ast.Store)}
                need: Dict[str, str] = {}
                ok = True
                for n in ast.walk(fdef):
                    if isinstance(n, ast.Name) and isinstance(n.ctx, ast.Load) and n.id not in params_locals and not hasattr(builtins, n.id) and n.id != al.name:
                        how = xb.get(n.id)
                        if how is None:
                            ok = False
                            break
                        want = how if how.startswith("import:") else f"import:eyecite.{X}.{n.id}"
                        have = mb.get(n.id)
                        if have is None:
                            need[n.id] = want
                        elif have != want and not (have == "def" and want == f"import:eyecite.{M}.{n.id}"):
                            ok = False
                            break
                if not ok:
                    continue
                xt.body.remove(fdef)
                for n in ast.walk(fdef):
                    n._tmod = X  # type: ignore[attr-defined]
                fdef.name = local
                mt.body.append(fdef)
                imp_stmt.names.remove(al)
                for nm, want in need.items():
                    origin = want[len("import:"):]
                    if "." in origin:
                        modpart, _, attr = origin.rpartition(".")
                        mt.body.insert(0, ast.ImportFrom(module=modpart, names=[ast.alias(name=attr, asname=nm if nm != attr else None)], level=0, lineno=1, col_offset=0))
                    else:
                        mt.body.insert(0, ast.Import(names=[ast.alias(name=origin, asname=nm if nm != origin else None)], lineno=1, col_offset=0))
                log.append(f"{X}.{al.name} is analysed as {M}.{local} ({'moved reference function' if moved_back else 'extra helper used by this module only'})")
            if not imp_stmt.names:
                mt.body.remove(imp_stmt)
        ast.fix_missing_locations(mt)
    return log


def _inside(root: ast.AST, node: ast.AST) -> bool:
    return any(n is node for n in ast.walk(root))


# ---------------------------------------------------------------------------------------------------- N6 records introduced to carry results
def scalar_replace(modname: str, tree: ast.Module) -> List[str]:
    """A NamedTuple class that the reference tree does not have, used to hand several results of an extracted helper back to its caller:
    once the helper is inlined, a local that is only ever bound to `K(..)` and only ever read as `local.<field>` is replaced by one local
    per field (scalar replacement of aggregates).  Field order = evaluation order of the constructor arguments, defaults filled in."""
    log: List[str] = []
    classes: Dict[str, List[Tuple[str, Optional[ast.AST]]]] = {}
    for s in tree.body:
        if isinstance(s, ast.ClassDef) and any((isinstance(b, ast.Name) and b.id == "NamedTuple") or (isinstance(b, ast.Attribute) and b.attr == "NamedTuple") for b in s.bases) \
                and f"{modname}.{s.name}" not in REFERENCE_NAMES:
            fields = [(x.target.id, x.value) for x in s.body if isinstance(x, ast.AnnAssign) and isinstance(x.target, ast.Name)]
            if fields and not any(isinstance(x, (ast.FunctionDef, ast.AsyncFunctionDef)) for x in s.body):
                classes[s.name] = fields
    if not classes:
        return log

    def ctor_fields(call: ast.AST) -> Optional[List[Tuple[str, ast.AST]]]:
        if not (isinstance(call, ast.Call) and isinstance(call.func, ast.Name) and call.func.id in classes):
            return None
        fields = classes[call.func.id]
        if any(isinstance(a, ast.Starred) for a in call.args) or any(k.arg is None for k in call.keywords) or len(call.args) > len(fields):
            return None
        got: Dict[str, ast.AST] = {}
        order: List[str] = []
        for (fname, _d), a in zip(fields, call.args):
            got[fname] = a
            order.append(fname)
        for k in call.keywords:
            if k.arg in got or k.arg not in dict(fields):
                return None
            got[k.arg] = k.value
            order.append(k.arg)
        for fname, d in fields:
            if fname not in got:
                if d is None or not _literal(d):
                    return None
                got[fname] = d
                order.append(fname)
        return [(f, got[f]) for f in order]

    # constants: NAME = K(<literals>)
    consts = {n: v for n, v in _module_single_bindings(modname, tree).items() if ctor_fields(v) is not None and all(_literal(x) for _f, x in ctor_fields(v))}
    if consts:
        class C(_Shadow):
            def visit_Name(self, node):
                if isinstance(node.ctx, ast.Load) and node.id in consts and self.in_function() and not self.shadowed(node.id):
                    return ast.copy_location(acopy(consts[node.id]), node)
                return node
        C().visit(tree)
    for fn in list(_fn_nodes(tree)):
        _with_parents(fn, [])
        names = {n.id for n in _walk_own(fn) if isinstance(n, ast.Name) and isinstance(n.ctx, ast.Store)}
        for a in sorted(names):
            stores = [n for n in _walk_own(fn) if isinstance(n, ast.Name) and n.id == a and isinstance(n.ctx, ast.Store)]
            loads = [n for n in _walk_own(fn) if isinstance(n, ast.Name) and n.id == a and isinstance(n.ctx, ast.Load)]
            if not stores or not loads or any(x.arg == a for x in ast.walk(fn.args) if isinstance(x, ast.arg)):
                continue
            assigns = []
            ok = True
            for st in stores:
                par = getattr(st, "_np", None)
                if not (isinstance(par, ast.Assign) and len(par.targets) == 1 and par.targets[0] is st and ctor_fields(par.value) is not None):
                    ok = False
                    break
                assigns.append(par)
            kinds = {par.value.func.id for par in assigns} if ok else set()
            if not ok or len(kinds) != 1:
                continue
            K = kinds.pop()
            fnames = [f for f, _ in classes[K]]
            if not all(isinstance(getattr(n, "_np", None), ast.Attribute) and n._np.value is n and n._np.attr in fnames and isinstance(n._np.ctx, ast.Load) for n in loads):
                continue
            all_names = {n.id for n in ast.walk(fn) if isinstance(n, ast.Name)} | {x.arg for x in ast.walk(fn) if isinstance(x, ast.arg)}
            new_name = {}
            for f in fnames:
                cand = f"{a}_{f}"
                while cand in all_names:
                    cand += "_"
                new_name[f] = cand
                all_names.add(cand)
            for par in assigns:
                parts = [ast.copy_location(ast.Assign(targets=[ast.Name(id=new_name[f], ctx=ast.Store())], value=v, lineno=par.lineno), par) for f, v in ctor_fields(par.value)]
                owner = getattr(par, "_np", None)
                for fld in ("body", "orelse", "finalbody"):
                    blk = getattr(owner, fld, None)
                    if isinstance(blk, list) and par in blk:
                        i = blk.index(par)
                        blk[i:i + 1] = parts
            for n in loads:
                attr = n._np
                _replace_child(attr._np, attr, ast.copy_location(ast.Name(id=new_name[attr.attr], ctx=ast.Load()), attr))
            log.append(f"{modname}.{fn.name}: record local {a} ({K}) replaced by one local per field")
            _with_parents(fn, [])
        ast.fix_missing_locations(fn)
    return log


def post_inline(trees: Dict[str, ast.Module]) -> List[str]:
    """after the helper inliner: the temporaries it introduced for arguments / results are folded like any other new local"""
    log: List[str] = []
    for m, t in trees.items():
        if m == "test_factories":
            continue
        log += scalar_replace(m, t)
        # constant tests left behind when a helper's flag parameter was bound to a literal
        before = ast.dump(t)
        _Fold().visit(t)
        for n in ast.walk(t):
            for fld in ("body", "orelse", "finalbody"):
                b = getattr(n, fld, None)
                if isinstance(b, list) and b and isinstance(b[0], ast.stmt):
                    setattr(n, fld, _prune(b) or ([ast.copy_location(ast.Pass(), b[0])] if fld == "body" else []))
        if ast.dump(t) != before:
            log.append(f"{m}: constant conditions folded after inlining")
            ast.fix_missing_locations(t)
        log += local_propagation(m, t, _module_single_bindings(m, t), phase="post")
    return log


def normalise(trees: Dict[str, ast.Module]) -> List[str]:
    log: List[str] = []
    log += relocate_functions(trees)
    log += propagate_constants(trees)
    log += specialise_defaults(trees)
    if log:
        from .canon import _Expr

        for t in trees.values():
            _Expr().visit(t)  # constant parts of f-strings etc. exposed by the substitutions
            ast.fix_missing_locations(t)
    for m, t in trees.items():
        if m == "test_factories":
            continue
        log += local_propagation(m, t, _module_single_bindings(m, t))
    return log
