"""Classification of calls that leave the eyecite package (standard library / third-party code).

A call whose target is not eyecite code cannot be analysed, but what it can do to *eyecite's* state is
limited: it can only reach objects it is handed (arguments, receiver) or process-global state of the
interpreter.  The tables below say, per origin (`module.attr` after resolving the local import alias):

  AMBIENT          reads an input that is not an argument (clock, randomness, environment, process identity)
  ARG_MUTATORS     stdlib functions that mutate one of their arguments in place
  STATEFUL_MODULES modules whose functions read or write process-global state (files, interpreter, locale, ...)

Everything else in the standard library (sys.stdlib_module_names) is *argument-pure*: it neither mutates
its arguments nor touches state eyecite can observe (e.g. unicodedata.normalize, os.path.commonprefix,
html.unescape, dataclasses.replace, itertools.*, operator.itemgetter, textwrap.*, string.*).  Third-party
modules are pure only if listed in PURE_THIRD_PARTY (the libraries eyecite already uses).
"""
from __future__ import annotations

import ast
import sys
from typing import Optional

STDLIB = set(getattr(sys, "stdlib_module_names", ())) | {"typing_extensions"}

PURE_THIRD_PARTY = {"regex", "lxml", "fast_diff_match_patch", "hyperscan", "ahocorasick", "reporters_db", "courts_db"}

AMBIENT = (
    "random.", "time.", "uuid.", "secrets.", "os.environ", "os.getenv", "os.urandom", "os.getpid", "os.getppid", "os.times", "os.getcwd", "os.getlogin",
    "os.cpu_count", "datetime.datetime.now", "datetime.datetime.today", "datetime.datetime.utcnow", "datetime.date.today", "threading.get_ident",
    "threading.current_thread", "threading.get_native_id", "socket.", "getpass.", "platform.", "tempfile.", "sys.argv", "sys.getrefcount",
    "locale.getlocale", "locale.getpreferredencoding", "multiprocessing.current_process", "resource.", "gc.get", "tracemalloc.",
)

ARG_MUTATORS = {
    "random.shuffle", "heapq.heapify", "heapq.heappush", "heapq.heappop", "heapq.heappushpop", "heapq.heapreplace", "bisect.insort",
    "bisect.insort_left", "bisect.insort_right", "operator.setitem", "operator.delitem", "operator.iadd", "operator.iconcat", "operator.ior",
    "operator.iand", "operator.isub", "operator.imul", "operator.ixor", "copy.copy.__setstate__", "shutil.copyfileobj",
    "setattr", "delattr", "vars", "object.__setattr__", "dict.update", "dict.setdefault", "dict.pop", "dict.clear", "dict.__setitem__",
    "list.append", "list.extend", "list.sort", "list.insert", "list.pop", "list.remove", "list.clear", "list.reverse", "set.add", "set.update",
    "set.discard", "set.remove", "set.clear", "set.pop",
}

STATEFUL_MODULES = {
    "sys", "os", "gc", "importlib", "locale", "warnings", "signal", "threading", "multiprocessing", "subprocess", "socket", "atexit", "builtins",
    "ctypes", "pickle", "shelve", "dbm", "sqlite3", "tempfile", "shutil", "io", "pathlib", "random", "time", "uuid", "secrets", "concurrent", "asyncio",
    "queue", "sched", "select", "selectors", "mmap", "fcntl", "resource", "site", "code", "codeop", "runpy", "pdb", "trace", "tracemalloc", "faulthandler",
    "weakref", "contextvars", "glob", "fileinput", "linecache", "tokenize", "zipimport", "pkgutil", "urllib", "http", "ftplib", "smtplib", "ssl", "logging.config",
    "getpass", "platform", "inspect",
}
# pure corners of otherwise stateful modules
PURE_EXCEPTIONS = ("os.path.commonprefix", "os.path.basename", "os.path.dirname", "os.path.join", "os.path.split", "os.path.splitext", "os.path.normpath",
                   "os.path.commonpath", "os.fspath", "os.sep", "os.linesep", "sys.intern", "sys.maxsize", "sys.maxunicode", "sys.getsizeof",
                   "pathlib.PurePath", "pathlib.PurePosixPath", "io.StringIO", "io.BytesIO", "weakref.ref", "weakref.proxy", "inspect.signature",
                   "inspect.isclass", "inspect.isfunction")
# memoising decorators: transparent iff the wrapped function is pure and returns something nobody mutates (checked by the client)
MEMO_DECORATORS = {"functools.lru_cache", "functools.cache", "functools.cached_property"}


def origin_of(imports: dict, func: ast.AST, local_imports: Optional[dict] = None) -> Optional[str]:
    """dotted origin of a call's function expression after resolving the import alias of its root name
    (`normalize` with `from unicodedata import normalize` -> `unicodedata.normalize`)."""
    parts = []
    n = func
    while isinstance(n, ast.Attribute):
        parts.append(n.attr)
        n = n.value
    if not isinstance(n, ast.Name):
        return None
    root = n.id
    o = (local_imports or {}).get(root) or imports.get(root)
    if o is None:
        return None
    return ".".join([o] + list(reversed(parts)))


def classify(origin: Optional[str]) -> str:
    """'pure' | 'ambient' | 'mutates-args' | 'stateful' | 'memo' | 'eyecite' | 'unknown'"""
    if not origin:
        return "unknown"
    top = origin.split(".")[0]
    if top == "eyecite":
        return "eyecite"
    if origin in MEMO_DECORATORS:
        return "memo"
    if any(origin == p.rstrip(".") or origin.startswith(p) for p in AMBIENT):
        return "ambient"
    if origin in ARG_MUTATORS:
        return "mutates-args"
    if any(origin == p or origin.startswith(p + ".") for p in PURE_EXCEPTIONS):
        return "pure"
    if top in STATEFUL_MODULES or ".".join(origin.split(".")[:2]) in STATEFUL_MODULES:
        return "stateful"
    if top in STDLIB or top in PURE_THIRD_PARTY:
        return "pure"
    return "unknown"
