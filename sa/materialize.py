"""Materialise eyecite's *generated sources*: the extractor table that
tokenizers._populate_reporter_extractors() builds from reporters-db templates
at import, and the string constants of regexes.py.

This is the build step of the analysis (like running a code generator before
analysing its output): a helper process imports eyecite.regexes and
eyecite.tokenizers from the analysed root and dumps the table as JSON.  No
pattern is ever matched against a text, here or later.

Used as a library (`load(root)`) it caches the dump under /verif/.cache keyed
by the sha256 of the modules that shape the table; the cache is optional and
rebuilt when absent.
"""
from __future__ import annotations

import hashlib
import json
import os
import subprocess
import sys
from pathlib import Path
from typing import Any, Dict

from .core import VERIF, AnalysisError

SHAPING = ["regexes.py", "tokenizers.py", "models.py", "utils.py", "clean.py", "annotate.py", "__init__.py"]

HELPER = r'''
import json, sys, re
root = sys.argv[1]
sys.path.insert(0, root)
import eyecite
assert eyecite.__file__.startswith(root), (eyecite.__file__, root)
import eyecite.regexes as R
import eyecite.tokenizers as T
import reporters_db
out = {"root": root, "regex_constants": {}, "extractors": [], "stop_words": list(getattr(R, "STOP_WORDS", ()))}
for k, v in vars(R).items():
    if isinstance(v, str) and not k.startswith("__"):
        out["regex_constants"][k] = v
try:
    from importlib.metadata import version
    out["reporters_db_version"] = version("reporters-db")
except Exception:
    out["reporters_db_version"] = "?"
for i, e in enumerate(T.EXTRACTORS):
    ctor = e.constructor
    owner = getattr(ctor, "__self__", None)
    ex = e.extra or {}
    def eds(lst):
        return [[ed.short_name, ed.reporter.source, ed.reporter.short_name, str(ed.start)[:10] if ed.start else None, str(ed.end)[:10] if ed.end else None] for ed in lst]
    out["extractors"].append({
        "i": i,
        "regex": e.regex,
        "flags": int(e.flags),
        "strings": list(e.strings),
        "ctor": (owner.__name__ if owner is not None else getattr(ctor, "__qualname__", repr(ctor))) + "." + getattr(ctor, "__name__", "?"),
        "short": bool(ex.get("short", False)),
        "exact": eds(ex.get("exact_editions", [])),
        "variation": eds(ex.get("variation_editions", [])),
        "extra_keys": sorted(ex.keys()),
    })
db = []
for key, cluster in reporters_db.REPORTERS.items():
    for src in cluster:
        for ed in src["editions"]:
            db.append([ed, "reporters", "edition"])
        for var in src["variations"]:
            db.append([var, "reporters", "variation"])
for kind, table in (("laws", reporters_db.LAWS), ("journals", reporters_db.JOURNALS)):
    for key, cluster in table.items():
        for src in cluster:
            db.append([key, kind, "edition"])
            for var in src.get("variations", []):
                db.append([var, kind, "variation"])
out["db_strings"] = db
# reporters-db's own statement of which edition each spelling stands for: [spelling, 'edition'|'variation', edition name, start, end]
dbmap = []
for key, cluster in reporters_db.REPORTERS.items():
    for si, src in enumerate(cluster):
        for ed, info in src["editions"].items():
            dbmap.append([ed, "edition", ed, str(info.get("start"))[:10] if info.get("start") else None, str(info.get("end"))[:10] if info.get("end") else None, f"{key}#{si}"])
        for var, ed in src["variations"].items():
            info = src["editions"].get(ed, {})
            dbmap.append([var, "variation", ed, str(info.get("start"))[:10] if info.get("start") else None, str(info.get("end"))[:10] if info.get("end") else None, f"{key}#{si}"])
out["db_edition_map"] = dbmap
default = T.default_tokenizer
out["default_tokenizer_class"] = type(default).__name__
json.dump(out, sys.stdout)
'''


def digest(root: Path) -> str:
    h = hashlib.sha256()
    for n in SHAPING:
        p = root / "eyecite" / n
        h.update(n.encode())
        h.update(p.read_bytes() if p.exists() else b"<missing>")
    try:
        from importlib.metadata import version

        h.update(version("reporters-db").encode())
    except Exception:  # noqa: BLE001
        pass
    return h.hexdigest()[:24]


def load(root: str | Path) -> Dict[str, Any]:
    root = Path(root).resolve()
    dg = digest(root)
    cache = VERIF / ".cache"
    cf = cache / f"extractors3-{dg}.json"
    if cf.exists():
        try:
            return json.loads(cf.read_text())
        except Exception:  # noqa: BLE001
            pass
    env = dict(os.environ)
    env["PYTHONDONTWRITEBYTECODE"] = "1"
    env.pop("PYTHONPATH", None)
    p = subprocess.run([sys.executable, "-c", HELPER, str(root)], capture_output=True, text=True, cwd=str(root), env=env, timeout=300)
    if p.returncode != 0:
        raise AnalysisError(
            "materialisation of the extractor table failed (importing eyecite.tokenizers from "
            f"{root}): {p.stderr.strip().splitlines()[-1] if p.stderr.strip() else p.returncode}"
        )
    data = json.loads(p.stdout)
    data["digest"] = dg
    try:
        cache.mkdir(exist_ok=True)
        cf.write_text(json.dumps(data))
        # keep the cache small
        files = sorted(cache.glob("extractors*.json"), key=lambda f: f.stat().st_mtime)
        for f in files[:-40]:
            f.unlink()
    except OSError:
        pass
    return data
